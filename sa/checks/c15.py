"""C15 - game permutations decode to consistent earliest-slot schedules."""
from __future__ import annotations

import ast
from fractions import Fraction
from typing import Any

from sa import ordenum
from sa.guards import GuardWalk, is_opaque
from sa.kern import make_evaluator, py_calls
from sa.lin import Lin, entails
from sa.report import Ctx
from sa.srcmodel import FuncInfo, func_body
from sa.symterm import (Env, Poly, Unsupported, _eq, c_not, show,
                        show_cond)

MOD = "moptipyapps.ttp.game_encoding"


def _app(fn: str, *a: Poly) -> Poly:
    return Poly.atom(("app", fn, tuple(a)))


def run(ctx: Ctx) -> None:
    ctx.explanation = (
        "D15.1 (map_games): y.fill(0) precedes everything; for each game the "
        "days are scanned in ascending order from 0; the only stores into "
        "the plan are a pair on one path, taken exactly when both teams' "
        "cells of that day are still 0, with values away+1 and -(home+1), "
        "immediately followed by `break` - hence mutually consistent, "
        "earliest free day, never twice a day, dropped when no day is free. "
        "D15.2: after the diagonal skip away != home on every ordering. "
        "D15.3 (search space): exactly one code is appended per (round, i, "
        "j<i); by the kernel's own decoding arithmetic (checked to be "
        "(g // (n-1)) % n and g % (n-1)) and Euclidean division with a "
        "proven remainder range, every appended code decodes to the pair "
        "{i, j}: each pairing occurs exactly `rounds` times. D15.4: the "
        "orientation of a pairing follows the parity of the round in all "
        "rounds except the last of an odd number of rounds (equivalence of "
        "the `normal` condition with that description on all comparison "
        "outcomes, parities as 0/1 symbols), hence home/away counts per "
        "pairing differ by at most one. Not decided: the balance per TEAM "
        "in the special round (a parity argument over the triangular "
        "enumeration of the pairs).")
    for rid, txt in (("D15.1", "earliest-slot placement protocol"),
                     ("D15.2", "home != away"),
                     ("D15.3", "search space: one code per (round, pair), "
                               "decoding to that pair"),
                     ("D15.4", "home/away roles per pairing differ by at "
                               "most one")):
        ctx.rule(rid, txt)
    dec = _decoder(ctx)
    if dec is not None:
        _space(ctx, dec)
    ctx.rule("D15.5", "the cells of a plan can hold every entry the decoder "
             "writes (-n .. n)")
    _plan_cells(ctx)
    ctx.assumptions += ["n >= 2 teams (instance constructor)",
                        "the plan has (n-1)*rounds rows of n cells "
                        "(GamePlan.__new__, C13 D13.3)"]


def _decoder(ctx: Ctx) -> dict[str, Any] | None:
    repo = ctx.repo
    from sa.srcmodel import elementwise
    fi = elementwise(repo.func(MOD, "map_games"))
    xp, yp = fi.params
    ev = make_evaluator(repo, fi)
    gw = GuardWalk(ev)
    env = Env()
    env.vars[yp] = ("array", "y")
    body = func_body(fi)
    # ---- fill(0) before any cell of the plan is read or written
    from sa.cfg import CFG
    cfg = CFG(fi.node)

    def is_fill(nd: Any) -> bool:
        x = nd.ast
        return nd.kind == "stmt" and isinstance(x, ast.Expr) and isinstance(
            x.value, ast.Call) and ast.unparse(x.value.func) == \
            f"{yp}.fill" and len(x.value.args) == 1 and repo.const(
                fi.module, x.value.args[0]) == 0 and not isinstance(
                repo.const(fi.module, x.value.args[0]), bool)
    uses = [nd for nd in cfg.nodes if nd.ast is not None and nd.kind in (
        "stmt", "test") and not is_fill(nd) and any(
        isinstance(x, ast.Subscript) and isinstance(x.value, ast.Name)
        and x.value.id == yp for x in ast.walk(nd.ast))]
    first = next((nd.ast for nd in cfg.nodes if is_fill(nd)), body[0])
    ok_fill = bool(uses) and all(cfg.dominated_by(u, is_fill) for u in uses)
    ctx.ob("D15.1", fi, first, ok_fill,
           f"the destination plan is zeroed before all {len(uses)} accesses "
           "to its cells, on every path" if
           ok_fill else "the plan is not zeroed first: earlier contents "
           "could block or appear as games",
           construct="plan zeroed first")
    # ---- evaluate the per-game prefix
    game_loop = next((s for s in body if isinstance(s, ast.For)), None)
    ctx.need(game_loop is not None, "map_games: loop over the games")
    pre_env = Env()
    pre_env.vars[yp] = ("array", "y")
    for s in body:
        if s is game_loop:
            break
        if isinstance(s, (ast.Assign, ast.AnnAssign)):
            try:
                # days, n = y.shape
                if isinstance(s, ast.Assign) and isinstance(
                        s.targets[0], ast.Tuple) and ast.unparse(
                        s.value) == f"{yp}.shape":
                    a, b = s.targets[0].elts
                    pre_env.vars[a.id] = Poly.var("days")
                    pre_env.vars[b.id] = Poly.var("n")
                else:
                    pre_env = ev.stmt(pre_env, s)
            except Unsupported:
                pass
    g = Poly.var(game_loop.target.id) if isinstance(
        game_loop.target, ast.Name) else None
    ctx.need(g is not None, "map_games: game variable")
    _all_games(ctx, fi, ev, pre_env, game_loop, xp)
    genv = pre_env.copy()
    genv.vars[game_loop.target.id] = g
    day_loop = None
    try:
        for s in game_loop.body:
            if isinstance(s, ast.For):
                day_loop = s
                break
            genv = ev.stmt(genv, s)
    except Unsupported as u:
        ctx.ob("D15.2", fi, u.node or fi.node, False,
               f"cannot normalise the game decoding: {u}",
               construct="game decoding")
        return None
    ctx.need(day_loop is not None, "map_games: loop over the days")
    n = Poly.var("n")
    div = n - Poly.const(1)
    home_ref = _app("mod", _app("floordiv", g, div), n)
    away0 = _app("mod", g, div)
    # which variables hold home / away? the ones used as column of stores
    stores = [s for s in ast.walk(game_loop) if isinstance(s, ast.Assign)
              and isinstance(s.targets[0], ast.Subscript)]
    in_loop = [s for s in stores if any(s is x for x in ast.walk(day_loop))]
    after_loop = bool(stores) and not in_loop
    ok_dec = False
    home = away = None
    info: dict[str, Any] = {}
    denv = genv.copy()
    dvar = day_loop.target.id if isinstance(
        day_loop.target, ast.Name) else "day"
    denv.vars[dvar] = Poly.var("day")
    # search-then-write form: the stores follow the day loop; evaluate the
    # statements between the loop and the stores with day = its final value
    senv = denv
    if after_loop:
        senv = denv.copy()
        gpre = GuardWalk(ev)
        past = False
        for s in game_loop.body:
            if s is day_loop:
                past = True
                continue
            if past and not any(st is x for st in stores
                                for x in ast.walk(s)):
                try:
                    senv = ev.stmt(senv, s)
                except Unsupported:
                    pass
        del gpre
    try:
        cols = []
        for s in stores:
            idx = ev.index(senv, s.targets[0].slice)
            val = ev.num(senv, s.value)
            cols.append((idx, val, s))
        # the pair of stores: y[day, H] = A + 1 ; y[day, A] = -(H + 1)
        if len(cols) == 2:
            (i1, v1, _), (i2, v2, _) = cols
            for (ia, va), (ib, vb) in (((i1, v1), (i2, v2)),
                                       ((i2, v2), (i1, v1))):
                H, A = ia[1], ib[1]
                if va == A + Poly.const(1) and vb == -(H + Poly.const(1)) \
                        and ia[0] == ib[0] == Poly.var("day"):
                    home, away = H, A
        if home is not None:
            a_at = away.as_atom()
            shift_ok = a_at is not None and a_at[0] == "ite" and \
                a_at[2] == away0 + Poly.const(1) and a_at[3] == away0 and \
                a_at[1] == ("le", home_ref, away0)
            if not shift_ok and home == home_ref:
                # the same selection written the other way round: decide it
                # on the three orderings of (away0, home)
                try:
                    sel_ok = True
                    for ranks, want_d in (((0, 1), 0), ((0, 0), 1),
                                          ((1, 0), 1)):
                        m_ = ordenum.OrderModel([away0, home_ref])
                        m_.ranks = ranks
                        d_ = (m_.select(away) - away0).const_value()
                        sel_ok = sel_ok and d_ == want_d
                    shift_ok = sel_ok
                except Exception:  # noqa: BLE001
                    shift_ok = False
            ok_dec = home == home_ref and shift_ok
            info = {"home": home, "away": away}
    except Unsupported:
        pass
    ctx.ob("D15.3", fi, game_loop, ok_dec,
           "a game code g is decoded as home = (g // (n-1)) % n, away = "
           "g % (n-1), shifted by one when away >= home" if ok_dec else
           "the decoding arithmetic of map_games is not the documented "
           f"one: home = {show(home) if home is not None else '?'}, away = "
           f"{show(away) if away is not None else '?'}",
           construct="game decoding arithmetic")
    # ---- D15.2 away != home on all orderings of (away0, home)
    if home is not None and away is not None:
        bad = None
        try:
            for ranks, rel in (((0, 1), "lt"), ((0, 0), "eq"),
                               ((1, 0), "gt")):
                m = ordenum.OrderModel([away0, home_ref])
                m.ranks = ranks
                sel = m.select(away)
                # sel is away0 or away0+1
                d = (sel - away0).const_value()
                if d is None:
                    bad = f"away is {show(sel)}"
                    break
                # away0 + d vs home with away0 rel home
                equal_possible = (rel == "lt" and d >= 1) or (
                    rel == "eq" and d == 0) or (rel == "gt" and d <= -1)
                if equal_possible:
                    bad = (f"away0 {rel} home and away = away0 + {d} can "
                           "equal home")
                    break
        except Unsupported as u:
            bad = str(u)
        ctx.ob("D15.2", fi, game_loop, bad is None,
               "after the diagonal skip the away team differs from the "
               "home team for every ordering of (g % (n-1), home)" if
               bad is None else f"a team can be scheduled against itself: "
                                f"{bad}", construct="home != away")
    # ---- D15.1 placement protocol in the day loop
    it = day_loop.iter
    ok_days = isinstance(it, ast.Call) and ast.unparse(
        it.func) == "range" and len(it.args) == 1
    if ok_days:
        try:
            ok_days = ev.num(denv, it.args[0]) == Poly.var("days")
        except Unsupported:
            ok_days = False
    ctx.ob("D15.1", fi, day_loop, ok_days,
           "days are scanned in ascending order from 0 to the last day",
           construct="ascending day scan")
    # every game of the permutation gets its scan: nothing in the game loop
    # jumps over the day loop
    inside_days = {id(x) for x in ast.walk(day_loop)}
    jumps = [x for x in ast.walk(game_loop) if isinstance(
        x, (ast.Continue, ast.Break, ast.Return))
        and id(x) not in inside_days]
    jguard = ""
    if jumps:
        par = next((i_ for i_ in ast.walk(game_loop) if isinstance(
            i_, ast.If) and any(j_ is jumps[0] for j_ in i_.body)), None)
        jguard = f" under `{ast.unparse(par.test)[:60]}`" if par else ""
    ctx.ob("D15.1", fi, jumps[0] if jumps else game_loop, not jumps,
           "every game of the permutation reaches the scan over the days"
           if not jumps else
           f"a game is skipped{jguard} (`{type(jumps[0]).__name__.lower()}` "
           "outside the scan over the days): it is neither placed on the "
           "earliest day on which both teams are free nor proven to have "
           "none", construct="every game is scanned")
    gw2 = GuardWalk(ev)
    gw2.walk(denv.copy(), day_loop.body, loops=(day_loop,))
    brks = [e for e in gw2.exits if e.kind == "break"]
    ok_p = False
    detail = "placement block not recognised"
    if not brks:
        detail = ("the scan over the days never stops (`break`): a game "
                  "would be written on every free day")
    elif len(brks) > 1:
        detail = f"the scan over the days has {len(brks)} exits"
    day = Poly.var("day")
    zero = Poly.const(0)

    def conj_of(path: tuple) -> set[tuple] | None:
        if is_opaque(path):
            return None
        conj: set[tuple] = set()

        def flat(c: tuple) -> None:
            if c[0] == "and":
                for x in c[1:]:
                    flat(x)
            elif c[0] == "not" and c[1][0] == "or":
                for x in c[1][1:]:
                    flat(c_not(x))
            elif c[0] == "not" and c[1][0] == "not":
                flat(c[1][1])
            elif c[0] != "true":
                conj.add(c)
        flat(path)
        return conj

    n_st_total = sum(1 for s in ast.walk(fi.node) if isinstance(
        s, (ast.Assign, ast.AugAssign)) and any(
        isinstance(t, ast.Subscript) for t in (
            s.targets if isinstance(s, ast.Assign) else [s.target])))
    rebinds = [t for t in ast.walk(ast.Module(body=day_loop.body,
                                              type_ignores=[]))
               if isinstance(t, ast.Name) and isinstance(t.ctx, ast.Store)
               and t.id == dvar]
    # `for day ...: ... else:` runs when no day was free; leaving the game
    # loop there drops every later game, going on is what no `else` does
    else_leaves = any(isinstance(x, (ast.Break, ast.Return, ast.Raise))
                      for s_ in day_loop.orelse for x in ast.walk(s_))
    else_harmless = all(isinstance(s_, (ast.Pass, ast.Continue))
                        for s_ in day_loop.orelse)
    if else_leaves:
        detail = ("when no day is free for a game the decoding stops "
                  "altogether (`else` of the day scan leaves the loop over "
                  "the games): the games that follow in the permutation are "
                  "lost although they may still fit")
    if home is not None and len(brks) == 1 and else_harmless \
            and not rebinds:
        ch = Poly.atom(("cell", "y", (day, home)))
        ca = Poly.atom(("cell", "y", (day, away)))
        want = {("eq",) + tuple(_eq(ch, zero)[1:]),
                ("eq",) + tuple(_eq(ca, zero)[1:])}
        conj = conj_of(brks[0].path)
        # the scan stops on a day exactly when both cells are free
        both_free = conj == want
        if not after_loop:
            # idiom A: stores and break in one block, stores before break
            blk = None
            for b in _blocks(day_loop):
                if brks[0].node in b:
                    blk = b
            st_ok = blk is not None and all(
                any(s is x for x in blk) for s in stores) and all(
                blk.index(s) < blk.index(brks[0].node) for s in stores)
            form = "stores+break in one block"
        else:
            # idiom B: the scan only searches; the stores follow the loop
            # and re-check that both cells of the final day are free (the
            # final day is the first free one, or the last day when none
            # is free - then the re-check fails and the game is dropped)
            gw3 = GuardWalk(ev, watch={f"{yp}[]"})
            wenv = denv.copy()
            past = False
            for s in game_loop.body:
                if s is day_loop:
                    past = True
                    continue
                if past:
                    wenv = gw3.walk(wenv, [s])
            marks = [m for m in gw3.marks if m.name == f"{yp}[]"]
            st_ok = len(marks) == 2 and all(
                conj_of(m.path) == want for m in marks) and len(
                {show_cond(m.path) for m in marks}) == 1 and not any(
                e.kind in ("break", "continue", "return")
                for e in gw3.exits)
            form = ("stores after the scan re-check both cells of the "
                    "final day")
            if marks and not st_ok:
                form += (" [found: " + "; ".join(sorted(
                    {show_cond(m.path)[:100] for m in marks})) + "]")
        ok_p = both_free and st_ok and n_st_total == 2
        detail = (f"scan stops under [{show_cond(brks[0].path)[:120]}], "
                  "exactly when both cells are free: " + str(both_free)
                  + f"; {form}: " + str(st_ok) + f"; {n_st_total} plan "
                  "stores in total")
    ctx.ob("D15.1", fi, brks[0].node if brks else day_loop, ok_p,
           "a game is written as the pair (away+1, -(home+1)) exactly when "
           "both cells of the day are 0, on the first such day, and the "
           "scan stops there" if ok_p else
           "placement protocol broken: " + detail,
           construct="paired placement on first free day")
    return info if ok_dec else None


def _poly_at(p: Poly, val: dict[str, int]) -> Fraction | None:
    """Value of a polynomial over `days` / `n` (with //, %, min, max)."""
    from sa.symterm import Poly as _P
    tot = Fraction(0)
    for mono, c in p.terms.items():
        t = Fraction(c)
        for a, e in mono:
            v: Fraction | None
            if a[0] == "var" and str(a[1]) in val:
                v = Fraction(val[str(a[1])])
            elif a[0] == "app" and a[1] in ("floordiv", "mod", "min", "max"):
                vs = [_poly_at(q, val) if isinstance(q, _P) else None
                      for q in a[2]]
                if any(x is None for x in vs) or (
                        a[1] in ("floordiv", "mod") and vs[1] == 0):
                    return None
                if a[1] == "floordiv":
                    v = Fraction(vs[0] // vs[1])      # type: ignore
                elif a[1] == "mod":
                    v = Fraction(vs[0] % vs[1])       # type: ignore
                else:
                    v = min(vs) if a[1] == "min" else max(vs)  # type: ignore
            else:
                return None
            t *= v ** e
        tot += t
    return tot


def _all_games(ctx: Ctx, fi: FuncInfo, ev: Any, pre_env: Env,
               game_loop: ast.For, xp: str) -> None:
    """The game loop visits every element of the permutation, in order.

    A slice `x[a:b]` is compared with the whole of x for the shapes the
    search space produces: n teams, r rounds, days = (n-1)*r rows and
    n(n-1)/2*r games (polynomial evaluation, not execution)."""
    from sa.srcmodel import inline_locals
    it = inline_locals(fi.node, game_loop.iter)
    ok, why = False, ""
    definite = True

    def is_x(e: ast.expr) -> bool:
        return isinstance(e, ast.Name) and e.id == xp
    if is_x(it) or (isinstance(it, ast.Call) and len(it.args) == 1 and is_x(
            it.args[0]) and ast.unparse(it.func) in (
            "iter", "list", "tuple", "np.nditer", "np.asarray")) or (
            isinstance(it, ast.Call) and isinstance(it.func, ast.Attribute)
            and is_x(it.func.value) and it.func.attr in ("tolist", "flat")):
        ok, why = True, "the loop runs over the whole permutation"
    elif isinstance(it, ast.Subscript) and is_x(it.value) and isinstance(
            it.slice, ast.Slice):
        sl = it.slice
        bad: list[str] = []
        unknown = False
        for part, nm in ((sl.lower, "start"), (sl.upper, "stop"),
                         (sl.step, "step")):
            if part is None:
                continue
            if isinstance(part, ast.Call) and ast.unparse(part) == \
                    f"len({xp})" and nm == "stop":
                continue
            try:
                pv = ev.num(pre_env, part)
            except Unsupported:
                unknown = True
                continue
            for n_ in range(2, 10):
                for r_ in range(1, 5):
                    days = (n_ - 1) * r_
                    games = n_ * (n_ - 1) // 2 * r_
                    v = _poly_at(pv, {"days": days, "n": n_})
                    if v is None:
                        unknown = True
                        break
                    if (nm == "start" and v != 0) or (
                            nm == "step" and v != 1) or (
                            nm == "stop" and (v < games if v >= 0
                                              else True)):
                        bad.append(
                            f"for {n_} teams and {r_} round(s) the plan "
                            f"has {days} days and the permutation {games} "
                            f"games, but the {nm} of `{ast.unparse(it)}` "
                            f"is {v}: not every game is looked at")
                        break
                if bad or unknown:
                    break
        if bad:
            ok, why = False, bad[0]
        elif unknown or sl.upper is not None and not (
                isinstance(sl.upper, ast.Call)
                and ast.unparse(sl.upper) == f"len({xp})"):
            ok, definite = False, False
            why = (f"the range `{ast.unparse(it)}` of the game loop is not "
                   "recognised as the whole permutation")
        else:
            ok, why = True, "the loop runs over the whole permutation"
    else:
        ok, definite = False, False
        why = (f"the iterable `{ast.unparse(it)[:80]}` of the game loop is "
               "not recognised as the whole permutation")
    del definite
    ctx.ob("D15.1", fi, game_loop, ok, why,
           construct="every game is visited")


def _blocks(node: ast.AST) -> list[list[ast.stmt]]:
    out = []
    for n in ast.walk(node):
        for fld in ("body", "orelse"):
            sub = getattr(n, fld, None)
            if isinstance(sub, list) and sub and isinstance(
                    sub[0], ast.stmt):
                out.append(sub)
    return out


# ------------------------------------------------------------------ D15.3
def _space(ctx: Ctx, dec: dict[str, Any]) -> None:
    repo = ctx.repo
    fi = repo.func(MOD, "search_space_for_n_and_rounds")
    loops = []
    cur: list[ast.stmt] = func_body(fi)
    while True:
        lp = next((s for s in cur if isinstance(s, ast.For)), None)
        if lp is None:
            break
        loops.append(lp)
        cur = lp.body
    ok_nest = len(loops) == 3
    from sa.srcmodel import inline_locals as _il
    rng = [ast.unparse(_il(fi.node, lp.iter)).replace(" ", "")
           for lp in loops]
    if ok_nest:
        rv, iv, jv = (lp.target.id for lp in loops)
        ok_nest = rng == ["range(rounds)", "range(n)", f"range({iv})"]
    ctx.ob("D15.3", fi, loops[0] if loops else fi.node, ok_nest,
           f"codes are generated by the loop nest {rng}: every round and "
           "every unordered pair j < i < n once",
           construct="generation loop nest")
    if not ok_nest:
        return
    inner = loops[2].body
    apps = [s for s in inner if isinstance(s, ast.Expr) and isinstance(
        s.value, ast.Call) and isinstance(s.value.func, ast.Attribute)
        and s.value.func.attr == "append"]
    all_apps = [c for c in ast.walk(fi.node) if isinstance(c, ast.Call)
                and isinstance(c.func, ast.Attribute)
                and c.func.attr in ("append", "extend", "insert")]
    ok_one = len(apps) == 1 and len(all_apps) == 1
    ctx.ob("D15.3", fi, apps[0] if apps else loops[2], ok_one,
           "exactly one code is appended, unconditionally, per (round, i, j)"
           if ok_one else "the number of codes per (round, pair) is not "
           "exactly one", construct="one append per pair")
    if not ok_one:
        return
    # ---- the appended term and the orientation state, as functions of
    # (round, i, j, previous orientation): the body of the innermost loop
    # is normalised as a whole, so that conditional expressions and if
    # statements, temporaries and operand orders are all the same to it
    from sa.casesplit import Splitter, describe
    ev = make_evaluator(repo, fi, extra_call=py_calls)
    env = Env()
    n = Poly.var("n")
    R = Poly.var("rounds")
    for pname, sym in zip(fi.params, (n, R)):
        env.vars[pname] = sym
    pre_names: set[str] = set()
    for s_ in func_body(fi):
        if s_ is loops[0]:
            break
        if isinstance(s_, (ast.Assign, ast.AnnAssign)):
            try:
                env = ev.stmt(env, s_)
                tg = s_.targets[0] if isinstance(s_, ast.Assign) \
                    else s_.target
                if isinstance(tg, ast.Name):
                    pre_names.add(tg.id)
            except Unsupported:
                pass
    env.vars.update({rv: Poly.var(rv), iv: Poly.var(iv), jv: Poly.var(jv)})
    # loop-carried state: assigned inside the nest and initialised before it
    assigned_in = {t.id for lp_s in ast.walk(loops[0]) if isinstance(
        lp_s, (ast.Assign, ast.AnnAssign, ast.AugAssign))
        for t in ast.walk(lp_s.targets[0] if isinstance(lp_s, ast.Assign)
                          else lp_s.target)
        if isinstance(t, ast.Name) and isinstance(t.ctx, ast.Store)}
    state = sorted(assigned_in & pre_names)
    O = Poly.var("O$prev")
    o_prev = _eq(O, Poly.const(1))                 # an opaque boolean
    inner_idx = inner.index(apps[0])
    try:
        for lp, nxt in ((loops[0], loops[1]), (loops[1], loops[2])):
            for s_ in lp.body:
                if s_ is nxt:
                    break
                env = ev.stmt(env, s_)
        for v in state:
            if env.vars.get(v) in (("true",), ("false",)):
                env.vars[v] = o_prev
        out = ev.block(env, inner[:inner_idx])
        code = ev.num(out, apps[0].value.args[0])
    except Unsupported as u:
        ctx.ob("D15.3", fi, u.node or apps[0], False,
               f"cannot normalise the appended code: {u}",
               construct="code decodes to its pair")
        return
    i, j = Poly.var(iv), Poly.var(jv)
    r = Poly.var(rv)
    zero, one = Poly.const(0), Poly.const(1)
    div = n - one
    sp = Splitter()
    pR = _app("mod", R, Poly.const(2))
    pr = _app("mod", r, Poly.const(2))
    side: list[Lin] = []
    for c in (("le", zero, j), ("lt", j, i), ("le", i, n - one),
              ("le", zero, r), ("le", r, R - one), ("le", zero, pR),
              ("le", pR, one), ("le", zero, pr), ("le", pr, one)):
        side += sp.facts_of(c, True)[0]
    # the two codes of the pair {i, j}: (home i, away j) -> i*(n-1) + j as
    # j < i needs no diagonal skip; (home j, away i) -> j*(n-1) + (i-1).
    # Euclid + the kernel's decoding (D15.1/D15.2 checked its arithmetic):
    # quotient in 0..n-1, remainder in 0..n-2, skip exactly when rem >= quot
    forms = {"home i": (i, j, False), "home j": (j, i - one, True)}
    problems: list[str] = []
    for nm, (q, rem, shift) in forms.items():
        ok_rng = all(entails(side, sp.lin(x)) for x in (
            q, n - one - q, rem, n - Poly.const(2) - rem))
        ok_shift = entails(side, sp.lin(rem - q)) if shift else entails(
            side, sp.lin(q - rem - one))
        if not (ok_rng and ok_shift):
            problems.append(f"internal: Euclid range of form {nm}")
    n_cases = 0
    seen_forms: set[str] = set()
    try:
        for facts, (got,), trail in sp.cases((code,), list(side)):
            n_cases += 1
            hit = [nm for nm, (q, rem, _s) in forms.items()
                   if sp.equal(got, q * div + rem, facts)]
            if not hit:
                problems.append(
                    f"[{describe(trail)[:160]}] the code is {show(got)}, "
                    f"neither {iv}*(n-1)+{jv} nor {jv}*(n-1)+({iv}-1): it "
                    f"does not decode to the pair {{{iv}, {jv}}}")
                break
            seen_forms.update(hit)
    except Unsupported as u:
        problems.append(f"case analysis of the appended code failed: {u}")
    ctx.count("space_cases", n_cases)
    ok = not problems and n_cases >= 2
    ctx.ob("D15.3", fi, apps[0], ok,
           f"on all {n_cases} outcomes of the comparisons of the loop body "
           "the appended code is m1*(n-1)+m2' with {m1, m2} = {i, j} and "
           "0 <= m2' <= n-2, so the kernel's division/modulo recover the "
           "pair {i, j}; hence every pairing occurs exactly `rounds` times"
           if ok else "; ".join(problems)[:400],
           construct="code decodes to its pair")
    _pair_balance(ctx, fi, loops, state, out, sp, side, (r, R, pr, pR, O))
    del dec


def _resolve(p: Poly, m: ordenum.OrderModel) -> Poly:
    sub = {}
    for a in p.atoms():
        if a[0] == "ite":
            sub[a] = _resolve(a[2] if m.cond(a[1]) else a[3], m)
    return p.subst(sub) if sub else p


# ------------------------------------------------------------------ D15.4
def _pair_balance(ctx: Ctx, fi: FuncInfo, loops: list[ast.For],
                  state: list[str], out: Env, sp: Any, side: list[Lin],
                  syms: tuple) -> None:
    """Home/away roles of one pairing differ by at most one over the rounds.

    Decided on the normalised loop body: in every round other than the last
    round of an odd number of rounds the orientation after the body is a
    function of the parity of the round number alone (the same function in
    all those rounds, not depending on the orientation of the previous
    pair), and it alternates with that parity.  The number of such rounds
    is even, so each pairing has exactly half of them in each orientation,
    plus at most one further game in the special round.
    """
    from sa.casesplit import describe
    r, R, pr, pR, O = syms
    zero = Poly.const(0)
    if len(state) != 1 or not isinstance(out.vars.get(state[0]), tuple):
        ctx.ob("D15.4", fi, loops[0], False,
               "the orientation state carried from pair to pair was not "
               f"found (loop-carried booleans: {state})",
               construct="orientation per round")
        return
    onew = out.vars[state[0]]
    follows = ("or", _eq(pR, zero), ("le", r, R - Poly.const(2)))
    even = _eq(pr, zero)
    problems: list[str] = []
    n = 0
    same = opp = 0
    try:
        for facts, (o, f, e), trail in sp.cases((onew, follows, even),
                                                list(side)):
            n += 1
            if f != ("true",):
                continue                 # the special round: at most one game
            if o == e:
                same += 1
            else:
                opp += 1
            if same and opp:
                problems.append(
                    f"[{describe(trail)[:200]}] in a round that is not the "
                    "last of an odd number of rounds the orientation is not "
                    "a fixed function of the round's parity")
                break
    except Unsupported as u:
        problems.append(f"cannot normalise the orientation rule: {u}")
    if not problems and not (same or opp):
        problems.append("no round follows the parity rule")
    ctx.count("orientation_cases", n)
    ctx.ob("D15.4", fi, loops[0], not problems,
           "all rounds except possibly the last of an odd number follow "
           "the round's parity: every pairing gets half of an even number "
           "of rounds in each orientation plus at most one game - home/away "
           "counts per pairing differ by at most one" if not problems else
           "home/away balance per pairing is lost: " + problems[0],
           construct="orientation per round")
    del O



# ------------------------------------------------------------------ D15.5
def _plan_cells(ctx: Ctx) -> None:
    """The decoder stores `away + 1` (up to +n) in the host's cell and
    `-(home + 1)` (down to -n) in the guest's: a consistent plan needs cells
    that hold all of -n..n.  `GamePlan.__new__` takes the type from
    `instance.game_plan_dtype`, which the instance derives as
    int_range_to_dtype(-n, n)."""
    from sa.srcmodel import inline_locals
    repo = ctx.repo
    gp = repo.func("moptipyapps.ttp.game_plan", "GamePlan.__new__")
    ins = repo.func("moptipyapps.ttp.instance", "Instance.__new__")
    ip = next((p_ for p_ in gp.params[1:] if "inst" in p_), None)
    alloc = [c for c in ast.walk(gp.node) if isinstance(c, ast.Call)
             and isinstance(c.func, ast.Attribute)
             and c.func.attr == "__new__" and (len(c.args) >= 3 or any(
                 k.arg == "dtype" for k in c.keywords))]
    if len(alloc) != 1 or ip is None:
        ctx.ob("D15.5", gp, gp.node, False,
               "the allocation of the plan array is not recognised",
               construct="plan cell type")
        return
    d = inline_locals(gp.node, alloc[0].args[2] if len(
        alloc[0].args) >= 3 else next(
        k.value for k in alloc[0].keywords if k.arg == "dtype"))
    src = ast.unparse(d)
    ok = src == f"{ip}.game_plan_dtype"
    detail = (f"the plan is allocated with `{src}`")
    if not ok:
        if isinstance(d, ast.Call) and ast.unparse(d.func).split(".")[-1] in (
                "min_scalar_type", "int_range_to_dtype", "dtype",
                "result_type", "promote_types"):
            args = [ast.unparse(inline_locals(gp.node, a)) for a in d.args]
            fn = ast.unparse(d.func).split(".")[-1]
            n_src = f"{ip}.n_cities"
            covers = fn == "int_range_to_dtype" and len(args) >= 2 and \
                args[0] in (f"-{n_src}", f"-({n_src})") and args[1] == n_src
            if covers:
                ok = True
            else:
                detail += (": a type chosen from " + ", ".join(args)
                           + " need not hold every value of -n .. n that "
                           "the decoder stores (signed types are "
                           "asymmetric: n = 128 needs more than -128 does)")
        else:
            detail = (f"the cell type `{src}` of the plan is not recognised "
                      "as the instance's game_plan_dtype")
    ctx.ob("D15.5", gp, alloc[0], ok,
           f"the plan is allocated with {ip}.game_plan_dtype" if ok
           else detail, construct="plan cell type")
    # the instance side
    st = [s_ for s_ in ast.walk(ins.node) if isinstance(s_, ast.Assign)
          and any(isinstance(t, ast.Attribute) and t.attr ==
                  "game_plan_dtype" for t in s_.targets)]
    if len(st) != 1:
        ctx.ob("D15.5", ins, ins.node, False,
               "the assignment of game_plan_dtype is not recognised",
               construct="game_plan_dtype range")
        return
    v = inline_locals(ins.node, st[0].value)
    ok2 = False
    det2 = f"game_plan_dtype = `{ast.unparse(v)[:80]}` is not recognised"
    kw_ = {k.arg: k.value for k in v.keywords} if isinstance(
        v, ast.Call) else {}
    a_lo = v.args[0] if isinstance(v, ast.Call) and len(
        v.args) >= 1 else kw_.get("min_value")
    a_hi = v.args[1] if isinstance(v, ast.Call) and len(
        v.args) >= 2 else kw_.get("max_value")
    if isinstance(v, ast.Call) and ast.unparse(v.func).endswith(
            "int_range_to_dtype") and a_lo is not None and a_hi is not None \
            and "force_unsigned" not in kw_:
        lo, hi = (inline_locals(ins.node, a) for a in (a_lo, a_hi))
        los, his = ast.unparse(lo), ast.unparse(hi)
        n_forms = {his}
        ok2 = los in {f"-{h_}" for h_ in n_forms} | {
            f"-({h_})" for h_ in n_forms} and (
            "len(" in his or "n_cities" in his or his == "n")
        det2 = (f"game_plan_dtype = int_range_to_dtype({los}, {his})"
                + ("" if ok2 else ": not the symmetric range -n .. n of "
                   "the plan entries"))
    ctx.ob("D15.5", ins, st[0], ok2, det2,
           construct="game_plan_dtype range")
