"""C19 - text forms round-trip (writer/reader agreement, E7)."""
from __future__ import annotations

import ast
import re
from typing import Any

from sa.kern import make_evaluator, py_calls
from sa.report import Ctx
from sa.srcmodel import (desugared, FuncInfo, Module, func_body,
                         inline_locals)
from sa.symterm import Env, Poly, Unsupported

BP = "moptipyapps.binpacking2d."


def camel(s: str) -> str:
    parts = s.strip("_").split("_")
    return parts[0] + "".join(p.title() for p in parts[1:])


def snake(s: str) -> str:
    return re.sub(r"([A-Z])", lambda m: "_" + m.group(1).lower(), s)


# ------------------------------------------------------------- tag streams
def _self_field(e: ast.AST) -> str | None:
    if isinstance(e, ast.Attribute) and isinstance(
            e.value, ast.Name) and e.value.id == "self":
        return e.attr.lstrip("_")
    return None


class Tagger:
    """Turns the yields of a CSV writer method into a sequence of tags."""

    def __init__(self, ctx: Ctx, fi: FuncInfo, row: bool) -> None:
        self.ctx = ctx
        self.fi = fi
        self.row = row
        self.data = fi.params[1] if row and len(fi.params) > 1 else None
        self.alias: dict[str, str] = {}
        self.loopvars: dict[str, str] = {}
        self.bound_kind: dict[str, str] = {}
        self.valtag: dict[str, Any] = {}
        #: optional cells whose condition tests the VALUE, not its presence
        self.truthy: list[tuple[ast.AST, str]] = []

    def presence(self, test: ast.expr, value_when: bool,
                 value: ast.expr) -> None:
        """The condition of an optional cell (`v if c else ""`) must test
        whether the quantity is PRESENT (`k in d`, `v is not None`): a test
        of the value's truthiness drops a legitimate 0."""
        t, pol = test, value_when
        while isinstance(t, ast.UnaryOp) and isinstance(t.op, ast.Not):
            t, pol = t.operand, not pol
        v = value
        while isinstance(v, ast.Call) and isinstance(
                v.func, ast.Name) and v.func.id in (
                "repr", "str", "num_to_str", "float_to_str", "int") and \
                len(v.args) == 1:
            v = v.args[0]
        same = ast.dump(t) == ast.dump(v)
        if same and pol:
            self.truthy.append((test, ast.unparse(test)))
        elif isinstance(t, ast.Compare) and len(t.ops) == 1 and isinstance(
                t.ops[0], (ast.NotEq, ast.Gt, ast.Lt)) and ast.dump(
                t.left) == ast.dump(v) and self.const(
                t.comparators[0]) == 0 and pol:
            self.truthy.append((test, ast.unparse(test)))

    def const(self, e: ast.expr) -> Any:
        return self.ctx.repo.const(self.fi.module, e)

    def tag_expr(self, e: ast.expr) -> Any:
        """The quantity an emitted expression denotes."""
        # unwrap formatting helpers
        while isinstance(e, ast.Call) and isinstance(
                e.func, ast.Name) and e.func.id in (
                "repr", "str", "num_to_str", "float_to_str", "int") and \
                len(e.args) == 1:
            e = e.args[0]
        if isinstance(e, ast.IfExp):
            # `x if key in d else ''` / `'' if key not in d else x`: the
            # optional cell of the same quantity
            if self.const(e.body) == "" and self.const(e.orelse) != "":
                self.presence(e.test, False, e.orelse)
                return self.tag_expr(e.orelse)
            if self.const(e.orelse) == "":
                self.presence(e.test, True, e.body)
            return self.tag_expr(e.body)
        if isinstance(e, ast.Call) and isinstance(
                e.func, ast.Attribute) and e.func.attr == "get" and \
                1 <= len(e.args) <= 2 and not e.keywords and (
                len(e.args) == 1 or self.const(e.args[1]) is None):
            # d.get(k) reads d[k] (None when absent)
            return self.tag_expr(ast.Subscript(
                value=e.func.value, slice=e.args[0], ctx=ast.Load()))
        if isinstance(e, ast.Call) and isinstance(
                e.func, ast.Name) and e.func.id == "csv_scope" and len(
                e.args) == 2:
            inner = e.args[1]
            c = self.const(inner)
            if isinstance(c, str):
                if c in ("lowerBound", "upperBound"):
                    base = self.tag_expr(e.args[0])
                    return ("bound", "lower" if c.startswith("lower")
                            else "upper", base)
                return ("key", snake(c))
            if isinstance(inner, ast.Name) and inner.id in self.loopvars:
                return ("elem", self.loopvars[inner.id])
            if isinstance(inner, ast.Name) and inner.id in self.bound_kind:
                return ("bound", self.bound_kind[inner.id], ("elem", "?"))
            if isinstance(inner, ast.Subscript):
                f = _self_field(inner.value)
                if f is not None and "lb" in f:
                    return ("bound", "lower", ("elem", "objective"))
                if f is not None and "ub" in f:
                    return ("bound", "upper", ("elem", "objective"))
            return ("expr", ast.unparse(inner))
        if isinstance(e, ast.Name):
            if e.id in self.valtag:
                return self.valtag[e.id]
            if e.id in self.loopvars:
                return ("elem", self.loopvars[e.id])
            if e.id in self.bound_kind:
                return ("bound", self.bound_kind[e.id], ("elem", "?"))
            if e.id in self.alias:
                return ("alias", self.alias[e.id])
        if isinstance(e, ast.Attribute) and isinstance(
                e.value, ast.Name) and e.value.id == self.data:
            return ("key", e.attr)
        if isinstance(e, ast.Subscript) and isinstance(
                e.value, ast.Attribute) and isinstance(
                e.value.value, ast.Name) and e.value.value.id == self.data:
            d = e.value.attr
            k = e.slice
            if isinstance(k, ast.Name) and k.id in self.bound_kind:
                return ("bound", self.bound_kind[k.id], ("elem", "?"))
            if self._bound_kind(k) is not None:
                return ("bound", self._bound_kind(k), ("elem", "?"))
            if d == "objective_bounds":
                return ("bound", "?", ("elem", "?"))
            return ("elem", _norm_coll(d))
        return ("expr", ast.unparse(e)[:40])

    def stream(self, stmts: list[ast.stmt]) -> list[Any]:
        out: list[Any] = []
        for s in stmts:
            if isinstance(s, (ast.Assign, ast.AnnAssign)) and getattr(
                    s, "value", None) is not None:
                tg = s.targets[0] if isinstance(s, ast.Assign) else s.target
                if isinstance(tg, ast.Name):
                    v = s.value
                    f = _self_field(v)
                    if f is not None:
                        self.alias[tg.id] = f
                    self.valtag.pop(tg.id, None)
                    if self.row:
                        t_ = self.tag_expr(v)
                        if t_[0] in ("key", "bound", "elem"):
                            self.valtag[tg.id] = t_
                    # ox = csv_scope(ob, _OBJECTIVE_LOWER) / lb[i]
                    kind = self._bound_kind(v)
                    if kind is not None:
                        self.bound_kind[tg.id] = kind
                    elif tg.id in self.bound_kind:
                        del self.bound_kind[tg.id]
                    if kind is None and isinstance(v, ast.Call) and \
                            isinstance(v.func, ast.Name) and \
                            v.func.id == "csv_scope" and len(
                            v.args) == 2 and isinstance(
                            v.args[1], ast.Name) and \
                            v.args[1].id in self.loopvars:
                        # a scoped copy of the loop element
                        self.loopvars[tg.id] = self.loopvars[v.args[1].id]
            elif isinstance(s, ast.Expr) and isinstance(
                    s.value, ast.YieldFrom):
                v = s.value.value
                tag = ("sub", "?")
                if isinstance(v, ast.Call) and isinstance(
                        v.func, ast.Attribute):
                    base = v.func.value
                    f = _self_field(base)
                    if f is None and isinstance(base, ast.Subscript):
                        f = _self_field(base.value)
                    if f is None and isinstance(base, ast.Name) and not (
                            base.id[:1].isupper() and v.args):
                        f = self.loopvars.get(base.id, base.id)
                    if f is None and v.args:
                        # Class.method(self.__objectives[i], ...)
                        a0 = v.args[0]
                        f = _self_field(a0) or (
                            _self_field(a0.value) if isinstance(
                                a0, ast.Subscript) else None)
                    tag = ("sub", _norm_coll(f or "?"))
                out.append(tag)
            elif isinstance(s, ast.Expr) and isinstance(s.value, ast.Yield):
                out.append(self.tag_expr(s.value.value))
            elif isinstance(s, ast.If):
                # configuration guards (`if self.__bin_bounds:`) are
                # transparent; data dependent guards are not
                inner = self.stream(s.body)
                if s.orelse:
                    alt = self.stream(s.orelse)
                    empty = [("expr", "''")]
                    # `if present: yield value else: yield ""` is the
                    # optional cell of that quantity (as `v if c else ""`)
                    if alt == empty and len(inner) == 1:
                        ys = [x for x in s.body if isinstance(
                            x, ast.Expr) and isinstance(x.value, ast.Yield)]
                        if len(ys) == 1 and ys[0].value.value is not None:
                            self.presence(s.test, True, ys[0].value.value)
                    elif inner == empty and len(alt) == 1:
                        ys = [x for x in s.orelse if isinstance(
                            x, ast.Expr) and isinstance(x.value, ast.Yield)]
                        if len(ys) == 1 and ys[0].value.value is not None:
                            self.presence(s.test, False, ys[0].value.value)
                        inner = alt
                    else:
                        inner = [("alt", inner, alt)]
                out += inner
            elif isinstance(s, ast.For) and isinstance(
                    s.iter, ast.Name) and isinstance(
                    s.target, ast.Name) and not s.orelse and isinstance(
                    self.const(s.iter), tuple) and all(isinstance(
                        v_, (str, int)) for v_ in self.const(s.iter)):
                # a loop over a module-level tuple of keys: as if the tuple
                # were written in place
                import copy as _cp2
                s2 = _cp2.copy(s)
                s2.iter = ast.Tuple(elts=[ast.Constant(value=v_) for v_ in
                                          self.const(s.iter)],
                                    ctx=ast.Load())
                ast.fix_missing_locations(s2)
                out += self.stream([s2])
            elif isinstance(s, ast.For) and isinstance(
                    s.iter, (ast.Tuple, ast.List)) and isinstance(
                    s.target, ast.Name) and not s.orelse:
                # a loop over a literal list of keys: one copy of the body
                # per entry
                import copy as _cp

                class _S(ast.NodeTransformer):
                    def __init__(self, nm: str, e: ast.expr) -> None:
                        self.nm, self.e = nm, e

                    def visit_Name(self, n: ast.Name) -> ast.AST:
                        if n.id == self.nm and isinstance(n.ctx, ast.Load):
                            return _cp.deepcopy(self.e)
                        return n
                for e_ in s.iter.elts:
                    body_ = [ast.fix_missing_locations(_S(
                        s.target.id, e_).visit(_cp.deepcopy(b_)))
                        for b_ in s.body]
                    out += self.stream(body_)
            elif isinstance(s, ast.For):
                src = s.iter
                name = None
                if isinstance(src, ast.Call) and isinstance(
                        src.func, ast.Name) and src.func.id == "enumerate":
                    src = src.args[0]
                    tgt = s.target.elts[1] if isinstance(
                        s.target, ast.Tuple) else s.target
                else:
                    tgt = s.target
                f = _self_field(src)
                if f is None and isinstance(src, ast.Name):
                    f = self.alias.get(src.id, src.id)
                name = _norm_coll(f or ast.unparse(src))
                # iterating a mapping of the *record* itself visits its keys
                # in the record's own order, not in the (sorted) order the
                # writer fixed for the titles at setup
                root = src
                while isinstance(root, (ast.Attribute, ast.Subscript)):
                    root = root.value
                if f is None and isinstance(root, ast.Name) and len(
                        self.fi.params) > 1 and root.id in \
                        self.fi.params[1:] and src is not root:
                    name = "record's own " + name
                if isinstance(tgt, ast.Name):
                    self.loopvars[tgt.id] = name
                out.append(("loop", name, self.stream(s.body)))
        return out

    def _bound_kind(self, v: ast.expr) -> str | None:
        if isinstance(v, ast.Call) and isinstance(
                v.func, ast.Name) and v.func.id == "csv_scope" and len(
                v.args) == 2:
            c = self.const(v.args[1])
            if c == "lowerBound":
                return "lower"
            if c == "upperBound":
                return "upper"
        if isinstance(v, ast.Subscript):
            f = None
            if isinstance(v.value, ast.Name):
                f = self.alias.get(v.value.id, v.value.id)
            else:
                f = _self_field(v.value)
            if f is not None and "lb" in f:
                return "lower"
            if f is not None and "ub" in f:
                return "upper"
        return None


def _norm_coll(f: str) -> str:
    f = f.strip("_")
    for k in ("bin_bounds", "objective"):
        if k in f:
            return k
    if f in ("er", "es"):
        return "end"
    return f


def _canon(stream: list[Any]) -> list[Any]:
    out = []
    for t in stream:
        if t[0] == "loop":
            out.append(("loop", t[1], _canon(t[2])))
        elif t[0] == "bound":
            out.append(("bound", t[1]))
        elif t[0] == "elem":
            out.append(("value",))
        elif t[0] == "sub":
            out.append(("value",) if t[1] == "objective" else t)
        else:
            out.append(t)
    return out


def run(ctx: Ctx) -> None:
    ctx.explanation = (
        "Writer/reader agreement (E7). D19.1: for both CSV writers the "
        "sequence of quantities emitted by get_column_titles and by get_row "
        "is extracted (key constants folded and matched to record "
        "attributes by the camelCase<->snake_case regularity, loops "
        "collapsed, configuration guards ignored) and must be equal; for "
        "both CSV readers every column index is looked up under the key "
        "that belongs to the constructor parameter it is passed to. D19.2: "
        "to_compact_str / from_compact_str agree on the positional fields, "
        "the separators and the IDX_* column constants. D19.3: the log text "
        "of game plans and orderings starts with the flattened data joined "
        "by the separator the reader splits on, the reader keeps exactly "
        "the first line, and parses through the validating base reader. Not "
        "decided: equality of derived attributes after the trip.")
    ctx.rule("D19.4", "keys of mapping-valued record fields survive the "
             "CSV trip; the compact-string reader accepts every value the "
             "constructor accepts")
    for rid, txt in (("D19.1", "CSV title/row/reader agreement"),
                     ("D19.2", "compact instance string fields"),
                     ("D19.3", "first-line text forms")):
        ctx.rule(rid, txt)
    for modn, rec in (("packing_result", "PackingResult"),
                      ("packing_statistics", "PackingStatistics")):
        mod = ctx.repo.module(BP + modn)
        _csv_writer(ctx, mod)
        _csv_reader(ctx, mod, rec)
        _mapping_keys(ctx, mod, rec)
    _compact(ctx)
    _compact_domains(ctx)
    _first_line_forms(ctx)


# ------------------------------------------------------------------ D19.1
def _csv_writer(ctx: Ctx, mod: Module) -> None:
    w = mod.classes.get("CsvWriter")
    ctx.need(w is not None, f"{mod.name}.CsvWriter")
    tm = ctx.need(w.methods.get("get_column_titles"), "get_column_titles")
    rm = ctx.need(w.methods.get("get_row"), "get_row")
    ts = _canon(Tagger(ctx, tm, False).stream(func_body(tm)))
    rtag = Tagger(ctx, rm, True)
    rs = _canon(rtag.stream(func_body(rm)))
    ctx.ob("D19.1", rm, rtag.truthy[0][0] if rtag.truthy else rm.node,
           not rtag.truthy,
           "optional cells are left empty only when the quantity is absent"
           if not rtag.truthy else
           "an optional cell is left empty when its VALUE is falsy ("
           + "; ".join(f"`{t}`" for _, t in rtag.truthy) + "): a "
           "legitimate 0 is written as an empty cell and read back as "
           "absent", construct=f"{mod.name.split('.')[-1]} optional cells")
    ok = ts == rs and len(ts) >= 6
    detail = (f"{mod.name.split('.')[-1]}.CsvWriter: titles and rows emit "
              f"the same {len(ts)} quantities in the same order")
    if not ok:
        k = next((i for i, (a, b) in enumerate(zip(ts, rs)) if a != b),
                 min(len(ts), len(rs)))
        detail = (f"{mod.name.split('.')[-1]}.CsvWriter: column {k}: the "
                  f"title is {ts[k] if k < len(ts) else 'missing'} but the "
                  f"row value is {rs[k] if k < len(rs) else 'missing'}")

        def opaque_(t: Any) -> bool:
            if isinstance(t, (tuple, list)):
                if len(t) >= 1 and t[0] == "expr":
                    return True
                if len(t) >= 2 and t[0] == "sub" and t[1] == "?":
                    return True
                return any(opaque_(x) for x in t)
            return False
        if (k < len(ts) and opaque_(ts[k])) or (
                k < len(rs) and opaque_(rs[k])):
            detail += (" - one side is computed in a way that is not "
                       "recognised")
    ctx.ob("D19.1", tm, tm.node, ok, detail,
           construct=f"{mod.name.split('.')[-1]} titles vs rows",
           witness=None if ok else {"titles": repr(ts)[:400],
                                    "rows": repr(rs)[:400]})
    ctx.count("csv_columns_compared", len(ts))


def _csv_reader(ctx: Ctx, mod: Module, rec_name: str) -> None:
    repo = ctx.repo
    r = mod.classes.get("CsvReader")
    ctx.need(r is not None, f"{mod.name}.CsvReader")
    init = r.methods["__init__"]
    parse = r.methods["parse_row"]
    rec = mod.classes.get(rec_name)
    ctx.need(rec is not None, f"{mod.name}.{rec_name}")
    rinit = rec.methods["__init__"]
    params = rinit.params[1:]
    # index fields: self.__idx_X = csv_column(columns, KEY)
    idx_key: dict[str, str] = {}
    for n in ast.walk(init.node):
        if isinstance(n, (ast.Assign, ast.AnnAssign)) and isinstance(
                n.value, ast.Call) and isinstance(
                n.value.func, ast.Name) and n.value.func.id == "csv_column":
            tg = n.targets[0] if isinstance(n, ast.Assign) else n.target
            f = _self_field(tg)
            k = repo.const(mod, n.value.args[1]) if len(
                n.value.args) > 1 else None
            if f and isinstance(k, str):
                idx_key[f] = k
    ctx.count(f"{mod.name.split('.')[-1]}_index_fields", len(idx_key))
    ctx.ob("D19.1", init, init.node, len(idx_key) >= 4,
           f"{len(idx_key)} scalar columns are located by csv_column("
           "columns, KEY)" if len(idx_key) >= 4 else
           f"only {len(idx_key)} of the 4 scalar columns (n_items, "
           "n_different_items, bin_width, bin_height) are located by "
           "csv_column(columns, KEY)",
           construct=f"{mod.name.split('.')[-1]} scalar columns located")
    _reader_sanity(ctx, mod, init, parse)
    call = None
    for n in ast.walk(parse.node):
        if isinstance(n, ast.Call) and isinstance(
                n.func, ast.Name) and n.func.id == rec_name:
            call = n
    ctx.need(call is not None, f"parse_row builds {rec_name}")
    problems = []
    n_checked = 0
    pairs = list(zip(params, call.args))
    for kw in call.keywords:
        # a keyword argument binds the parameter of that name
        if kw.arg in params:
            pairs.append((kw.arg, kw.value))
    for p, a in pairs:
        fields = [_self_field(x) for x in ast.walk(a)]
        fields = [f for f in fields if f]
        for f in fields:
            if f in idx_key:
                n_checked += 1
                if snake(idx_key[f]) != p:
                    problems.append(
                        f"parameter `{p}` receives the column "
                        f"{idx_key[f]!r} (field {f})")
            elif f in ("er", "es"):
                n_checked += 1
                if not p.startswith("end_"):
                    problems.append(f"`{p}` receives the end record")
            else:
                n_checked += 1
                if _norm_coll(f) not in p and p not in f:
                    problems.append(
                        f"parameter `{p}` is filled from field `{f}`")
    for kw in call.keywords:
        if kw.arg not in params:
            problems.append(f"keyword argument {kw.arg} is not a parameter "
                            f"of {rec_name}")
    seen_p = [p_ for p_, _a in pairs]
    if len(seen_p) != len(set(seen_p)):
        problems.append("a parameter is bound twice")
    ok = not problems and n_checked >= len(params) - 0
    ctx.ob("D19.1", parse, call, ok,
           f"{mod.name.split('.')[-1]}.CsvReader: each of the "
           f"{n_checked} constructor arguments of {rec_name} is read from "
           "the column whose key names that parameter" if ok else
           f"{mod.name.split('.')[-1]}.CsvReader: " + ("; ".join(problems)
           if problems else f"only {n_checked} of {len(params)} constructor "
           "arguments are read directly from fields of the reader: the way "
           "the record is assembled is not recognised"),
           construct=f"{mod.name.split('.')[-1]} reader chain")
    _cell_converters(ctx, mod, parse, call, rec_name, pairs)
    # keys used by the reader are keys the writer emits
    w = mod.classes["CsvWriter"].methods["get_column_titles"]
    emitted = {repo.const(mod, a) for n in ast.walk(w.node)
               if isinstance(n, ast.Call) and isinstance(
                   n.func, ast.Name) and n.func.id == "csv_scope"
               for a in n.args[1:2]}
    # keys listed in a literal tuple that a loop of the writer runs over
    for lp_ in ast.walk(w.node):
        if isinstance(lp_, ast.For) and isinstance(
                lp_.iter, (ast.Tuple, ast.List)):
            emitted |= {repo.const(mod, e_) for e_ in lp_.iter.elts}
        elif isinstance(lp_, ast.For) and isinstance(lp_.iter, ast.Name):
            tv_ = repo.const(mod, lp_.iter)
            if isinstance(tv_, tuple):
                emitted |= set(tv_)
    missing = sorted(set(idx_key.values()) - emitted)
    # a title whose key is computed (not a constant, not a loop over
    # constants) may be any key: then "never emitted" cannot be concluded
    opaque = None in emitted
    ctx.ob("D19.1", init, init.node, not missing,
           "every key the reader looks up is a key the writer emits" if
           not missing else (
               f"reader looks up {missing}; the writer's titles are partly "
               "computed and not recognised as emitting them" if opaque else
               f"reader looks up {missing}, which the writer never emits"),
           construct=f"{mod.name.split('.')[-1]} key sets")


def _fold(e: ast.expr, env: dict[str, Any]) -> Any:
    """Constant-fold a guard over integer stand-ins (None = unknown)."""
    if isinstance(e, ast.Constant):
        return e.value
    if isinstance(e, ast.Name):
        return env.get(e.id)
    if isinstance(e, ast.UnaryOp) and isinstance(e.op, ast.Not):
        v = _fold(e.operand, env)
        return None if v is None else not v
    if isinstance(e, ast.BoolOp):
        vs = [_fold(v, env) for v in e.values]
        if any(v is None for v in vs):
            return None
        return all(vs) if isinstance(e.op, ast.And) else any(vs)
    if isinstance(e, ast.BinOp):
        a, b = _fold(e.left, env), _fold(e.right, env)
        if not isinstance(a, int) or not isinstance(b, int):
            return None
        try:
            return {ast.Add: a + b, ast.Sub: a - b, ast.Mult: a * b,
                    ast.BitAnd: a & b, ast.Mod: a % b if b else None,
                    ast.FloorDiv: a // b if b else None}.get(type(e.op))
        except (ZeroDivisionError, TypeError):
            return None
    if isinstance(e, ast.Compare) and len(e.ops) == 1:
        a, b = _fold(e.left, env), _fold(e.comparators[0], env)
        if a is None or b is None:
            return None
        op = type(e.ops[0])
        return {ast.Lt: a < b, ast.LtE: a <= b, ast.Gt: a > b,
                ast.GtE: a >= b, ast.Eq: a == b,
                ast.NotEq: a != b}.get(op)
    if isinstance(e, ast.Call) and ast.unparse(e.func).endswith(
            ".__len__") and len(e.args) == 1:
        return _fold(e.args[0], env) if isinstance(
            e.args[0], ast.Name) else None
    return None


def _reader_sanity(ctx: Ctx, mod: Module, init: FuncInfo,
                   parse: FuncInfo) -> None:
    """The reader's own consistency checks accept what the writer writes:
    two bound columns per objective, at least one objective."""
    short = mod.name.split(".")[-1]
    problems: list[str] = []
    # names of the counters: n = tuple.__len__(self.__X)
    counters: dict[str, str] = {}
    for s in func_body(init):
        if isinstance(s, (ast.Assign, ast.AnnAssign)) and isinstance(
                s.value, ast.Call) and ast.unparse(s.value.func) in (
                "tuple.__len__", "len") and s.value.args:
            f = _self_field(s.value.args[0])
            tg = s.targets[0] if isinstance(s, ast.Assign) else s.target
            if f and isinstance(tg, ast.Name):
                counters[tg.id] = f
    guards = [s for s in func_body(init) if isinstance(s, ast.If) and s.body
              and isinstance(s.body[-1], ast.Raise)]
    n_checked = 0
    for k in (1, 2, 3, 7):
        env: dict[str, Any] = {}
        for nm, f in counters.items():
            if "objective_bounds" in f:
                env[nm] = 2 * k
            elif "objectives" in f:
                env[nm] = k
            elif "bin_bounds" in f:
                env[nm] = 3
        for g in guards:
            v = _fold(g.test, env)
            if v is None:
                # guards on counted fields written inline
                t2 = ast.unparse(g.test)
                if "bin_bounds" in t2:
                    v = _fold(g.test, {**env})
                continue
            n_checked += 1
            if v:
                problems.append(
                    f"`if {ast.unparse(g.test)}: raise` rejects a table "
                    f"with {k} objective(s) and {2 * k} bound columns, "
                    "which is what the writer produces")
    if n_checked < 4:
        problems.append("the reader's consistency checks cannot be "
                        "normalised (not recognised)")
    # optional cells: kept exactly when the cell is non-empty
    for n in ast.walk(parse.node):
        if isinstance(n, ast.DictComp):
            for g in n.generators:
                for c in g.ifs:
                    srcc = ast.unparse(c).replace(" ", "")
                    ok = ("__len__(data[" in srcc or "len(data[" in srcc) \
                        and (srcc.endswith(">0") or srcc.endswith(">=1")
                             or srcc.endswith("!=0"))
                    if not ok:
                        problems.append(
                            f"`{ast.unparse(c)}`: an optional cell is not "
                            "kept exactly when it is non-empty")
    # objective names: first component of the bound keys
    for n in ast.walk(init.node):
        if isinstance(n, ast.SetComp):
            srcn = ast.unparse(n).replace(" ", "")
            if "SCOPE_SEPARATOR" in srcn and "split" in srcn:
                elt = ast.unparse(n.elt).replace(" ", "")
                conds = [ast.unparse(c).replace(" ", "")
                         for g in n.generators for c in g.ifs]
                okn = elt.endswith("[0]") and any(
                    c_.startswith("list.__len__(") and ">1" in c_
                    or c_.startswith("len(") and ">1" in c_
                    or "and" in c_ and ">1" in c_ for c_ in conds)
                if not okn:
                    problems.append(
                        "objective names are not taken as the first "
                        "component of the scoped bound keys")
    ctx.ob("D19.1", init, init.node, not problems,
           f"{short}.CsvReader: its own consistency checks accept the "
           "writer's tables, optional cells are kept iff non-empty, "
           "objective names are the first component of the bound keys"
           if not problems else f"{short}.CsvReader: "
           + "; ".join(dict.fromkeys(problems))[:700],
           construct=f"{short} reader consistency checks")


#: converters from a CSV cell that keep the kind of number that was written
_CONV_OK = {
    "int": {"int", "str_to_int"},
    "float": {"float", "str_to_float", "str_to_num", "str_to_intfloat"},
    "num": {"str_to_num", "str_to_intfloat", "str_to_intfloatnone"},
}
_CONV_KNOWN = {"int", "float", "str_to_int", "str_to_float", "str_to_num",
               "str_to_intfloat", "str_to_intfloatnone"}


def _cell_converters(ctx: Ctx, mod: Any, parse: FuncInfo, call: ast.Call,
                     rec_name: str, pairs: list) -> None:
    """A cell is parsed with a converter that gives back the kind of number
    the record's constructor declares for that field: `int` fields through
    `int`, `int | float` fields through the converter that keeps integers
    integers (a float has 53 bits: an integer bound above 2**53 does not
    come back, and `2` comes back as `2.0`), never through `float`/`int`.
    """
    rcls = mod.classes.get(rec_name)
    init = rcls.methods.get("__init__") if rcls is not None else None
    if init is None:
        return
    ann = {a.arg: a.annotation for a in init.node.args.args
           if a.annotation is not None}
    row = parse.params[1] if len(parse.params) > 1 else "data"
    problems: list[str] = []
    unknown: list[str] = []
    n_conv = 0

    def kind_of(an: ast.expr) -> str | None:
        # the element type of Mapping[str, T] / dict[str, T] is T
        while isinstance(an, ast.Subscript):
            sl = an.slice
            an = sl.elts[-1] if isinstance(sl, ast.Tuple) else sl
        names = {n.id for n in ast.walk(an) if isinstance(n, ast.Name)}
        if names and names <= {"int", "float", "None"}:
            if {"int", "float"} <= names:
                return "num"
            return "int" if "int" in names else (
                "float" if "float" in names else None)
        return None
    for p_, a in pairs:
        k = kind_of(ann[p_]) if p_ in ann else None
        if k is None:
            continue
        for c in ast.walk(a):
            if not (isinstance(c, ast.Call) and len(c.args) == 1
                    and not c.keywords and isinstance(
                        c.args[0], ast.Subscript) and isinstance(
                        c.args[0].value, ast.Name)
                    and c.args[0].value.id == row):
                continue
            fn = c.func.id if isinstance(c.func, ast.Name) else (
                c.func.attr if isinstance(c.func, ast.Attribute) else "?")
            if ast.unparse(c.func) == "str.__len__" or fn == "len":
                continue
            n_conv += 1
            if fn in _CONV_OK[k]:
                continue
            want = {"int": "int", "float": "float",
                    "num": "int | float"}[k]
            if fn in _CONV_KNOWN:
                problems.append(
                    f"the cells of `{p_}` (declared {want}) are parsed with "
                    f"`{fn}`" + (
                        ": an integer comes back as a float (2 -> 2.0, and "
                        "9007199254740993 -> 9007199254740992.0)"
                        if (k, fn) == ("num", "float") else
                        ": a fractional or infinite value cannot be read "
                        "back" if fn in ("int", "str_to_int") else ""))
            else:
                unknown.append(f"the converter `{fn}` of the cells of "
                               f"`{p_}` is not recognised")
    ok = not problems and not unknown and n_conv >= 4
    ctx.ob("D19.1", parse, call, ok,
           f"{mod.name.split('.')[-1]}.CsvReader: all {n_conv} cell "
           "converters give back the kind of number declared for their "
           "field" if ok else f"{mod.name.split('.')[-1]}.CsvReader: "
           + "; ".join(problems or unknown or [
               f"the cell converters are not recognised (only {n_conv} "
               "found in the constructor arguments)"]),
           construct=f"{mod.name.split('.')[-1]} cell converters")


# ------------------------------------------------------------------ D19.4
def _pred(repo: Any, mod: Module, e: ast.expr, par: str, key: str) -> Any:
    """Constant-fold a predicate lambda body for one concrete string."""
    if isinstance(e, ast.Name) and e.id == par:
        return key
    if isinstance(e, ast.UnaryOp) and isinstance(e.op, ast.Not):
        v = _pred(repo, mod, e.operand, par, key)
        return None if v is None else not v
    if isinstance(e, ast.BoolOp):
        vs = [_pred(repo, mod, x, par, key) for x in e.values]
        if any(v is None for v in vs):
            return None
        return all(vs) if isinstance(e.op, ast.And) else any(vs)
    if isinstance(e, ast.Compare) and len(e.ops) == 1:
        a = _pred(repo, mod, e.left, par, key)
        b = _pred(repo, mod, e.comparators[0], par, key)
        if a is None or b is None:
            return None
        op = e.ops[0]
        if isinstance(op, ast.Eq):
            return a == b
        if isinstance(op, ast.NotEq):
            return a != b
        if isinstance(op, ast.In):
            return a in b
        if isinstance(op, ast.NotIn):
            return a not in b
        return None
    if isinstance(e, ast.Tuple):
        vs = [_pred(repo, mod, x, par, key) for x in e.elts]
        return None if any(v is None for v in vs) else tuple(vs)
    if isinstance(e, ast.BinOp) and isinstance(e.op, ast.Add):
        a = _pred(repo, mod, e.left, par, key)
        b = _pred(repo, mod, e.right, par, key)
        if isinstance(a, str) and isinstance(b, str):
            return a + b
        return None
    if isinstance(e, ast.Call) and isinstance(e.func, ast.Attribute) and \
            e.func.attr in ("startswith", "endswith") and not e.keywords:
        if isinstance(e.func.value, ast.Name) and e.func.value.id == "str" \
                and len(e.args) == 2:
            subj, arg = e.args
        elif len(e.args) == 1:
            subj, arg = e.func.value, e.args[0]
        else:
            return None
        sv = _pred(repo, mod, subj, par, key)
        av = _pred(repo, mod, arg, par, key)
        if not isinstance(sv, str) or not isinstance(av, (str, tuple)):
            return None
        return sv.startswith(av) if e.func.attr == "startswith" \
            else sv.endswith(av)
    c = repo.const(mod, e)
    return c


def _produced_keys(ctx: Ctx, param: str) -> dict[str, str]:
    """Keys of the repository's default mappings for a parameter name."""
    repo = ctx.repo
    out: dict[str, str] = {}
    for modn in ("packing_result", "packing_statistics"):
        mod = repo.module(BP + modn)
        for fn in ast.walk(mod.tree):
            if not isinstance(fn, ast.FunctionDef):
                continue
            args = fn.args.args + fn.args.kwonlyargs
            defaults = [None] * (len(fn.args.args) - len(
                fn.args.defaults)) + list(fn.args.defaults) + list(
                fn.args.kw_defaults)
            for a, d in zip(args, defaults):
                if a.arg != param or d is None:
                    continue
                r = d
                if isinstance(r, ast.Name):
                    rr = repo.resolve_expr(mod, r)
                    if isinstance(rr, tuple) and rr[0] == "expr":
                        dm, r = rr[1], rr[2]
                    else:
                        continue
                else:
                    dm = mod
                while isinstance(r, ast.Call) and r.args:
                    r = r.args[0]
                if isinstance(r, ast.Dict):
                    for k in r.keys:
                        c = repo.const(dm, k) if k is not None else None
                        if isinstance(c, str):
                            out[c] = f"{dm.name.split('.')[-1]}:{k.lineno}"
    return out


def _mapping_keys(ctx: Ctx, mod: Module, rec_name: str) -> None:
    repo = ctx.repo
    short = mod.name.split(".")[-1]
    r = mod.classes["CsvReader"]
    init = r.methods["__init__"]
    parse = r.methods["parse_row"]
    rec = mod.classes[rec_name]
    params = rec.methods["__init__"].params[1:]
    fams: dict[str, dict[str, Any]] = {}
    for n in ast.walk(init.node):
        if not (isinstance(n, (ast.Assign, ast.AnnAssign)) and isinstance(
                n.value, ast.Call) and isinstance(n.value.func, ast.Name)
                and n.value.func.id == "csv_select_scope"):
            continue
        tg = n.targets[0] if isinstance(n, ast.Assign) else n.target
        f = _self_field(tg)
        call = n.value
        if f is None or not call.args:
            continue
        lam = call.args[0]
        if isinstance(lam, ast.Name):
            # a local helper function instead of a lambda
            fdefs = [d for d in ast.walk(init.node) if isinstance(
                d, ast.FunctionDef) and d.name == lam.id]
            rets = [r for d in fdefs for r in ast.walk(d)
                    if isinstance(r, ast.Return) and r.value is not None]
            if len(fdefs) != 1 or len(rets) != 1 or len(
                    fdefs[0].body) > 2:
                continue
            body = rets[0].value
        elif isinstance(lam, ast.Lambda):
            body = lam.body
        else:
            continue
        while isinstance(body, ast.Call) and isinstance(
                body.func, ast.Name) and body.func.id in (
                "tuple", "sorted", "list") and body.args:
            body = body.args[0]
        ident = None
        if isinstance(body, (ast.GeneratorExp, ast.ListComp)) and len(
                body.generators) == 1 and isinstance(
                body.generators[0].target, ast.Tuple) and isinstance(
                body.elt, ast.Tuple) and body.elt.elts and isinstance(
                body.generators[0].target.elts[0], ast.Name):
            kn = body.generators[0].target.elts[0].id
            k0 = body.elt.elts[0]
            ident = isinstance(k0, ast.Name) and k0.id == kn
        scope_e = call.args[2] if len(call.args) > 2 else next(
            (k.value for k in call.keywords if k.arg == "scope"), None)
        scope = None if scope_e is None else repo.const(mod, scope_e)
        scope_known = scope_e is None or isinstance(scope, str) or (
            isinstance(scope_e, ast.Constant) and scope_e.value is None)
        skip = next((k.value for k in call.keywords
                     if k.arg == "skip_orig_key"), None)
        fams[f] = {"ident": ident, "scope": scope, "known": scope_known,
                   "skip": skip, "node": n}
    # which constructor parameter receives the keys of each family?
    call = next((n for n in ast.walk(parse.node) if isinstance(n, ast.Call)
                 and isinstance(n.func, ast.Name)
                 and n.func.id == rec_name), None)
    ctx.need(call is not None, f"{short}.CsvReader.parse_row builds "
             f"{rec_name}")
    n_fam = 0
    pairs = list(zip(params, call.args)) + [
        (kw.arg, kw.value) for kw in call.keywords if kw.arg in params]
    for p, a in pairs:
        if not isinstance(a, ast.DictComp):
            continue
        g = a.generators[0]
        f = _self_field(g.iter)
        if f not in fams or not (isinstance(g.target, ast.Tuple) and isinstance(
                a.key, ast.Name) and isinstance(g.target.elts[0], ast.Name)
                and a.key.id == g.target.elts[0].id):
            continue
        fam = fams[f]
        produced = _produced_keys(ctx, p)
        if not produced:
            continue       # no key of this family is fixed by the repository
        n_fam += 1
        problems = []
        if fam["ident"] is not True or not fam["known"]:
            problems.append("the key transformation of the column selector "
                            "is not recognised")
        else:
            sc = fam["scope"]
            for k, where in sorted(produced.items()):
                if sc and k.startswith(sc + "."):
                    problems.append(
                        f"key {k!r} ({where}) is written as column {k!r} "
                        f"but read back as {k[len(sc) + 1:]!r} (the scope "
                        f"{sc!r} is stripped by csv_select_scope)")
                elif sc and k != sc:
                    problems.append(f"key {k!r} ({where}) lies outside the "
                                    f"selected scope {sc!r}")
                elif not sc and fam["skip"] is not None and isinstance(
                        fam["skip"], ast.Lambda):
                    lam = fam["skip"]
                    v = _pred(repo, mod, lam.body, lam.args.args[0].arg, k)
                    if v is True:
                        problems.append(f"key {k!r} ({where}) is filtered "
                                        "out by skip_orig_key")
                    elif v is None:
                        ctx.notes.append(
                            f"{short}: skip_orig_key of {f} not decided "
                            f"for {k!r}")
        ctx.ob("D19.4", init, fam["node"], not problems,
               f"{short}.CsvReader: the {len(produced)} keys the repository "
               f"puts into `{p}` ({', '.join(sorted(produced))}) are read "
               "back unchanged" if not problems else
               f"{short}.CsvReader: `{p}` does not survive the CSV trip: "
               + "; ".join(problems)[:600],
               construct=f"{short} keys of {p}")
    ctx.count(f"{short}_key_families", n_fam)
    if n_fam == 0:
        ctx.ob("D19.4", init, init.node, False,
               f"{short}.CsvReader: the way the key families (bin bounds, "
               "objective bounds) are selected and passed to the record is "
               "not recognised", construct=f"{short} key families")


def _range_calls(fi: FuncInfo, fname: str) -> list[ast.Call]:
    return [n for n in ast.walk(fi.node) if isinstance(n, ast.Call)
            and isinstance(n.func, ast.Name) and n.func.id == fname
            and len(n.args) == 4]


def _local_def(fi: FuncInfo, name: str) -> ast.expr | None:
    d = [n for n in ast.walk(fi.node)
         if isinstance(n, (ast.Assign, ast.AnnAssign)) and isinstance(
             n.targets[0] if isinstance(n, ast.Assign) else n.target,
             ast.Name) and (n.targets[0] if isinstance(n, ast.Assign)
                            else n.target).id == name and n.value]
    return d[0].value if len(d) == 1 else None


def _cmp_value(t: ast.expr, vals: dict[str, int]) -> bool | None:
    """The outcome of a comparison of names / integer literals under an
    assignment of sample values (an abstract evaluation of the syntax tree -
    nothing of the repository is executed)."""
    if isinstance(t, ast.UnaryOp) and isinstance(t.op, ast.Not):
        r = _cmp_value(t.operand, vals)
        return None if r is None else not r
    if not (isinstance(t, ast.Compare) and len(t.ops) == 1):
        return None

    def v(x: ast.expr) -> int | None:
        if isinstance(x, ast.Name):
            return vals.get(x.id)
        if isinstance(x, ast.Constant) and isinstance(
                x.value, int) and not isinstance(x.value, bool):
            return x.value
        return None
    a, b = v(t.left), v(t.comparators[0])
    if a is None or b is None:
        return None
    op = t.ops[0]
    for k, f in ((ast.Lt, a < b), (ast.LtE, a <= b), (ast.Gt, a > b),
                 (ast.GtE, a >= b), (ast.Eq, a == b), (ast.NotEq, a != b)):
        if isinstance(op, k):
            return f
    return None


def _bound(repo: Any, fi: FuncInfo, e: ast.expr,
           ren: dict[str, str]) -> Any:
    """A range bound: an int, or ('max', {quantities}) / ('q', quantity)."""
    c = repo.const_in(fi, e)
    if isinstance(c, int):
        return c
    if isinstance(e, ast.Name):
        if e.id in ren:
            return ("q", ren[e.id])
        d = _local_def(fi, e.id)
        if d is not None:
            return _bound(repo, fi, d, ren)
        # m = a; if b > m: m = b   (max written with a statement)
        defs = [n for n in ast.walk(fi.node)
                if isinstance(n, (ast.Assign, ast.AnnAssign)) and getattr(
                    n, "value", None) is not None and isinstance(
                    n.targets[0] if isinstance(n, ast.Assign)
                    else n.target, ast.Name) and (
                    n.targets[0] if isinstance(n, ast.Assign)
                    else n.target).id == e.id]
        if len(defs) == 2 and all(isinstance(d_.value, ast.Name)
                                  for d_ in defs):
            a_, b_ = defs[0].value.id, defs[1].value.id
            for iff in ast.walk(fi.node):
                if isinstance(iff, ast.If) and not iff.orelse and len(
                        iff.body) == 1 and iff.body[0] is defs[1]:
                    for kind, va, vb in (("max", 1, 2), ("max", 2, 1),
                                         ("max", 3, 3)):
                        t_ = _cmp_value(iff.test, {e.id: va, a_: va,
                                                   b_: vb})
                        if t_ is None or (vb if t_ else va) != max(va, vb):
                            break
                    else:
                        parts = [_bound(repo, fi, defs[0].value, ren),
                                 _bound(repo, fi, defs[1].value, ren)]
                        if all(isinstance(x, tuple) and x[0] == "q"
                               for x in parts):
                            return ("max", frozenset(
                                x[1] for x in parts))
    if isinstance(e, ast.Call) and isinstance(e.func, ast.Name) and \
            e.func.id in ("max", "min") and not e.keywords:
        parts = [_bound(repo, fi, a, ren) for a in e.args]
        if all(isinstance(x, tuple) and x[0] == "q" for x in parts):
            return (e.func.id, frozenset(x[1] for x in parts))
    if isinstance(e, ast.IfExp) and isinstance(
            e.body, ast.Name) and isinstance(e.orelse, ast.Name):
        # `a if a >= b else b` is max(a, b) (decided on sample values)
        x_, y_ = e.body.id, e.orelse.id
        picks = []
        for vx, vy in ((1, 2), (2, 1), (3, 3)):
            t_ = _cmp_value(e.test, {x_: vx, y_: vy})
            if t_ is None:
                picks = []
                break
            picks.append((vx if t_ else vy, max(vx, vy), min(vx, vy)))
        parts = [_bound(repo, fi, e.body, ren), _bound(repo, fi, e.orelse,
                                                       ren)]
        if picks and all(isinstance(x, tuple) and x[0] == "q"
                         for x in parts):
            if all(p_[0] == p_[1] for p_ in picks):
                return ("max", frozenset(x[1] for x in parts))
            if all(p_[0] == p_[2] for p_ in picks):
                return ("min", frozenset(x[1] for x in parts))
    return ("?", ast.unparse(e))


def _compact_domains(ctx: Ctx) -> None:
    """The reader accepts every value the constructor accepts."""
    repo = ctx.repo
    mod = repo.module(BP + "instance")
    rd = repo.func(mod.name, "Instance.from_compact_str")
    new = desugared(repo.func(mod.name, "Instance.__new__"))
    cparams = new.params[1:]               # name, bin_width, bin_height, matrix
    # ---- constructor: quantity -> (lo, hi)
    unpack: list[str] = []
    # the local that holds one row of the matrix parameter
    row_names = set()
    for n in ast.walk(new.node):
        if isinstance(n, (ast.Assign, ast.AnnAssign)) and isinstance(
                getattr(n, "value", None), ast.Subscript) and isinstance(
                n.value.value, ast.Name) and \
                n.value.value.id == cparams[-1]:
            tg_ = n.targets[0] if isinstance(n, ast.Assign) else n.target
            if isinstance(tg_, ast.Name):
                row_names.add(tg_.id)
        if isinstance(n, ast.For) and isinstance(
                n.iter, ast.Name) and n.iter.id == cparams[-1] and \
                isinstance(n.target, ast.Name):
            row_names.add(n.target.id)
    for n in ast.walk(new.node):
        if isinstance(n, ast.Assign) and isinstance(
                n.targets[0], ast.Tuple) and isinstance(
                n.value, ast.Name) and n.value.id in row_names:
            unpack = [t.id for t in n.targets[0].elts
                      if isinstance(t, ast.Name)]
    ren_c = {p: p for p in cparams}
    c_rng: dict[str, tuple[Any, Any, ast.Call]] = {}
    for c in _range_calls(new, "check_int_range"):
        a = c.args[0]
        while isinstance(a, ast.Call) and isinstance(
                a.func, ast.Name) and a.func.id == "int" and a.args:
            a = a.args[0]
        q = None
        if isinstance(a, ast.Name) and a.id in cparams:
            q = a.id
        elif isinstance(a, ast.Name) and a.id in unpack:
            q = f"col{unpack.index(a.id)}"
        elif isinstance(a, ast.Subscript) and isinstance(
                a.value, ast.Name) and a.value.id in row_names and isinstance(
                repo.const_in(new, a.slice), int):
            # row[IDX_WIDTH] read directly
            q = f"col{repo.const_in(new, a.slice)}"
        elif isinstance(a, ast.Call) and ast.unparse(a) == \
                f"len({cparams[-1]})":
            q = "rows"
        elif isinstance(a, ast.Name) and ast.unparse(inline_locals(
                new.node, a)) == f"len({cparams[-1]})":
            q = "rows"      # n_rows = len(matrix) held in a local
        if q is not None and q not in c_rng:
            c_rng[q] = (_bound(repo, new, c.args[2], ren_c),
                        _bound(repo, new, c.args[3], ren_c), c)
    ctx.floor("constructor_ranges", len(c_rng), 6)
    # ---- reader: which local feeds which constructor parameter
    call = next((n for n in ast.walk(rd.node) if isinstance(n, ast.Call)
                 and isinstance(n.func, ast.Name)
                 and n.func.id == "Instance"), None)
    ctx.need(call is not None, "from_compact_str builds an Instance")
    ren_r = {a.id: p for p, a in zip(cparams, call.args)
             if isinstance(a, ast.Name)}
    idx_pos = {}
    for nm in ("IDX_WIDTH", "IDX_HEIGHT", "IDX_REPETITION"):
        v = repo.const(mod, ast.Name(id=nm, ctx=ast.Load()))
        if isinstance(v, int):
            idx_pos[nm] = v
    r_rng: list[tuple[str, Any, Any, ast.Call]] = []
    for c in _range_calls(rd, "check_to_int_range"):
        a = c.args[0]
        q = None
        par = None
        for n in ast.walk(rd.node):
            if isinstance(n, (ast.Assign, ast.AnnAssign)) and n.value is c:
                tg = n.targets[0] if isinstance(n, ast.Assign) else n.target
                if isinstance(tg, ast.Name):
                    par = tg.id
        if par in ren_r:
            q = ren_r[par]
        elif isinstance(a, ast.Subscript) and isinstance(
                a.slice, ast.Name) and a.slice.id in idx_pos:
            q = f"col{idx_pos[a.slice.id]}"
        elif par is not None and any(
                isinstance(n, ast.For) and par in ast.unparse(n.iter)
                for n in ast.walk(rd.node)):
            q = "rows"
        if q is not None:
            r_rng.append((q, _bound(repo, rd, c.args[2], ren_r),
                          _bound(repo, rd, c.args[3], ren_r), c))
    ctx.count("reader_ranges", len(r_rng))
    allc = _range_calls(rd, "check_to_int_range")
    bad_src = [c for c in allc if not (isinstance(c.args[0], ast.Subscript)
                                       and isinstance(c.args[0].value,
                                                      ast.Name))]
    ctx.ob("D19.4", rd, bad_src[0] if bad_src else rd.node,
           not bad_src and len(r_rng) >= 6,
           f"all {len(allc)} numeric fields of the compact string are "
           "converted from their own text fragment" if not bad_src and len(
               r_rng) >= 6 else
           "a numeric field is not converted from its text fragment: "
           + (ast.unparse(bad_src[0])[:80] if bad_src else
              f"only {len(r_rng)} of 6 fields are range-checked"),
           construct="compact fields converted")

    def lo_of(b: Any) -> int | None:      # smallest value a bound can take
        if isinstance(b, int):
            return b
        if b[0] == "q" and b[1] in c_rng and isinstance(
                c_rng[b[1]][0], int):
            return c_rng[b[1]][0]
        if b[0] in ("max", "min"):
            los = [lo_of(("q", x)) for x in b[1]]
            if all(x is not None for x in los):
                return max(los) if b[0] == "max" else min(los)
        return None

    def hi_of(b: Any) -> int | None:      # largest value a bound can take
        if isinstance(b, int):
            return b
        if b[0] == "q" and b[1] in c_rng and isinstance(
                c_rng[b[1]][1], int):
            return c_rng[b[1]][1]
        if b[0] in ("max", "min"):
            his = [hi_of(("q", x)) for x in b[1]]
            if all(x is not None for x in his):
                return max(his)
        return None

    def geq(a: Any, b: Any) -> bool:      # a >= b whatever the instance
        if a == b:
            return True
        la, hb = lo_of(a), hi_of(b)
        return la is not None and hb is not None and la >= hb

    for q, lo, hi, c in r_rng:
        if q not in c_rng:
            ctx.ob("D19.4", rd, c, False,
                   f"the reader validates `{q}` but the constructor range "
                   "for it was not found", construct=f"compact range {q}")
            continue
        clo, chi, cc = c_rng[q]
        ok = geq(clo, lo) and geq(hi, chi)
        ctx.ob("D19.4", rd, c, ok,
               f"from_compact_str accepts {q} in [{_sb(lo)}, {_sb(hi)}], "
               f"which covers the constructor's [{_sb(clo)}, {_sb(chi)}]"
               if ok else
               f"from_compact_str accepts {q} only in [{_sb(lo)}, "
               f"{_sb(hi)}] but Instance.__new__ (line {cc.lineno}) accepts "
               f"[{_sb(clo)}, {_sb(chi)}]: a valid instance whose {q} lies "
               "in the difference is written by to_compact_str and rejected "
               "when read back", construct=f"compact range {q}")


def _sb(b: Any) -> str:
    if isinstance(b, int):
        return str(b)
    if b[0] == "q":
        return b[1]
    if b[0] in ("max", "min"):
        return f"{b[0]}({', '.join(sorted(b[1]))})"
    return str(b[1])


# ------------------------------------------------------------------ D19.2
def _compact(ctx: Ctx) -> None:
    """to_compact_str / from_compact_str agree field by field.

    Both functions are expanded path by path with every local inlined
    (`sa.pathinline`): the writer's list literal and the strings appended
    per item become token lists (value / separator), the reader's decoded
    row becomes `conv(data.split(A)[k].split(B)[c])` terms - temporaries,
    conditional expressions versus if statements and default-then-overwrite
    idioms make no difference."""
    from sa.pathinline import Path, flatten_fstring, paths
    repo = ctx.repo
    mod = repo.module(BP + "instance")
    wr = repo.func(mod.name, "Instance.to_compact_str")
    rd = repo.func(mod.name, "Instance.from_compact_str")
    new_fi = desugared(repo.func(mod.name, "Instance.__new__"))
    cparams = new_fi.params[1:]
    cols = {nm: repo.const(mod, ast.Name(id=nm)) for nm in (
        "IDX_WIDTH", "IDX_HEIGHT", "IDX_REPETITION")}

    def sconst(e: ast.AST) -> str | None:
        v = repo.const(mod, e) if isinstance(e, (ast.Name, ast.Attribute,
                                                 ast.Constant)) else None
        return v if isinstance(v, str) else None

    def iconst(e: ast.AST) -> int | None:
        v = repo.const(mod, e)
        return v if isinstance(v, int) and not isinstance(v, bool) else None

    # ================================================================ writer
    selfn = wr.params[0]
    wpaths = paths(func_body(wr))
    head: list[str] | None = None
    head_var = None
    w_alts: list[tuple[tuple, list[tuple[str, Any]]]] = []
    join_sep = None
    w_loop_ok = False
    w_problems: list[str] = []
    if len(wpaths) == 1:
        wp = wpaths[0]
        ret = next((e for e in wp.events if e.kind == "return"), None)
        loops = [e for e in wp.events if e.kind == "loop"]
        # the returned value: SEP.join(<list>)
        rv = ret.value if ret is not None else None
        lst_expr = None
        if isinstance(rv, ast.Call) and isinstance(
                rv.func, ast.Attribute) and rv.func.attr == "join" and len(
                rv.args) == 1:
            join_sep = sconst(rv.func.value)
            lst_expr = rv.args[0]
        # the list: a local holding a list literal of the head fields
        if isinstance(lst_expr, ast.Name) and isinstance(
                wp.objs.get(lst_expr.id), ast.List):
            head_var = lst_expr.id
            head = []
            for e in wp.objs[head_var].elts:
                toks = flatten_fstring(e)
                if toks is not None and len(toks) == 1 and \
                        toks[0][0] == "val" and isinstance(
                        toks[0][1], ast.Attribute) and isinstance(
                        toks[0][1].value, ast.Name) and \
                        toks[0][1].value.id == selfn:
                    head.append(toks[0][1].attr)
                else:
                    head.append("?" + ast.unparse(e)[:30])
        if len(loops) == 1 and head_var is not None:
            lp = loops[0].node
            w_loop_ok = isinstance(lp, ast.For) and isinstance(
                lp.target, ast.Name) and ast.unparse(lp.iter).replace(
                " ", "") == f"range({selfn}.n_different_items)"
            ivar = lp.target.id if isinstance(lp.target, ast.Name) else "?"
            for q in paths(lp.body, Path(env=dict(loops[0].extra))):
                apps = [e for e in q.events if e.kind == "expr"
                        and isinstance(e.value, ast.Call) and isinstance(
                            e.value.func, ast.Attribute)
                        and e.value.func.attr == "append"
                        and ast.unparse(e.value.func.value) == head_var
                        and len(e.value.args) == 1]
                others = [e for e in q.events if e not in apps]
                if len(apps) != 1 or others or q.ended:
                    w_problems.append("an iteration does not append exactly "
                                      "one string per item")
                    continue
                toks = flatten_fstring(apps[0].value.args[0]) or []
                norm: list[tuple[str, Any]] = []
                for k, v in toks:
                    if k == "lit":
                        norm.append(("sep", v))
                    elif sconst(v) is not None:
                        norm.append(("sep", sconst(v)))
                    elif isinstance(v, ast.Subscript) and isinstance(
                            v.value, ast.Name) and v.value.id == selfn and \
                            isinstance(v.slice, ast.Tuple) and len(
                            v.slice.elts) == 2 and ast.unparse(
                            v.slice.elts[0]) == ivar and iconst(
                            v.slice.elts[1]) is not None:
                        norm.append(("col", iconst(v.slice.elts[1])))
                    else:
                        norm.append(("?", ast.unparse(v)[:30]))
                w_alts.append((q.guards, norm))
    else:
        w_problems.append("to_compact_str is not straight-line code around "
                          "one loop")
    # ================================================================ reader
    data = rd.params[0]
    r_head: dict[int, ast.expr] = {}
    split_seps: list[str] = []
    r_problems: list[str] = []
    call = None
    rows: list[tuple[tuple, list[Any]]] = []
    item_idx_ok = False
    matrix_ok = False
    # the type test at the top raises: follow the path that returns
    rpaths = [q for q in paths(func_body(rd)) if q.ended == "return"]

    def field_of(e: ast.expr) -> tuple | None:
        """conv(...data.split(A)[k]...) -> ("head", A, k-expr)
        conv(data.split(A)[k].split(B)[c]) -> ("cell", A, k-expr, B, c)."""
        while isinstance(e, ast.Call) and isinstance(
                e.func, ast.Name) and e.func.id in (
                "check_to_int_range", "int", "str", "check_int_range") \
                and e.args:
            e = e.args[0]
        if not isinstance(e, ast.Subscript):
            return None
        base, idx = e.value, e.slice
        if isinstance(base, ast.Call) and isinstance(
                base.func, ast.Attribute) and base.func.attr == "split" \
                and len(base.args) == 1:
            sepv = sconst(base.args[0])
            src = base.func.value
            if isinstance(src, ast.Name) and src.id == data:
                return ("head", sepv, idx)
            inner = field_of(src)
            if inner is not None and inner[0] == "head":
                return ("cell", inner[1], inner[2], sepv, idx)
        return None
    if len(rpaths) == 1:
        rp = rpaths[0]
        ret = next(e for e in rp.events if e.kind == "return")
        if isinstance(ret.value, ast.Call) and isinstance(
                ret.value.func, ast.Name) and ret.value.func.id == \
                "Instance" and not ret.value.keywords and len(
                ret.value.args) == len(cparams):
            call = ret.value
        loops = [e for e in rp.events if e.kind == "loop"]
        if call is not None:
            for k, a in enumerate(call.args[:-1]):
                f = field_of(a)
                if f is not None and f[0] == "head" and iconst(
                        f[2]) is not None:
                    r_head[k] = a
                    split_seps.append(f[1])
        if len(loops) == 1 and call is not None:
            lp = loops[0].node
            # the matrix passed to the constructor: a list that starts
            # empty and receives the rows
            mat_var = call.args[-1].id if isinstance(
                call.args[-1], ast.Name) else None
            matrix_ok = mat_var is not None and isinstance(
                rp.objs.get(mat_var), ast.List) and not rp.objs[
                mat_var].elts
            ev = make_evaluator(repo, rd, extra_call=py_calls)
            ev.int_transparent = True
            for q in paths(lp.body, Path(env=dict(loops[0].extra))):
                if q.ended == "raise":
                    continue
                apps = [e for e in q.events if e.kind == "expr"
                        and isinstance(e.value, ast.Call) and isinstance(
                            e.value.func, ast.Attribute)
                        and e.value.func.attr == "append"
                        and ast.unparse(e.value.func.value) == mat_var
                        and len(e.value.args) == 1]
                rowv = apps[0].value.args[0] if len(apps) == 1 else None
                if isinstance(rowv, ast.Name) and rowv.id in q.objs:
                    rowv = q.objs[rowv.id]
                if len(apps) != 1 or q.ended or not isinstance(
                        rowv, (ast.List, ast.Tuple)):
                    r_problems.append("an iteration does not append exactly "
                                      "one decoded row")
                    continue
                rows.append((q.guards, list(rowv.elts)))
            # positions: the field index as a function of the loop variable
            if isinstance(lp, ast.For) and isinstance(
                    lp.target, ast.Name) and isinstance(
                    lp.iter, ast.Call) and isinstance(
                    lp.iter.func, ast.Name) and lp.iter.func.id == "range" \
                    and rows:
                f0 = field_of(rows[0][1][0]) if rows[0][1] else None
                try:
                    env = Env()
                    i_ = Poly.var("i")
                    n_ = Poly.var("n")
                    env.vars[lp.target.id] = i_
                    # the count is head field 1
                    from sa.pathinline import subst as _subst
                    lo_hi = [_subst(a_, loops[0].extra)
                             for a_ in lp.iter.args]

                    def val(e_: ast.expr) -> Poly:
                        f_ = field_of(e_)
                        if f_ is not None and f_[0] == "head" and iconst(
                                f_[2]) == 1:
                            return n_
                        if isinstance(e_, ast.BinOp):
                            l_, r_ = val(e_.left), val(e_.right)
                            if isinstance(e_.op, ast.Add):
                                return l_ + r_
                            if isinstance(e_.op, ast.Sub):
                                return l_ - r_
                        return ev.num(env, e_)
                    vals = [val(a_) for a_ in lo_hi]
                    lo_ = Poly.const(0) if len(vals) == 1 else vals[0]
                    hi_ = vals[-1]
                    idx = val(f0[2]) if f0 is not None and f0[0] == "cell" \
                        else None
                    if idx is not None:
                        c0 = (idx - i_).const_value()
                        item_idx_ok = c0 is not None and lo_ + Poly.const(
                            c0) == Poly.const(4) and hi_ + Poly.const(
                            c0) == n_ + Poly.const(4)
                except Unsupported:
                    item_idx_ok = False
    else:
        r_problems.append("from_compact_str does not have exactly one "
                          "returning path outside its loop")
    # ================================================================ rules
    shape_unknown = any("returning path" in p_ or "straight-line" in p_
                        for p_ in r_problems + w_problems)

    def ob2(fi_: Any, node_: Any, ok_: Any, detail_: str, **kw_: Any) -> None:
        """When the writer / reader is not written as one loop between
        straight-line code, nothing is claimed about its fields."""
        if shape_unknown and not ok_:
            detail_ = ("the structure of to_compact_str / from_compact_str "
                       "is not recognised (" + "; ".join(
                           r_problems + w_problems)[:200] + ")")
        ctx.ob("D19.2", fi_, node_, ok_, detail_, **kw_)
    r_names = [None if k not in r_head else "ok" for k in range(4)]
    head_w = head or []
    ok_head = head_w[:4] == ["name", "n_different_items", "bin_width",
                             "bin_height"] and len(head_w) == 4
    # reader: constructor parameter p (p in head) comes from head field k
    bind: list[str] = []
    if call is None:
        bind.append("Instance(...) is not called with all parameters")
    else:
        for pi, pname in enumerate(cparams[:-1]):
            f = field_of(call.args[pi])
            kk = iconst(f[2]) if f is not None and f[0] == "head" else None
            want = head_w.index(pname) if pname in head_w else None
            if kk is None or kk != want:
                bind.append(
                    f"constructor parameter `{pname}` receives field "
                    f"{kk if kk is not None else '?'} of the string, but "
                    f"self.{pname} is written as field {want}")
        if not matrix_ok or r_problems:
            bind.append("the rows read from the string are not collected "
                        "into the matrix passed to the constructor")
    # the count field (n_different_items) drives the reader's loop
    ob2(wr, wr.node, ok_head and not w_problems and w_loop_ok,
           f"compact string head fields: writer {head_w}, reader reads "
           "fields 0, 2, 3 into name / bin_width / bin_height and field 1 "
           "as the item count" if ok_head else
           f"compact string head fields: writer {head_w}, reader "
           f"{r_names}", construct="compact head fields")
    # ---- items: writer token lists vs reader cells
    w_forms = sorted({tuple(t) for _g, t in w_alts}, key=len)
    item_sep = {v for f in w_forms for k, v in f if k == "sep"}
    want2 = [("col", cols["IDX_WIDTH"]), ("col", cols["IDX_HEIGHT"])]
    want3 = want2 + [("col", cols["IDX_REPETITION"])]
    ok_w_items = bool(w_forms) and len(item_sep) == 1 and all(
        [t for t in f if t[0] != "sep"] in (want2, want3)
        and all(f[j][0] == ("sep" if j % 2 else "col")
                for j in range(len(f))) for f in w_forms) and any(
        [t for t in f if t[0] != "sep"] == want3 for f in w_forms)
    r_cells_ok = bool(rows)
    cell_seps = set()
    for _g, elts in rows:
        if len(elts) != 3:
            r_cells_ok = False
            continue
        for k, e in enumerate(elts):
            f = field_of(e)
            if f is not None and f[0] == "cell":
                cell_seps.add(f[3])
                if iconst(f[4]) != k:
                    r_cells_ok = False
            elif not (k == 2 and iconst(e) == 1):
                r_cells_ok = False
    ok_items = ok_w_items and r_cells_ok and [
        cols["IDX_WIDTH"], cols["IDX_HEIGHT"], cols["IDX_REPETITION"]] == [
        0, 1, 2]
    ob2(wr, wr.node, ok_items,
           f"per-item fields: writer {[list(f) for f in w_forms]}, reader "
           "row = [cell 0, cell 1, cell 2 or 1]" if ok_items else
           f"per-item fields: writer {[list(f) for f in w_forms]}, reader "
           f"rows {[[ast.unparse(e)[:40] for e in el] for _g, el in rows][:2]}",
           construct="compact item fields")
    ok_sep = join_sep is not None and bool(split_seps) and all(
        x == join_sep for x in split_seps) and len(item_sep) == 1 and \
        cell_seps == item_sep and join_sep not in item_sep
    ob2(rd, rd.node, bool(ok_sep),
           f"writer joins with {join_sep!r} / {sorted(item_sep)}, reader "
           f"splits on {sorted(set(split_seps))} / {sorted(cell_seps)}",
           construct="compact separators")
    ob2(rd, rd.node, item_idx_ok,
           "item fields are read from positions 4 .. n_different_items+3",
           construct="compact item positions")
    # ---- multiplicity default
    ev2 = make_evaluator(repo, wr, extra_call=py_calls)
    ev2.int_transparent = True
    from sa.casesplit import equivalent
    from sa.symterm import _eq, c_and, c_not
    rep = Poly.var("rep")

    def w_guard(gs: tuple) -> tuple | None:
        env = Env()
        cs = []
        for tst, truth in gs:
            class R(ast.NodeTransformer):
                def visit_Subscript(self, n: ast.Subscript) -> ast.AST:
                    if isinstance(n.slice, ast.Tuple) and len(
                            n.slice.elts) == 2 and iconst(
                            n.slice.elts[1]) == cols["IDX_REPETITION"]:
                        return ast.Name(id="rep$", ctx=ast.Load())
                    return n
            import copy as _copy
            t2 = ast.fix_missing_locations(R().visit(_copy.deepcopy(tst)))
            env.vars["rep$"] = rep
            try:
                c = ev2.cond(env, t2)
            except Unsupported:
                return None
            cs.append(c if truth else c_not(c))
        return c_and(*cs) if cs else ("true",)
    ok_rep_w = bool(w_alts)
    for gs, toks in w_alts:
        g = w_guard(gs)
        short = len([t for t in toks if t[0] != "sep"]) == 2
        if g is None:
            ok_rep_w = False
        elif short and not equivalent(c_and(g, c_not(_eq(
                rep, Poly.const(1)))), ("false",))[0]:
            ok_rep_w = False     # 2-field form although multiplicity != 1
    ln = Poly.var("len")

    def r_guard(gs: tuple) -> tuple | None:
        cs = []
        env = Env()
        env.vars["len$"] = ln
        for tst, truth in gs:
            class R2(ast.NodeTransformer):
                def visit_Call(self, n: ast.Call) -> ast.AST:
                    if isinstance(n.func, ast.Name) and n.func.id == "len" \
                            and len(n.args) == 1 and isinstance(
                            n.args[0], ast.Call) and isinstance(
                            n.args[0].func, ast.Attribute) and \
                            n.args[0].func.attr == "split":
                        return ast.Name(id="len$", ctx=ast.Load())
                    return self.generic_visit(n)
            import copy as _copy
            t2 = ast.fix_missing_locations(R2().visit(_copy.deepcopy(tst)))
            try:
                c = ev2.cond(env, t2)
            except Unsupported:
                return None
            cs.append(c if truth else c_not(c))
        return c_and(*cs) if cs else ("true",)
    ok_rep_r = bool(rows)
    two, three = Poly.const(2), Poly.const(3)
    for gs, elts in rows:
        g = r_guard(gs)
        if g is None or len(elts) != 3:
            ok_rep_r = False
            continue
        dflt = iconst(elts[2]) == 1 and field_of(elts[2]) is None
        if dflt:
            # default only when there is no third cell (len <= 2)
            if not equivalent(c_and(g, ("le", three, ln)), ("false",))[0]:
                ok_rep_r = False
        else:
            # the third cell is read only when it exists (len >= 3)
            if not equivalent(c_and(g, ("le", ln, two)), ("false",))[0]:
                ok_rep_r = False
    if rows and not any(iconst(el[2]) == 1 and field_of(el[2]) is None
                        for _g, el in rows if len(el) == 3) and any(
            len([t for t in toks if t[0] != "sep"]) == 2
            for _g, toks in w_alts):
        ok_rep_r = False          # the writer omits a field nobody defaults
    ob2(rd, rd.node, ok_rep_w and ok_rep_r,
           "the writer omits the multiplicity exactly when it is 1 and the "
           "reader supplies 1 exactly when the field is missing"
           if ok_rep_w and ok_rep_r else
           f"multiplicity default broken: writer ok={ok_rep_w}, reader ok="
           f"{ok_rep_r}", construct="compact multiplicity default")
    ob2(rd, rd.node, not bind,
           "name, bin width and bin height are passed to the constructor "
           "parameters they were written from; every decoded row is "
           "appended to the matrix" if not bind else "; ".join(bind),
           construct="compact constructor binding")


def _two_rounds(repo: Any, fi: FuncInfo, loop: ast.For) -> list[str] | None:
    """What `for v in seq: <writes>` writes in its first two rounds: a list
    of "V1" / "V2" (str of the round's element) and constant strings (empty
    ones dropped); None if the body is not made of writes, flag / string
    assignments and tests of such flags."""
    from sa.srcmodel import inline_locals
    if not isinstance(loop.target, ast.Name):
        return None
    var = loop.target.id
    # flags / strings known before the loop
    state: dict[str, Any] = {}
    for st in ast.walk(fi.node):
        if isinstance(st, (ast.Assign, ast.AnnAssign)) and getattr(
                st, "value", None) is not None and st.lineno < loop.lineno:
            tg = st.targets[0] if isinstance(st, ast.Assign) else st.target
            if isinstance(tg, ast.Name):
                c = repo.const(fi.module, st.value)
                if isinstance(c, (str, bool)):
                    state[tg.id] = c
    out: list[str] = []

    def val(e: ast.expr, rnd: int) -> Any:
        if isinstance(e, ast.Name) and e.id in state:
            return state[e.id]
        if isinstance(e, ast.Call) and isinstance(
                e.func, ast.Name) and e.func.id == "str" and len(
                e.args) == 1 and isinstance(
                e.args[0], ast.Name) and e.args[0].id == var:
            return ("V", rnd)
        c = repo.const(fi.module, e)
        if isinstance(c, (str, bool)):
            return c
        if isinstance(e, ast.UnaryOp) and isinstance(e.op, ast.Not):
            v = val(e.operand, rnd)
            return (not v) if isinstance(v, bool) else None
        return None

    def run(stmts: list[ast.stmt], rnd: int) -> bool:
        for st in stmts:
            if isinstance(st, ast.If):
                c = val(st.test, rnd)
                if not isinstance(c, bool):
                    return False
                if not run(st.body if c else st.orelse, rnd):
                    return False
            elif isinstance(st, (ast.Assign, ast.AnnAssign)) and getattr(
                    st, "value", None) is not None:
                tg = st.targets[0] if isinstance(st, ast.Assign) \
                    else st.target
                v = val(st.value, rnd)
                if not isinstance(tg, ast.Name) or not isinstance(
                        v, (str, bool)):
                    return False
                state[tg.id] = v
            elif isinstance(st, ast.Expr) and isinstance(
                    st.value, ast.Call) and isinstance(
                    st.value.func, ast.Attribute) and \
                    st.value.func.attr == "write" and len(
                    st.value.args) == 1:
                v = val(st.value.args[0], rnd)
                if isinstance(v, tuple):
                    out.append(f"V{v[1]}")
                elif isinstance(v, str):
                    if v:
                        out.append(v)
                else:
                    return False
            elif isinstance(st, ast.Pass):
                continue
            else:
                return False
        return True
    del inline_locals
    for rnd in (1, 2):
        if not run(loop.body, rnd):
            return None
    return out


# ------------------------------------------------------------------ D19.3
def _first_line_forms(ctx: Ctx) -> None:
    repo = ctx.repo
    # ---- game plan
    gp = repo.func("moptipyapps.ttp.game_plan", "GamePlan.__str__")
    gs = repo.func("moptipyapps.ttp.game_plan_space", "GamePlanSpace.from_str")
    first_loop = next((n for n in ast.walk(gp.node)
                       if isinstance(n, ast.For)), None)
    from sa.srcmodel import inline_locals as _inl
    csv_val = repo.const(gp.module, ast.Name(id="CSV_SEPARATOR"))
    ok_w = first_loop is not None and ast.unparse(
        first_loop.iter) == "self.flatten()" and isinstance(csv_val, str)
    if ok_w:
        kv = ast.unparse(first_loop.target)
        seq = [ast.unparse(b).replace(" ", "") for b in first_loop.body]
        wname = next((x.split(".write(")[0] for x in seq
                      if ".write(" in x), "?")
        # the separator variable: re-assigned in the loop to (a local
        # holding) CSV_SEPARATOR, and "" before the loop
        sepv = next((ast.unparse(b.targets[0]) for b in first_loop.body
                     if isinstance(b, ast.Assign) and isinstance(
                         b.targets[0], ast.Name)
                     and repo.const(gp.module, _inl(
                         gp.node, b.value, keep={ast.unparse(
                             b.targets[0])})) == csv_val), None)
        sep_init = [b for b in ast.walk(gp.node) if isinstance(
            b, (ast.Assign, ast.AnnAssign)) and b.value is not None and
            ast.unparse(b.targets[0] if isinstance(b, ast.Assign)
                        else b.target) == (sepv or "?")
            and b.lineno < first_loop.lineno]
        ok_w = sepv is not None and len(seq) == 3 and seq[:2] == [
            f"{wname}.write({sepv})", f"{wname}.write(str({kv}))"] and \
            seq[2].startswith(f"{sepv}=") and bool(sep_init) and repo.const(
                gp.module, sep_init[-1].value) == ""
    # the writer ends the first line before anything else
    after = None
    if first_loop is not None:
        blk = next(b for b in _blocks(gp.node) if first_loop in b)
        k = blk.index(first_loop)
        after = blk[k + 1] if k + 1 < len(blk) else None
    ok_nl = after is not None and "write('\\n" in ast.unparse(after)
    if not ok_w and first_loop is not None and ast.unparse(
            first_loop.iter) == "self.flatten()" and isinstance(
            csv_val, str):
        # any other way of putting separators between the values: execute
        # two rounds of the loop abstractly and look at what is written
        toks = _two_rounds(repo, gp, first_loop)
        ok_w = toks == ["V1", csv_val, "V2"]
    if not (ok_w and ok_nl) and after is not None:
        nl_txt = repo.const(gp.module, _inl(gp.node, after.value.args[0])) \
            if isinstance(after, ast.Expr) and isinstance(
                after.value, ast.Call) and after.value.args else None
        if isinstance(nl_txt, str) and nl_txt.startswith("\n"):
            ok_nl = True
    if not (ok_w and ok_nl):
        # the other idiom: write(CSV_SEPARATOR.join(str(k) for k in
        # self.flatten())) as the very first write, then a line break
        writes = sorted((c for c in ast.walk(gp.node) if isinstance(
            c, ast.Call) and isinstance(c.func, ast.Attribute)
            and c.func.attr == "write" and len(c.args) == 1),
            key=lambda c: (c.lineno, c.col_offset))
        if len(writes) >= 2:
            a0 = writes[0].args[0]
            sepv = repo.const(gp.module, ast.Name(id="CSV_SEPARATOR"))
            comp = a0.args[0] if isinstance(a0, ast.Call) and isinstance(
                a0.func, ast.Attribute) and a0.func.attr == "join" and len(
                a0.args) == 1 else None
            okj = comp is not None and isinstance(
                sepv, str) and repo.const(
                gp.module, a0.func.value) == sepv and isinstance(
                comp, (ast.ListComp, ast.GeneratorExp)) and len(
                comp.generators) == 1 and not comp.generators[0].ifs and \
                ast.unparse(comp.generators[0].iter) == "self.flatten()" \
                and ast.unparse(comp.elt) == \
                f"str({ast.unparse(comp.generators[0].target)})"
            nl = repo.const(gp.module, writes[1].args[0])
            # both writes are unconditional statements of the same block
            blk = next((b for b in _blocks(gp.node) if any(
                isinstance(st, ast.Expr) and st.value is writes[0]
                for st in b)), None)
            seq_ok = blk is not None and any(
                isinstance(st, ast.Expr) and st.value is writes[1]
                for st in blk)
            if okj and isinstance(nl, str) and nl.startswith("\n") and \
                    seq_ok:
                ok_w = ok_nl = True
    ctx.ob("D19.3", gp, first_loop or gp.node, bool(ok_w and ok_nl),
           "GamePlan.__str__ writes the flattened matrix joined by "
           "CSV_SEPARATOR as the first line, then a line break",
           construct="game plan first line")
    ok_r = _keeps_first_line(gs) and any(
        isinstance(n, ast.Name) and n.id.endswith("SEPARATOR")
        for n in ast.walk(gs.node)) and _validates_before_return(gs) \
        and _parses_into_fresh(gs)
    ctx.ob("D19.3", gs, gs.node, ok_r,
           "GamePlanSpace.from_str keeps the text up to the first line "
           "break, splits on CSV_SEPARATOR and validates",
           construct="game plan reader")
    # ---- ordering space
    ot = repo.func("moptipyapps.order1d.space", "OrderingSpace.to_str")
    of = repo.func("moptipyapps.order1d.space", "OrderingSpace.from_str")
    body = func_body(ot)
    first_ext = None
    for s in body:
        if isinstance(s, ast.Expr) and isinstance(
                s.value, ast.Call) and isinstance(
                s.value.func, ast.Attribute) and s.value.func.attr in (
                "extend", "append"):
            first_ext = s
            break
    # the list that is joined by line breaks at the end starts with the
    # text of the base permutation: created from it, or created empty and
    # extended by it first
    joined = None
    for r in ast.walk(ot.node):
        if isinstance(r, ast.Return) and isinstance(
                r.value, ast.Call) and isinstance(
                r.value.func, ast.Attribute) and r.value.func.attr == \
                "join" and repo.const(ot.module, r.value.func.value) == \
                "\n" and len(r.value.args) == 1 and isinstance(
                r.value.args[0], ast.Name):
            joined = r.value.args[0].id
    base = f"super().to_str({ot.params[1]})"
    ok_w = False
    if joined is not None:
        created = next((s_ for s_ in body if isinstance(
            s_, (ast.Assign, ast.AnnAssign)) and s_.value is not None
            and ast.unparse(s_.targets[0] if isinstance(s_, ast.Assign)
                            else s_.target) == joined), None)
        muts = [s_ for s_ in body if isinstance(s_, ast.Expr)
                and isinstance(s_.value, ast.Call) and isinstance(
                    s_.value.func, ast.Attribute)
                and ast.unparse(s_.value.func.value) == joined]
        if created is not None:
            csrc = ast.unparse(created.value)
            if csrc == "[]":
                ok_w = bool(muts) and muts[0].value.func.attr == \
                    "extend" and base in ast.unparse(muts[0]) and \
                    body.index(muts[0]) > body.index(created)
                first_ext = muts[0] if muts else first_ext
            else:
                ok_w = csrc in (f"{base}.split('\\n')",
                                f"{base}.splitlines()", f"[{base}]")
                first_ext = created
    why_w = ""
    if not ok_w:
        # general form: the first element of the list that is joined
        from sa.srcmodel import fold_consts as _fc
        fnode = _fc(repo, ot.module, ot.node)
        fbody = func_body_of(fnode)
        jn = None
        for r in ast.walk(fnode):
            if isinstance(r, ast.Return) and isinstance(
                    r.value, ast.Call) and isinstance(
                    r.value.func, ast.Attribute) and r.value.func.attr == \
                    "join" and isinstance(
                    r.value.func.value, ast.Constant) and \
                    r.value.func.value.value == "\n" and len(
                    r.value.args) == 1 and isinstance(
                    r.value.args[0], ast.Name):
                jn = r.value.args[0].id
        first = None
        if jn is not None:
            cr_ = next((s_ for s_ in fbody if isinstance(
                s_, (ast.Assign, ast.AnnAssign)) and s_.value is not None
                and ast.unparse(s_.targets[0] if isinstance(s_, ast.Assign)
                                else s_.target) == jn), None)
            if cr_ is not None:
                v_ = cr_.value
                if isinstance(v_, ast.List) and v_.elts:
                    first = v_.elts[0].value if isinstance(
                        v_.elts[0], ast.Starred) else v_.elts[0]
                elif isinstance(v_, ast.List):
                    m_ = next((s_ for s_ in fbody if isinstance(
                        s_, ast.Expr) and isinstance(s_.value, ast.Call)
                        and isinstance(s_.value.func, ast.Attribute)
                        and ast.unparse(s_.value.func.value) == jn
                        and s_.value.args), None)
                    first = m_.value.args[0] if m_ is not None else None
                else:
                    first = v_
        if first is None:
            why_w = ("the list of lines that OrderingSpace.to_str joins is "
                     "not recognised")
        else:
            fs_ = ast.unparse(first)
            stripped = fs_
            for suf in (".split('\\n')", ".splitlines()"):
                if stripped.endswith(suf):
                    stripped = stripped[:-len(suf)]
            if stripped == base:
                ok_w = True
            elif base in fs_:
                why_w = (f"the first element `{fs_[:60]}` of the text form "
                         "is not recognised")
            else:
                why_w = (f"OrderingSpace.to_str starts its text with "
                         f"`{fs_[:60]}`, not with the base permutation text")
    ctx.ob("D19.3", ot, first_ext or ot.node, ok_w,
           "OrderingSpace.to_str puts the base permutation text first"
           if ok_w or not why_w else why_w,
           construct="ordering first line")
    sup = any(
        isinstance(n, ast.Call) and isinstance(n.func, ast.Attribute)
        and n.func.attr == "from_str" and isinstance(
            n.func.value, ast.Call) and ast.unparse(
            n.func.value.func) == "super" for n in ast.walk(of.node))
    ok_r = _keeps_first_line(of) and sup
    why_r = ""
    if not ok_r and sup:
        verdict, why_r = _first_line_verdict(ctx, of)
        ok_r = verdict == "ok"
        if verdict == "unknown":
            why_r = ("the way OrderingSpace.from_str cuts out the first "
                     f"line is not recognised ({why_r})")
    ctx.ob("D19.3", of, of.node, ok_r,
           "OrderingSpace.from_str keeps the first line and parses it with "
           "the (validating) base reader" if ok_r or not why_r else why_r,
           construct="ordering reader")


def _first_line_verdict(ctx: Ctx, fi: FuncInfo) -> tuple[str, str]:
    """How the reader cuts its text before handing it to the base reader,
    path by path with locals inlined (constants folded): on the paths where
    `T.find("\\n")` is positive the base reader gets `T[:pos]`, on the
    others `T` itself (surrounding strip calls do not matter).
    -> ("ok" | "wrong" | "unknown", detail)"""
    from sa.pathinline import paths
    from sa.srcmodel import fold_consts
    node = fold_consts(ctx.repo, fi.module, fi.node)
    try:
        ps = paths(func_body_of(node))
    except ValueError:
        return "unknown", "too many paths"
    seen = 0
    for q in ps:
        if q.ended != "return":
            continue
        ret = next((e for e in q.events if e.kind == "return"), None)
        if ret is None or not isinstance(ret.value, ast.Call):
            return "unknown", "return value"
        c = ret.value
        if not (isinstance(c.func, ast.Attribute) and c.func.attr ==
                "from_str" and len(c.args) == 1):
            return "unknown", f"`{ast.unparse(c)[:60]}`"
        def unstrip(e: ast.expr) -> ast.expr:
            while isinstance(e, ast.Call) and isinstance(
                    e.func, ast.Attribute) and e.func.attr in (
                    "strip", "rstrip", "lstrip") and not e.args:
                e = e.func.value
            return e
        arg = unstrip(c.args[0])
        # the decision of this path about the position of the line break
        pos_truth = None
        find_src = None
        for t, truth in q.guards:
            tt, tr = t, truth
            while isinstance(tt, ast.UnaryOp) and isinstance(tt.op, ast.Not):
                tt, tr = tt.operand, not tr
            if not (isinstance(tt, ast.Compare) and len(tt.ops) == 1):
                continue
            l_, r_, op = tt.left, tt.comparators[0], type(tt.ops[0])
            mirror = {ast.Lt: ast.Gt, ast.Gt: ast.Lt, ast.LtE: ast.GtE,
                      ast.GtE: ast.LtE, ast.Eq: ast.Eq, ast.NotEq: ast.NotEq}
            if isinstance(l_, ast.Constant) and op in mirror:
                l_, r_, op = r_, l_, mirror[op]
            if isinstance(l_, ast.Call) and isinstance(
                    l_.func, ast.Attribute) and l_.func.attr == "find" and \
                    len(l_.args) == 1 and isinstance(
                    l_.args[0], ast.Constant) and l_.args[0].value == "\n" \
                    and isinstance(r_, ast.Constant):
                k = r_.value
                positive = (op is ast.Gt and k in (0, -1)) or (
                    op is ast.GtE and k in (0, 1)) or (
                    op is ast.NotEq and k == -1)
                negative = (op is ast.LtE and k in (0, -1)) or (
                    op is ast.Lt and k in (0, 1)) or (
                    op is ast.Eq and k == -1)
                if not (positive or negative):
                    return "unknown", f"test `{ast.unparse(tt)}`"
                pos_truth = tr if positive else not tr
                find_src = ast.unparse(l_)
                base_txt = ast.unparse(l_.func.value)
                base_un = ast.unparse(unstrip(l_.func.value))
        seen += 1
        a_src = ast.unparse(arg)
        if pos_truth is None:
            # a path that never looked for a line break
            if ".find(" in a_src or "split" in a_src:
                return "unknown", f"`{a_src[:60]}`"
            return "unknown", "no test of the line-break position"
        if pos_truth:
            okc = isinstance(arg, ast.Subscript) and isinstance(
                arg.slice, ast.Slice) and ast.unparse(
                arg.value) == base_txt and arg.slice.step is None and (
                arg.slice.lower is None or ast.unparse(
                    arg.slice.lower) == "0") and arg.slice.upper is not None \
                and ast.unparse(arg.slice.upper) == find_src
            if not okc:
                if a_src in (base_txt, base_un):
                    return "wrong", ("with a line break in the text the "
                                     "base reader still gets the whole text")
                if isinstance(arg, ast.Subscript) and isinstance(
                        arg.slice, ast.Slice) and ast.unparse(
                        arg.value) == base_txt:
                    return "wrong", (f"with a line break at pos the base "
                                     f"reader gets `{a_src[:70]}`, not the "
                                     "text before pos")
                return "unknown", f"`{a_src[:60]}`"
        elif a_src not in (base_txt, base_un):
            if isinstance(arg, ast.Subscript) and ast.unparse(
                    arg.value) in (base_txt, base_un):
                return "wrong", ("without a line break (find(..) <= 0) the "
                                 f"text is cut to `{a_src[:60]}`")
            return "unknown", f"`{a_src[:60]}` without a line break"
    return ("ok", "") if seen >= 2 else ("unknown", "paths")


def func_body_of(node: ast.AST) -> list[ast.stmt]:
    body = list(node.body)       # type: ignore[attr-defined]
    if body and isinstance(body[0], ast.Expr) and isinstance(
            body[0].value, ast.Constant) and isinstance(
            body[0].value.value, str):
        body = body[1:]
    return body


def _keeps_first_line(fi: FuncInfo) -> bool:
    """`k = t.find("\\n"); if k > 0: t = t[:k]` (any names): the text is
    cut at the first line break exactly when there is one."""
    pos = None
    txt = None
    for n in ast.walk(fi.node):
        if isinstance(n, (ast.Assign, ast.AnnAssign)) and isinstance(
                n.value, ast.Call) and isinstance(
                n.value.func, ast.Attribute) and n.value.func.attr in (
                "find", "index") and n.value.args and isinstance(
                n.value.args[0], ast.Constant) and \
                n.value.args[0].value == "\n" and len(n.value.args) == 1:
            tg = n.targets[0] if isinstance(n, ast.Assign) else n.target
            if isinstance(tg, ast.Name):
                pos = tg.id
                txt = ast.unparse(n.value.func.value)
    if pos is None:
        return False
    for n in ast.walk(fi.node):
        if isinstance(n, ast.If) and not n.orelse and isinstance(
                n.test, ast.Compare) and len(n.test.ops) == 1:
            t = n.test
            l_, r_ = ast.unparse(t.left), ast.unparse(t.comparators[0])
            found = (l_ == pos and (
                (isinstance(t.ops[0], ast.Gt) and r_ in ("0", "-1")) or
                (isinstance(t.ops[0], ast.GtE) and r_ in ("0", "1")))) or (
                r_ == pos and isinstance(t.ops[0], ast.Lt)
                and l_ in ("0", "-1"))
            if not found:
                continue
            for b in n.body:
                if isinstance(b, ast.Assign) and ast.unparse(
                        b.targets[0]) == txt:
                    for x in ast.walk(b.value):
                        if isinstance(x, ast.Subscript) and ast.unparse(
                                x.value) == txt and isinstance(
                                x.slice, ast.Slice) and (
                                x.slice.lower is None or ast.unparse(
                                    x.slice.lower) == "0") and isinstance(
                                x.slice.upper, ast.Name) and \
                                x.slice.upper.id == pos and \
                                x.slice.step is None:
                            return True
    return False


def _parses_into_fresh(fi: FuncInfo) -> bool:
    """x = self.create(); np.copyto(x, np.fromstring(text, dtype=x.dtype,
    sep=CSV_SEPARATOR).reshape(x.shape)); ...; return x"""
    xs = [n for n in ast.walk(fi.node) if isinstance(
        n, (ast.Assign, ast.AnnAssign)) and n.value is not None and
        ast.unparse(n.value) == "self.create()"]
    if len(xs) != 1:
        return False
    x = ast.unparse(xs[0].targets[0] if isinstance(xs[0], ast.Assign)
                    else xs[0].target)
    txt = fi.params[1]
    ok = False
    from sa.srcmodel import inline_locals
    for c in ast.walk(fi.node):
        if isinstance(c, ast.Call) and ast.unparse(c.func) == "np.copyto" \
                and len(c.args) == 2 and not c.keywords and ast.unparse(
                c.args[0]) == x:
            # temporaries between the parse and the copy are looked through
            srcx = inline_locals(fi.node, c.args[1], keep={x})
            if isinstance(srcx, ast.Call) and isinstance(
                    srcx.func, ast.Attribute) and srcx.func.attr == \
                    "reshape" and [ast.unparse(a) for a in srcx.args] == [
                    f"{x}.shape"]:
                srcx = srcx.func.value
            elif isinstance(srcx, ast.Call) and ast.unparse(
                    srcx.func) == "np.reshape" and len(
                    srcx.args) == 2 and ast.unparse(
                    srcx.args[1]) == f"{x}.shape":
                srcx = inline_locals(fi.node, srcx.args[0], keep={x})
            # the parsed text: the parameter or a local cut out of it
            derived = {txt}
            for n_ in ast.walk(fi.node):
                if isinstance(n_, (ast.Assign, ast.AnnAssign)) and getattr(
                        n_, "value", None) is not None:
                    tg_ = n_.targets[0] if isinstance(n_, ast.Assign) \
                        else n_.target
                    if isinstance(tg_, ast.Name) and any(
                            isinstance(y_, ast.Name) and y_.id in derived
                            for y_ in ast.walk(n_.value)) and isinstance(
                            n_.value, (ast.Subscript, ast.Call, ast.Name)):
                        derived.add(tg_.id)
            if isinstance(srcx, ast.Call) and ast.unparse(
                    srcx.func) == "np.fromstring" and srcx.args and \
                    ast.unparse(srcx.args[0]) in derived:
                kw = {k.arg: ast.unparse(k.value) for k in srcx.keywords}
                # all values of the text are parsed (count = -1): only then
                # does reshape(x.shape) reject a text of the wrong size
                ok = kw.get("dtype") == f"{x}.dtype" and kw.get(
                    "sep", "").endswith("SEPARATOR") and kw.get(
                    "count", "-1") == "-1" and len(srcx.args) == 1
    rets = [r for r in ast.walk(fi.node) if isinstance(r, ast.Return)]
    return ok and len(rets) == 1 and ast.unparse(rets[0].value) == x


def _validates_before_return(fi: FuncInfo) -> bool:
    from sa.cfg import CFG, calls_in
    cfg = CFG(fi.node)
    rets = cfg.find(lambda n: n.kind == "stmt" and isinstance(
        n.ast, ast.Return))

    def is_val(n: Any) -> bool:
        return n.kind in ("stmt", "test") and any(
            isinstance(c.func, ast.Attribute) and c.func.attr == "validate"
            for c in calls_in(n.ast))
    return bool(rets) and all(cfg.dominated_by(r, is_val) for r in rets)


def _blocks(node: ast.AST) -> list[list[ast.stmt]]:
    out = []
    for n in ast.walk(node):
        for fld in ("body", "orelse"):
            sub = getattr(n, fld, None)
            if isinstance(sub, list) and sub and isinstance(
                    sub[0], ast.stmt):
                out.append(sub)
    return out
