"""One module per property: ``run(ctx)`` records obligations."""
