"""C09 - QAP objective equals the flow-distance sum within its bounds."""
from __future__ import annotations

import ast
import re
from typing import Any

from sa.kern import eval_kernel
from sa.loopsum import (LoopSummariser, kvar, length_of, r_cell, r_sum)
from sa.report import Ctx
from sa.srcmodel import FuncInfo, func_body, inline_locals
from sa.symterm import Poly, Unsupported, show

OBJ = "moptipyapps.qap.objective"
INST = "moptipyapps.qap.instance"


def run(ctx: Ctx) -> None:
    ctx.explanation = (
        "D9.1 the njit kernel _evaluate is summarised to a closed form and "
        "must equal SUM_i SUM_j flows[i,j]*distances[x[i],x[j]] (up to "
        "renaming of the two bound variables); the wrapper must bind "
        "(x, instance.distances, instance.flows) to the kernel parameters of "
        "the same names. D9.2 no narrowing construct in the kernel (64-bit "
        "scalars, N1). D9.3 trivial_bounds is abstractly interpreted over a "
        "small domain (which matrix, sorted asc/desc, alias/copy): lb must "
        "be the anti-sorted and ub the co-sorted product sum, no operand may "
        "be clobbered before its last use, no reversed *view* may be "
        "written through; Instance.__init__ only raises lb / lowers ub. "
        "D9.4 in from_qaplib_stream the list filled first reaches the "
        "constructor parameter `flows`, the second `distances`. Not decided: "
        "arbitrary line wrapping (runtime tokenisation).")
    ctx.rule("D9.1", "kernel == sum_i sum_j flows[i,j]*distances[x[i],x[j]]")
    ctx.rule("D9.2", "no narrowing construct in the kernel")
    ctx.rule("D9.3", "bounds are anti-/co-sorted product sums without "
             "aliasing; constructor only tightens them")
    ctx.rule("D9.4", "parser: first n^2 numbers -> flows, next -> distances")
    _kernel(ctx)
    _bounds(ctx)
    _init(ctx)
    _parser(ctx)
    ctx.assumptions += [
        "N1: integer scalars inside njit kernels are 64 bit; "
        "uint64*uint64 products and int64 += uint64 do not narrow",
        "property domain: trivial upper bound < 10^15, so no partial sum "
        "reaches 2^63",
        "P1: x is a permutation of 0..n-1",
    ]


def _kernel(ctx: Ctx) -> None:
    repo = ctx.repo
    k = repo.func(OBJ, "_evaluate")
    ctx.need(k.njit is not None, "_evaluate is an njit kernel")
    ctx.need(sorted(k.params) == ["distances", "flows", "x"],
             "_evaluate(x, distances, flows) parameter names")
    ls = LoopSummariser()
    try:
        got = eval_kernel(repo, k, loop_hook=ls.hook).returned
    except Unsupported as u:
        ctx.ob("D9.1", k, u.node or k.node, False,
               f"cannot normalise the kernel: {u}", construct="closed form")
        return
    if isinstance(got, Poly):
        a = got.as_atom()
        if a is not None and a[0] == "app" and a[1] == "int":
            got = a[2][0]
    k0, k1 = kvar(0), kvar(1)
    n = length_of("x")
    want = r_sum(0, 0, n, r_sum(1, 0, n, r_cell("flows", k0, k1) * r_cell(
        "distances", r_cell("x", k0), r_cell("x", k1))))
    want2 = r_sum(0, 0, n, r_sum(1, 0, n, r_cell("flows", k1, k0) * r_cell(
        "distances", r_cell("x", k1), r_cell("x", k0))))
    ok = got in (want, want2)
    ctx.ob("D9.1", k, k.node, ok,
           f"kernel returns {show(got)[:220]}" + (
               "" if ok else f"; expected {show(want)}"),
           construct="closed form of _evaluate")
    bad = [n_ for n_ in ast.walk(k.node) if (
        isinstance(n_, ast.Attribute) and n_.attr in (
            "astype", "view", "int8", "int16", "int32", "uint8", "uint16",
            "uint32", "float32", "float64")) or (isinstance(
                n_, ast.BinOp) and isinstance(n_.op, ast.Div))]
    ctx.ob("D9.2", k, bad[0] if bad else k.node, not bad,
           "no narrowing / float construct in the kernel" if not bad else
           f"`{ast.unparse(bad[0])}` may lose exactness",
           construct="exact 64-bit arithmetic")
    # wrapper wiring
    cls = repo.cls(OBJ, "QAPObjective")
    evm = ctx.need(cls.methods.get("evaluate"), "QAPObjective.evaluate")
    rets = [r for r in ast.walk(evm.node) if isinstance(r, ast.Return)]
    ok = False
    detail = "evaluate does not return _evaluate(...)"
    node: ast.AST = evm.node
    rv = inline_locals(evm.node, rets[0].value) if len(rets) == 1 and \
        rets[0].value is not None else None
    if isinstance(rv, ast.Call):
        c = rv
        node = c
        if repo.resolve_expr(evm.module, c.func) is k and \
                len(c.args) == 3 and not c.keywords:
            binding = {}
            for p, a in zip(k.params, c.args):
                binding[p] = ast.unparse(inline_locals(evm.node, a))
            ok = binding.get("x") == evm.params[1] and \
                binding.get("distances") == "self.instance.distances" and \
                binding.get("flows") == "self.instance.flows"
            detail = f"kernel parameters bound as {binding}"
    ctx.ob("D9.1", evm, node, ok, detail, construct="evaluate wiring")
    for meth, attr in (("lower_bound", "lower_bound"),
                       ("upper_bound", "upper_bound")):
        fi = ctx.need(cls.methods.get(meth), f"QAPObjective.{meth}")
        rs = [r for r in ast.walk(fi.node) if isinstance(r, ast.Return)]
        ok = len(rs) == 1 and rs[0].value is not None and ast.unparse(
            inline_locals(fi.node, rs[0].value)) == f"self.instance.{attr}"
        ctx.ob("D9.3", fi, rs[0] if rs else fi.node, ok,
               f"returns self.instance.{attr}" if ok else
               f"does not return the instance's {attr}",
               construct=f"{meth} returns attribute", nontrivial=False)


# ------------------------------------------------------------------ D9.3
#: dtype expressions that denote 64-bit integers (moptipy's DEFAULT_* are
#: INTS[-2] = int64 and INTS[-1] = uint64; checked in _bounds)
WIDE_DTYPES = {"DEFAULT_UNSIGNED_INT", "DEFAULT_INT", "np.uint64",
               "np.int64", "numpy.uint64", "numpy.int64", "int"}


class Arr:
    """Abstract array: which matrix its multiset comes from and its order."""

    def __init__(self, src: str | None, order: str, storage: int,
                 wide: bool = False) -> None:
        self.src = src          # "D" | "F" | None
        self.order = order      # asc | desc | any | clobbered | uninit
        self.storage = storage  # identity of the underlying buffer
        self.reversed_view = False
        #: element type known to be a 64-bit integer (explicit dtype)
        self.wide = wide

    def __repr__(self) -> str:
        return f"{self.order}({self.src})@{self.storage}"


def _bounds(ctx: Ctx) -> None:
    repo = ctx.repo
    tb = repo.func(INST, "trivial_bounds")
    ctx.need(tb.params == ["distances", "flows"],
             "trivial_bounds(distances, flows)")
    env: dict[str, Arr] = {"distances": Arr("D", "any", 0),
                           "flows": Arr("F", "any", 1)}
    # ---- every scratch buffer has one cell per matrix entry (n * n)
    from sa.kern import make_evaluator, py_calls
    from sa.symterm import Env as _Env, Poly as _Poly, Unsupported as _Uns
    sev = make_evaluator(repo, tb, extra_call=py_calls)
    sev.int_transparent = True
    senv = _Env()
    senv.vars["distances"] = ("array", "distances")
    senv.vars["flows"] = ("array", "flows")
    nlen = _Poly.atom(("app", "len", (_Poly.var("distances"),)))
    nflen = _Poly.atom(("app", "len", (_Poly.var("flows"),)))
    sizes_bad: list[str] = []
    n_alloc = 0
    for st in func_body(tb):
        if isinstance(st, (ast.Assign, ast.AnnAssign, ast.AugAssign)):
            v = st.value
            if isinstance(v, ast.Call) and isinstance(
                    v.func, ast.Attribute) and v.func.attr in (
                    "empty", "zeros") and v.args:
                n_alloc += 1
                try:
                    sz = sev.num(senv, v.args[0])
                    if sz not in (nlen * nlen, nflen * nflen,
                                  nlen * nflen):
                        sizes_bad.append(
                            f"`{ast.unparse(st)[:60]}` has "
                            f"{_sh_poly(sz)} cells")
                except _Uns:
                    sizes_bad.append(f"`{ast.unparse(st)[:60]}`: size not "
                                     "normalised")
                continue
            tg = st.targets[0] if isinstance(st, ast.Assign) else st.target
            if isinstance(tg, ast.Name):
                try:
                    senv = sev.stmt(senv, st)
                except _Uns:
                    pass
    ctx.ob("D9.3", tb, tb.node, not sizes_bad and n_alloc >= 1,
           f"all {n_alloc} scratch buffers hold n*n cells (one per matrix "
           "entry)" if not sizes_bad else
           "a scratch buffer cannot hold the flattened matrix: "
           + "; ".join(sizes_bad), construct="scratch buffer sizes")
    nxt = [2]
    problems: list[tuple[ast.AST, str]] = []
    results: list[tuple[str, str] | None] = []

    def fresh() -> int:
        nxt[0] += 1
        return nxt[0]

    def rev(o: str) -> str:
        return {"asc": "desc", "desc": "asc"}.get(o, o)

    def val(e: ast.expr) -> Arr | None:
        """Abstract value of an array expression."""
        if isinstance(e, ast.Name):
            return env.get(e.id)
        if isinstance(e, ast.Subscript):
            base = val(e.value)
            if base is None:
                return None
            sl = e.slice
            if isinstance(sl, ast.Slice) and sl.lower is None and \
                    sl.upper is None:
                if sl.step is None:
                    return base
                st = repo.const(tb.module, sl.step)
                if st == -1:
                    r = Arr(base.src, rev(base.order), base.storage,
                            base.wide)
                    r.reversed_view = True
                    return r
            return None
        if isinstance(e, ast.Call):
            f = e.func
            if isinstance(f, ast.Attribute) and f.attr in (
                    "flatten", "copy", "ravel", "astype") and \
                    not (f.attr == "ravel"):
                b = val(f.value)
                if b is None:
                    return None
                w = b.wide
                if f.attr == "astype" and e.args:
                    w = ast.unparse(e.args[0]) in WIDE_DTYPES
                return Arr(b.src, b.order, fresh(), w)
            if isinstance(f, ast.Attribute) and f.attr == "ravel":
                b = val(f.value)
                return None if b is None else Arr(b.src, b.order, b.storage,
                                                  b.wide)
            if isinstance(f, ast.Attribute) and f.attr == "sort" and \
                    isinstance(f.value, ast.Name) and f.value.id in (
                    "np", "numpy") and e.args:
                b = val(e.args[0])
                return None if b is None else Arr(b.src, "asc", fresh(),
                                                  b.wide)
            if isinstance(f, ast.Attribute) and f.attr in (
                    "empty", "zeros") and isinstance(
                    f.value, ast.Name) and f.value.id in ("np", "numpy"):
                dt = ast.unparse(e.args[1]) if len(e.args) > 1 else next(
                    (ast.unparse(k.value) for k in e.keywords
                     if k.arg == "dtype"), "")
                return Arr(None, "uninit", fresh(), dt in WIDE_DTYPES)
        return None

    def product(e: ast.expr) -> tuple[str, str] | None:
        """Recognise int(np.multiply(a, b[, out]).sum()) / (a*b).sum() /
        np.dot(a, b); returns (order-pair kind, description)."""
        while isinstance(e, ast.Call) and isinstance(
                e.func, ast.Name) and e.func.id == "int" and e.args:
            e = e.args[0]
        a = b = None
        out = None
        if isinstance(e, ast.Call) and isinstance(e.func, ast.Attribute) \
                and e.func.attr == "sum":
            inner = e.func.value
            if isinstance(inner, ast.Call) and isinstance(
                    inner.func, ast.Attribute) and \
                    inner.func.attr == "multiply" and len(inner.args) >= 2:
                a, b = inner.args[0], inner.args[1]
                if len(inner.args) >= 3:
                    out = inner.args[2]
                for kw in inner.keywords:
                    if kw.arg == "out":
                        out = kw.value
            elif isinstance(inner, ast.BinOp) and isinstance(
                    inner.op, ast.Mult):
                a, b = inner.left, inner.right
        elif isinstance(e, ast.Call) and isinstance(
                e.func, ast.Attribute) and e.func.attr == "dot" and \
                len(e.args) == 2:
            a, b = e.args
        if a is None or b is None:
            problems.append((e, "bound is not a product sum of two arrays"))
            return None
        va, vb = val(a), val(b)
        if va is None or vb is None:
            problems.append((e, "operands of the product are not tracked "
                                "arrays"))
            return None
        for v, nm in ((va, ast.unparse(a)), (vb, ast.unparse(b))):
            if v.order in ("clobbered", "uninit"):
                problems.append((e, f"operand {nm} was overwritten by an "
                                    "earlier in-place product (or never "
                                    "filled)"))
                return None
            if v.order == "any":
                problems.append((e, f"operand {nm} is not sorted"))
                return None
        if {va.src, vb.src} != {"D", "F"}:
            problems.append((e, "product does not pair distances with "
                                "flows"))
            return None
        vo_ = val(out) if out is not None else None
        for v, nm in ((va, ast.unparse(a)), (vb, ast.unparse(b)),
                      (vo_, ast.unparse(out) if out is not None else "")):
            if v is not None and not v.wide:
                problems.append((
                    e, f"`{nm}` has the element type of its source matrix "
                       "(not an explicitly 64-bit buffer): the element-wise "
                       "products are truncated to that type before they are "
                       "summed"))
                return None
        kind = "co" if va.order == vb.order else "anti"
        desc = f"{va} x {vb}"
        if out is not None:
            vo = val(out)
            if vo is not None:
                for v in env.values():
                    if v.storage == vo.storage:
                        v.order = "clobbered"
        return kind, desc

    scalars: dict[str, tuple[str, str] | None] = {}
    unmodelled: list[ast.stmt] = []
    for s in func_body(tb):
        if isinstance(s, (ast.Assign, ast.AnnAssign)) and getattr(
                s, "value", None) is not None:
            tgt = s.targets[0] if isinstance(s, ast.Assign) else s.target
            if isinstance(tgt, ast.Name):
                v = val(s.value)
                scalars.pop(tgt.id, None)
                if v is not None:
                    env[tgt.id] = v      # alias (same storage) or fresh
                else:
                    env.pop(tgt.id, None)
                    if any(isinstance(c_, ast.Call) and isinstance(
                            c_.func, ast.Attribute) and c_.func.attr in (
                            "sum", "dot") for c_ in ast.walk(s.value)):
                        # a bound computed into a local: evaluated here, in
                        # statement order (in-place products clobber)
                        scalars[tgt.id] = product(s.value)
            elif isinstance(tgt, ast.Subscript) and isinstance(
                    tgt.value, ast.Name) and isinstance(
                    tgt.slice, ast.Slice) and tgt.slice.lower is None \
                    and tgt.slice.upper is None and tgt.slice.step is None:
                dst = env.get(tgt.value.id)
                v = val(s.value)
                if dst is not None and v is not None:
                    # copy into dst's buffer: every alias of that buffer
                    for w in env.values():
                        if w.storage == dst.storage:
                            w.src, w.order = v.src, v.order
        elif isinstance(s, ast.For):
            # `for k in range(N): B[k] = A[N - 1 - k]`: B = A reversed
            done = False
            if isinstance(s.target, ast.Name) and isinstance(
                    s.iter, ast.Call) and ast.unparse(
                    s.iter.func) == "range" and len(
                    s.iter.args) == 1 and len(s.body) == 1 and isinstance(
                    s.body[0], ast.Assign) and not s.orelse:
                st_ = s.body[0]
                tg_, vl_ = st_.targets[0], st_.value
                if isinstance(tg_, ast.Subscript) and isinstance(
                        tg_.value, ast.Name) and isinstance(
                        vl_, ast.Subscript) and isinstance(
                        vl_.value, ast.Name) and tg_.value.id in env and \
                        vl_.value.id in env and ast.unparse(
                        tg_.slice) == s.target.id:
                    from sa.kern import make_evaluator as _mk
                    from sa.symterm import Env as _Env
                    try:
                        ev_ = _mk(repo, tb)
                        kk = Poly.var(s.target.id)
                        e0 = _Env()
                        e0.vars[s.target.id] = kk
                        idx = ev_.num(e0, inline_locals(tb.node, vl_.slice))
                        nn = ev_.num(e0, inline_locals(
                            tb.node, s.iter.args[0]))
                        srcv, dstv = env[vl_.value.id], env[tg_.value.id]
                        if idx == nn - Poly.const(1) - kk and \
                                srcv.storage != dstv.storage:
                            for w in env.values():
                                if w.storage == dstv.storage:
                                    w.src, w.order = srcv.src, rev(
                                        srcv.order)
                            done = True
                        elif idx == kk and srcv.storage != dstv.storage:
                            for w in env.values():
                                if w.storage == dstv.storage:
                                    w.src, w.order = srcv.src, srcv.order
                            done = True
                    except Unsupported:
                        done = False
            if not done:
                problems.append((s, "cannot normalise the loop: not "
                                    "recognised"))
                unmodelled.append(s)
        elif isinstance(s, (ast.While, ast.If, ast.With, ast.Try)):
            problems.append((s, "cannot normalise this statement of "
                                "trivial_bounds: not recognised"))
            unmodelled.append(s)
        elif isinstance(s, ast.AugAssign):
            if isinstance(s.target, ast.Name) and s.target.id in env:
                problems.append((s, "in-place update of a tracked array"))
        elif isinstance(s, ast.Expr) and isinstance(s.value, ast.Call):
            f = s.value.func
            if isinstance(f, ast.Attribute) and f.attr == "sort" and \
                    isinstance(f.value, ast.Name) and f.value.id in env:
                a = env[f.value.id]
                if a.reversed_view:
                    problems.append((s, "sorting through a reversed view"))
                for w in env.values():
                    if w.storage == a.storage:
                        w.order = "asc" if not w.reversed_view else "desc"
        elif isinstance(s, ast.Return):
            if isinstance(s.value, ast.Tuple) and len(s.value.elts) == 2:
                for e in s.value.elts:
                    if isinstance(e, ast.Name) and e.id in scalars:
                        results.append(scalars[e.id])
                    else:
                        results.append(product(e))
            else:
                problems.append((s, "does not return (lb, ub)"))
    ok = not problems and len(results) == 2 and results[0] is not None \
        and results[1] is not None and results[0][0] == "anti" and \
        results[1][0] == "co"
    detail = f"lb = {results[0]}, ub = {results[1]}" if len(
        results) == 2 else "no (lb, ub) return found"
    if unmodelled:
        # nothing is claimed about array contents behind such a statement
        problems = [pr for pr in problems if pr[0] in unmodelled]
        detail = "trivial_bounds"
    if problems:
        detail += "; " + "; ".join(w for _, w in problems)
    ctx.ob("D9.3", tb, problems[0][0] if problems else tb.node, ok,
           detail + ("" if ok or unmodelled else "; expected lb = "
                     "anti-sorted and ub = co-sorted product sum of "
                     "distances and flows"),
           construct="trivial bounds by rearrangement")


def _init(ctx: Ctx) -> None:
    """The constructor computes (lb, ub) = trivial_bounds(distances, flows)
    and only ever tightens them: the stored lower bound is >= the computed
    one and the stored upper bound <= the computed one on every outcome of
    the constructor's comparisons (values, not statement shapes)."""
    from sa.casesplit import Splitter, describe, minmax_to_ite
    from sa.guards import GuardWalk
    from sa.kern import make_evaluator, py_calls
    from sa.lin import entails
    from sa.symterm import Env, Poly, Unsupported
    repo = ctx.repo
    init = repo.func(INST, "Instance.__init__")
    tb = repo.func(INST, "trivial_bounds")
    problems: list[str] = []
    node: ast.AST = init.node
    LB0, UB0 = Poly.var("LB0"), Poly.var("UB0")
    calls: list[ast.Call] = []

    def hook(ev_: Any, env_: Any, n: ast.Call) -> Any:
        if repo.resolve_expr(init.module, n.func) is tb:
            calls.append(n)
            return (LB0, UB0)
        return py_calls(ev_, env_, n)
    ev = make_evaluator(repo, init, extra_call=hook)
    ev.int_transparent = True
    gw = GuardWalk(ev)
    env = Env()
    env.vars["self"] = Poly.var("self")
    out = gw.walk(env, func_body(init))
    if len(calls) != 1:
        problems.append("trivial_bounds is not called exactly once")
    else:
        args = [ast.unparse(a) for a in calls[0].args]
        if args != list(tb.params) or calls[0].keywords:
            problems.append(f"trivial_bounds called with {args}")
            node = calls[0]
    lbf, ubf = out.vars.get("self.lower_bound"), out.vars.get(
        "self.upper_bound")
    if not isinstance(lbf, Poly) or not isinstance(ubf, Poly):
        problems.append("the bounds are not stored in self.lower_bound / "
                        "self.upper_bound")
    elif not problems:
        sp = Splitter()
        try:
            for facts, (lo_, hi_), trail in sp.cases(
                    (minmax_to_ite(lbf), minmax_to_ite(ubf))):
                if not entails(facts, sp.lin(lo_ - LB0)):
                    problems.append(
                        f"[{describe(trail)[:160]}] the stored lower bound "
                        f"{_sh_poly(lo_)} may be below the computed one")
                if not entails(facts, sp.lin(UB0 - hi_)):
                    problems.append(
                        f"[{describe(trail)[:160]}] the stored upper bound "
                        f"{_sh_poly(hi_)} may be above the computed one")
        except Unsupported as u:
            problems.append(f"cannot normalise the bounds: {u}")
    # ---- the storage type of the matrices is sized by the UPPER bound
    dcalls = [c for c in ast.walk(init.node) if isinstance(c, ast.Call)
              and isinstance(c.func, ast.Name)
              and c.func.id == "int_range_to_dtype"]
    d_ok = False
    d_why = "no int_range_to_dtype(...) call sizes the matrices"
    d_node: ast.AST = init.node
    if len(dcalls) == 1 and isinstance(ubf, Poly):
        d_node = dcalls[0]
        kw = {k.arg: k.value for k in dcalls[0].keywords}
        pos = list(dcalls[0].args)
        mn_e = kw.get("min_value", pos[0] if pos else None)
        mx_e = kw.get("max_value", pos[1] if len(pos) > 1 else None)
        try:
            mxv = ev.num(out, mx_e) if mx_e is not None else None
            mnv = ev.num(out, mn_e) if mn_e is not None else None
        except Unsupported:
            mxv = mnv = None
        if mxv is None or mnv is None:
            d_why = "cannot normalise the range handed to int_range_to_dtype"
        else:
            d_ok = mxv == ubf and mnv.const_value() is not None and \
                mnv.const_value() <= 0
            d_why = (f"the matrices are stored with the integer type of "
                     f"[{_sh_poly(mnv)}, {_sh_poly(mxv)}]" + (
                         " = [0, upper bound]: every entry that can "
                         "contribute to an objective value fits"
                         if d_ok else " - not [0, the stored upper bound "
                         f"{_sh_poly(ubf)}]: entries above that range wrap "
                         "around when the matrices are converted"))
    ctx.ob("D9.3", init, d_node, d_ok, d_why,
           construct="storage type covers the upper bound")
    _stored_matrices(ctx, init)
    ctx.ob("D9.3", init, node, not problems,
           "constructor computes (lb, ub) = trivial_bounds(distances, "
           "flows), only tightens them (stored lb >= computed lb, stored ub "
           "<= computed ub on every path), and stores them"
           if not problems else "; ".join(dict.fromkeys(problems)),
           construct="constructor only tightens bounds")


#: conversions that keep every element of an integer matrix (the width of
#: the target type is D9.3 "storage type covers the upper bound")
_KEEP_METHODS = {"astype", "copy", "view"}
_KEEP_FUNCS = {"array", "asarray", "ascontiguousarray", "asanyarray",
               "copy"}


def _stored_matrices(ctx: Ctx, init: Any) -> None:
    """`self.distances` and `self.flows` hold the constructor's `distances`
    and `flows` arguments (possibly converted element by element) on every
    outcome of the constructor's conditions; the bounds were computed from
    these very arguments, so storing anything else breaks "the objective
    lies within the bounds"."""
    from sa.pathinline import paths
    me = init.params[0]

    def origin(e: ast.expr) -> str:
        """The parameter whose elements `e` holds, "?" when unknown."""
        while True:
            if isinstance(e, ast.Name):
                return e.id if e.id in init.params[1:] else "?"
            if isinstance(e, ast.Call) and isinstance(
                    e.func, ast.Attribute):
                np_ = isinstance(e.func.value, ast.Name) and \
                    e.func.value.id in ("np", "numpy")
                if e.func.attr in _KEEP_METHODS and not np_:
                    e = e.func.value
                    continue
                if e.func.attr in _KEEP_FUNCS and np_ and e.args:
                    e = e.args[0]
                    continue
            return "?"
    try:
        ps = [q for q in paths(func_body(init)) if q.ended != "raise"]
    except ValueError:
        ps = []
    for attr in ("distances", "flows"):
        got: list[tuple[ast.AST, ast.expr, str]] = []
        missing = 0
        for q in ps:
            sts = [ev for ev in q.events if ev.kind == "store"
                   and isinstance(ev.value, ast.Attribute)
                   and isinstance(ev.value.value, ast.Name)
                   and ev.value.value.id == me and ev.value.attr == attr]
            if not sts:
                missing += 1
                continue
            got.append((sts[-1].node, sts[-1].extra, origin(sts[-1].extra)))
        node: ast.AST = got[0][0] if got else init.node
        wrong = [g for g in got if g[2] not in (attr, "?")]
        unk = [g for g in got if g[2] == "?"]
        if not ps or missing:
            ok, why = False, (
                f"the store into self.{attr} is not recognised on "
                f"{missing if ps else 'any'} path(s) through the "
                "constructor")
        elif wrong:
            node = wrong[0][0]
            ok, why = False, (
                f"self.{attr} receives `{ast.unparse(wrong[0][1])[:80]}`, "
                f"i.e. the constructor's `{wrong[0][2]}` argument, on "
                f"{len(wrong)} of {len(got)} paths through the constructor; "
                f"the bounds were computed from `{attr}`")
        elif unk:
            node = unk[0][0]
            ok, why = False, (
                f"the value `{ast.unparse(unk[0][1])[:80]}` stored in "
                f"self.{attr} is not recognised as the `{attr}` argument or "
                "an element-wise conversion of it")
        else:
            ok, why = True, (
                f"self.{attr} holds the `{attr}` argument (or its "
                f"element-wise conversion) on all {len(got)} paths through "
                "the constructor")
        ctx.ob("D9.3", init, node, ok, why,
               construct=f"stored {attr} matrix")


def _value_range(ctx: Ctx) -> None:
    """The text loader converts every token with a range check; that range
    must be [0, K] with K at least the largest bound the constructor
    accepts - otherwise a text whose instance the constructor would take is
    rejected while it is read."""
    repo = ctx.repo
    fq = repo.func(INST, "Instance.from_qaplib_stream")
    init = repo.cls(INST, "Instance").methods["__init__"]

    def ranges(fi: Any) -> list[tuple[Any, Any, ast.Call]]:
        out = []
        for c in ast.walk(fi.node):
            if isinstance(c, ast.Call) and isinstance(
                    c.func, ast.Name) and c.func.id in (
                    "check_int_range", "check_to_int_range"):
                from sa.srcmodel import bound_args
                ba = bound_args(c, ["val", "name", "min_value",
                                    "max_value"])
                if "min_value" in ba and "max_value" in ba:
                    out.append((repo.const(fi.module, inline_locals(
                        fi.node, ba["min_value"])), repo.const(
                        fi.module, inline_locals(
                            fi.node, ba["max_value"])), c))
        return out
    # the converters the loader maps over the tokens
    convs = []
    for c in ast.walk(fq.node):
        if isinstance(c, ast.Call) and isinstance(
                c.func, ast.Name) and c.func.id == "map" and c.args and \
                isinstance(c.args[0], ast.Name):
            r = repo.resolve(fq.module, c.args[0].id)
            if isinstance(r, FuncInfo) and r not in convs:
                convs.append(r)
    ctor = [hi for lo, hi, _c in ranges(init) if isinstance(hi, int)]
    k_ctor = max(ctor) if ctor else None
    problems = []
    node: ast.AST = fq.node
    n_rng = 0
    for cv in convs:
        for lo, hi, c in ranges(cv):
            n_rng += 1
            if not isinstance(lo, int) or not isinstance(hi, int):
                problems.append(f"the range checked by `{cv.name}` is not "
                                "recognised")
                continue
            if lo != 0 or (k_ctor is not None and hi < k_ctor):
                node = c
                problems.append(
                    f"`{cv.name}` accepts values in [{lo}, {hi}] only, but "
                    f"the constructor accepts bounds up to {k_ctor}: a "
                    "valid instance text with a larger entry is rejected "
                    "while it is read")
    if convs and not n_rng:
        problems.append("the range check of the token converter is not "
                        "recognised")
    ctx.ob("D9.4", fq, node, not problems,
           f"every token is converted under a range check [0, K] with K >= "
           f"{k_ctor}, the largest bound the constructor accepts"
           if not problems else "; ".join(dict.fromkeys(problems)),
           construct="token range covers the constructor's",
           nontrivial=bool(convs))


def _parser(ctx: Ctx) -> None:
    _value_range(ctx)
    _tables(ctx)
    repo = ctx.repo
    fq = repo.func(INST, "Instance.from_qaplib_stream")
    icls = repo.cls(INST, "Instance")
    init = icls.methods["__init__"]
    # lists and the state under which they are extended
    ext: dict[str, list[Any]] = {}
    for n in ast.walk(fq.node):
        if isinstance(n, ast.If) and isinstance(n.test, ast.Compare) and \
                isinstance(n.test.left, ast.Name) and len(
                n.test.ops) == 1 and isinstance(n.test.ops[0], ast.Eq):
            st = repo.const(fq.module, n.test.comparators[0])
            for c in ast.walk(ast.Module(body=n.body, type_ignores=[])):
                if isinstance(c, ast.Call) and isinstance(
                        c.func, ast.Attribute) and c.func.attr in (
                        "extend", "append") and isinstance(
                        c.func.value, ast.Name):
                    ext.setdefault(c.func.value.id, []).append(
                        (n.test.left.id, st))
    all_ext = []
    for n in ast.walk(fq.node):
        if isinstance(n, ast.Call) and isinstance(
                n.func, ast.Attribute) and n.func.attr == "extend" and \
                isinstance(n.func.value, ast.Name):
            all_ext.append(n.func.value.id)
    first = [nm for nm, v in ext.items() if v]
    ctx.need(len(first) >= 1, "from_qaplib_stream: a list filled under a "
             "state test")
    if len(set(all_ext)) != 2:
        ctx.ob("D9.4", fq, fq.node, False,
               f"the parser fills {sorted(set(all_ext))}: expected exactly "
               "two lists (flows, then distances)",
               construct="flows-first binding")
        return
    first_list = first[0]
    second_list = next(x for x in set(all_ext) if x != first_list)
    call = None
    for n in ast.walk(fq.node):
        if isinstance(n, ast.Return) and isinstance(n.value, ast.Call) and \
                repo.resolve_expr(fq.module, n.value.func) is icls:
            call = n.value
    ctx.need(call, "from_qaplib_stream returns Instance(...)")
    # hoisted matrices are looked through
    import copy as _copy
    call = _copy.deepcopy(call)
    call.args = [inline_locals(fq.node, a) for a in call.args]
    for kw in call.keywords:
        kw.value = inline_locals(fq.node, kw.value)
    binding: dict[str, str] = {}
    for p, a in zip(init.params[1:], call.args):
        names = {x.id for x in ast.walk(a) if isinstance(x, ast.Name)}
        for lst in (first_list, second_list):
            if lst in names:
                binding[p] = lst
    for kw in call.keywords:
        names = {x.id for x in ast.walk(kw.value)
                 if isinstance(x, ast.Name)}
        for lst in (first_list, second_list):
            if lst in names and kw.arg:
                binding[kw.arg] = lst
    ok = binding.get("flows") == first_list and \
        binding.get("distances") == second_list
    ctx.ob("D9.4", fq, call, ok,
           f"list filled first (`{first_list}`) is bound to parameter "
           f"{[p for p, l in binding.items() if l == first_list]}, second "
           f"(`{second_list}`) to "
           f"{[p for p, l in binding.items() if l == second_list]}; QAPLIB "
           "lists flows first",
           construct="flows-first binding")
    # both reshaped (n, n) with the parsed n
    shapes_ok = all(
        any(isinstance(c, ast.Call) and isinstance(c.func, ast.Attribute)
            and c.func.attr == "reshape" for c in ast.walk(a))
        for a in call.args[:2])
    ctx.ob("D9.4", fq, call, shapes_ok, "both lists are reshaped to (n, n)",
           construct="reshape", nontrivial=False)
    # counts verified
    checks = 0
    for n in ast.walk(fq.node):
        if isinstance(n, ast.If) and n.body and isinstance(
                n.body[-1], ast.Raise) and isinstance(n.test, ast.Compare) \
                and isinstance(n.test.ops[0], ast.NotEq):
            checks += 1
    ctx.ob("D9.4", fq, fq.node, checks >= 3,
           f"{checks} raising `!=` checks on counts/state after parsing",
           construct="count checks", nontrivial=False)


def _sh_poly(p: Any) -> str:
    from sa.symterm import Poly, show
    return show(p) if isinstance(p, Poly) else str(p)


# ------------------------------------------------------------------ D9.5
def _tables(ctx: Ctx) -> None:
    """The declared data do not contradict each other: a lower bound from
    the bounds table is not above the best-known objective value of the
    same instance, and not above an objective value that a docstring
    documents for a permutation of that instance (both would put a real
    objective value below `lower_bound`)."""
    import doctest
    repo = ctx.repo
    ctx.rule("D9.5", "declared lower bounds contradict neither the "
             "best-known values nor the documented objective values")
    mod = repo.module(INST)

    def table(name: str) -> tuple[ast.AST | None, dict[str, Any]]:
        for st in mod.tree.body:
            tg = st.target if isinstance(st, ast.AnnAssign) else (
                st.targets[0] if isinstance(st, ast.Assign) else None)
            if isinstance(tg, ast.Name) and tg.id == name and isinstance(
                    getattr(st, "value", None), ast.Dict):
                out: dict[str, Any] = {}
                for k, v in zip(st.value.keys, st.value.values):
                    if isinstance(k, ast.Constant) and isinstance(
                            k.value, str):
                        try:
                            out[k.value] = ast.literal_eval(v)
                        except ValueError:
                            out[k.value] = None
                return st, out
        return None, {}
    bnode, bounds = table("_BOUNDS")
    _knode, bks = table("_BKS")
    problems: list[str] = []
    n_cmp = 0
    for nm, v in bks.items():
        val = v[1] if isinstance(v, tuple) and len(v) == 2 else None
        if nm in bounds and isinstance(val, int) and isinstance(
                bounds[nm], int):
            n_cmp += 1
            if bounds[nm] > val:
                problems.append(
                    f"{nm}: declared lower bound {bounds[nm]} is above the "
                    f"best-known objective value {val}")
    # documented evaluations: Instance.from_resource("X") ... evaluate(...)
    n_doc = 0
    for m_ in repo.modules.values():
        if not m_.name.startswith("moptipyapps.qap"):
            continue
        docs = [ast.get_docstring(m_.tree, clean=False) or ""]
        for n_ in ast.walk(m_.tree):
            if isinstance(n_, (ast.FunctionDef, ast.ClassDef)):
                docs.append(ast.get_docstring(n_, clean=False) or "")
        for d in docs:
            if "from_resource" not in d:
                continue
            cur = None
            try:
                exs = doctest.DocTestParser().get_examples(d)
            except ValueError:
                continue
            for ex in exs:
                mm = re.search(r"from_resource\(\s*[\"']([\w]+)[\"']", ex.source)
                if mm:
                    cur = mm.group(1)
                if ".evaluate(" in ex.source and cur is not None:
                    w = ex.want.strip()
                    if w.isdigit() and isinstance(bounds.get(cur), int):
                        n_doc += 1
                        if int(w) < bounds[cur]:
                            problems.append(
                                f"{cur}: {m_.name} documents the objective "
                                f"value {w} of a permutation, below the "
                                f"declared lower bound {bounds[cur]}")
    ctx.count("bound_vs_best_known", n_cmp)
    ctx.count("bound_vs_documented_value", n_doc)
    ok = not problems and bool(bounds)
    ctx.ob("D9.5", None, bnode, ok,
           f"{len(bounds)} declared lower bounds: none is above the "
           f"best-known value of its instance ({n_cmp} compared) or above a "
           f"documented objective value ({n_doc} compared)" if ok else (
               "; ".join(problems) if problems else
               "the bounds table is not recognised"),
           function="_BOUNDS", construct="declared bounds consistent")
