"""C04 - packing validation accepts exactly the feasible packings."""
from __future__ import annotations

import ast
from typing import Any, Callable

from sa import ordenum
from sa.casesplit import Splitter, describe
from sa.cfg import CFG, calls_in
from sa.guards import Exit, GuardWalk, is_opaque
from sa.kern import make_evaluator
from sa.report import Ctx
from sa.srcmodel import FuncInfo, func_body, inline_locals
from sa.symterm import (Env, Evaluator, Poly, Unsupported, _eq, c_and,
                        c_not, c_or, show, show_cond)

MOD = "moptipyapps.binpacking2d.packing_space"


def _passthrough_calls(ev: Evaluator, env: Env, n: ast.Call) -> Any:
    f = n.func
    name = f.id if isinstance(f, ast.Name) else (
        f.attr if isinstance(f, ast.Attribute) else None)
    if name in ("check_int_range", "check_to_int_range") and n.args:
        return ev.expr(env, n.args[0])
    if isinstance(f, ast.Name) and f.id in ("max", "min", "len") and \
            len(n.args) == 1 and not n.keywords:
        try:
            v = ev.expr(env, n.args[0])
        except Unsupported:
            return NotImplemented
        if isinstance(v, Poly):
            return Poly.atom(("app", f"{f.id}_of", (v,)))
    return NotImplemented


class Roles:
    """Names the value terms of the validator by what they denote."""

    def __init__(self, ctx: Ctx, arr: str, inst: str, row: Poly) -> None:
        repo = ctx.repo
        pk = repo.module("moptipyapps.binpacking2d.packing")
        im = repo.module("moptipyapps.binpacking2d.instance")

        def k(mod: Any, nm: str) -> int:
            v = repo.const(mod, ast.Name(id=nm))
            ctx.need(isinstance(v, int), f"constant {mod.name}.{nm}")
            return v

        def c(col: int) -> Poly:
            return Poly.atom(("cell", arr, (row, Poly.const(col))))

        self.id = c(k(pk, "IDX_ID"))
        self.bin = c(k(pk, "IDX_BIN"))
        self.L = c(k(pk, "IDX_LEFT_X"))
        self.B = c(k(pk, "IDX_BOTTOM_Y"))
        self.R = c(k(pk, "IDX_RIGHT_X"))
        self.T = c(k(pk, "IDX_TOP_Y"))
        one = Poly.const(1)
        self.w = Poly.atom(("cell", inst, (self.id - one, Poly.const(
            k(im, "IDX_WIDTH")))))
        self.h = Poly.atom(("cell", inst, (self.id - one, Poly.const(
            k(im, "IDX_HEIGHT")))))
        self.rep_col = k(im, "IDX_REPETITION")
        self.nd = Poly.var(f"{inst}.n_different_items")
        self.ni = Poly.var(f"{inst}.n_items")
        self.W = Poly.var(f"{inst}.bin_width")
        self.H = Poly.var(f"{inst}.bin_height")


def _equiv(ctx: Ctx, fi: FuncInfo, rule: str, clause: str,
           accept: tuple, terms: list[Poly], names: list[str],
           ref: Callable[[ordenum.OrderModel], bool],
           side: Callable[[ordenum.OrderModel], bool] | None,
           node: ast.AST, integer: bool = True) -> None:
    """accept(cond) must equal ref(model) on every weak ordering."""
    n_models = 0
    witness = None
    direction = ""
    try:
        for m in ordenum.enumerate_models(terms, side, integer=integer):
            n_models += 1
            a = m.cond(accept)
            r = ref(m)
            if a != r and witness is None:
                witness = m.describe(names)
                direction = ("validator ACCEPTS although the clause is "
                             "violated" if a else
                             "validator REJECTS although the clause holds")
    except Unsupported as u:
        ctx.ob(rule, fi, node, False,
               f"guards of clause {clause} are not order-abstract: {u}",
               construct=f"clause {clause}")
        return
    ctx.count("orderings_enumerated", n_models)
    ctx.ob(rule, fi, node, witness is None,
           f"clause {clause}: acceptance condition "
           f"[{show_cond(accept)[:160]}] compared with the reference on "
           f"{n_models} weak orderings of ({', '.join(names)})" + (
               "" if witness is None else f"; {direction} for {witness}"),
           construct=f"clause {clause}",
           witness=None if witness is None else {
               "ordering": witness, "direction": direction})


def run(ctx: Ctx) -> None:
    repo = ctx.repo
    ctx.explanation = (
        "The acceptance condition of PackingSpace.validate is reconstructed "
        "from its source (every `if g: raise` inside the row loop, the pair "
        "loop and the tail), grouped by the values compared, and decided "
        "equivalent to the feasibility clauses F2..F10 of the property on "
        "ALL weak orderings of the compared values (integer-aware), i.e. "
        "for every packing up to order-isomorphism. Loop completeness "
        "(all rows, all pairs of one bin) and from_str -> validate "
        "must-pass-through are decided on the AST/CFG. Not decided: value "
        "level text round trip (numpy text conversion).")
    ctx.rule("D4.1", "for each feasibility clause F: (AND of negated raise "
             "guards over F's values) == F on every weak ordering")
    ctx.rule("D4.1L", "row loop covers range(n_items) without early exit; "
             "pair loop covers all other rows of the same bin")
    ctx.rule("D4.1T", "type/instance/dtype/shape checks present and raising")
    ctx.rule("D4.2", "from_str: every path to return passes validate(x) "
             "after x.n_bins is set; same separator as to_str")
    from sa.srcmodel import desugared
    vf = desugared(repo.func(MOD, "PackingSpace.validate"))
    ev = make_evaluator(repo, vf, extra_call=_passthrough_calls)
    ev.int_transparent = True
    ev.compose_rows = True
    gw = GuardWalk(ev)
    env = Env()
    env.vars["self"] = Poly.var("self")
    xname = vf.params[1]
    gw.walk(env, func_body(vf))
    ctx.count("raise_sites", sum(1 for e in gw.exits if e.kind == "raise"))
    ctx.floor("validate_raise_sites", ctx.counters["raise_sites"], 12)

    # ---- locate the row loop: a `for i in range(<inst>.n_items)` whose body
    # reads x[i, ...]
    row_loop = None
    for n in ast.walk(vf.node):
        if isinstance(n, ast.For) and isinstance(n.target, ast.Name):
            uses = any(isinstance(s, ast.Subscript) and isinstance(
                s.value, ast.Name) and s.value.id == xname
                for s in ast.walk(n))
            if uses and row_loop is None:
                row_loop = n
    ctx.need(row_loop, "validate: loop over the rows of the packing")
    ivar = row_loop.target.id
    lenv = gw.loop_envs[id(row_loop)]
    inst_name = None
    for nm, v in lenv.vars.items():
        at = v.as_atom() if isinstance(v, Poly) else None
        if at and at[0] == "var" and at[1].endswith(".instance") and \
                at[1].startswith("self"):
            inst_name = at[1]
    ctx.need(inst_name, "validate: alias of self.instance")
    R = Roles(ctx, xname, inst_name, Poly.var(ivar))

    # ---- loop completeness (D4.1L) ------------------------------------
    def is_full_range(it: ast.expr, e: Env) -> bool:
        if not (isinstance(it, ast.Call) and isinstance(
                it.func, ast.Name) and it.func.id == "range"):
            return False
        try:
            args = [ev.num(e, a) for a in it.args]
        except Unsupported:
            return False
        # len(x) is n_items: validate rejects any other shape first (F1)
        args = [R.ni if isinstance(a, Poly) and show(a) in (
            f"len({xname})", f"len_of({xname})") else a for a in args]
        if len(args) == 1:
            return args[0] == R.ni
        if len(args) == 2:
            return args[0] == Poly.const(0) and args[1] == R.ni
        return False

    ctx.ob("D4.1L", vf, row_loop, is_full_range(row_loop.iter, lenv),
           f"row loop iterates `{ast.unparse(row_loop.iter)}`; must be "
           "range(n_items)", construct="row loop range")
    row_exits = [e for e in gw.exits if row_loop in e.loops]
    pair_loop = None
    for n in row_loop.body:
        if isinstance(n, ast.For):
            pair_loop = n
    early = [e for e in row_exits if e.kind in ("break", "return") or (
        e.kind == "continue" and (pair_loop is None
                                  or pair_loop not in e.loops))]
    ctx.ob("D4.1L", vf, early[0].node if early else row_loop, not early,
           "no break/return/continue leaves the row loop early" if not early
           else f"early exit `{ast.unparse(early[0].node)}` skips checks",
           construct="row loop early exit")

    # ---- group the row-level guards by the values they compare ---------
    groups = {
        "F2 id in 1..n_different": [R.id, R.nd, Poly.const(0), Poly.const(1)],
        "F3 bin in 1..n_items": [R.bin, R.ni, Poly.const(0), Poly.const(1)],
        "F4/F5 proper rectangle inside the bin":
            [R.L, R.B, R.R, R.T, Poly.const(0), R.W, R.H],
        "F6 item dimensions (plain or rotated)":
            [R.R - R.L, R.T - R.B, R.w, R.h],
    }
    matched: dict[str, list[Exit]] = {g: [] for g in groups}
    unmatched: list[Exit] = []
    for e in row_exits:
        if e.kind != "raise" or (pair_loop is not None
                                 and pair_loop in e.loops):
            continue
        if is_opaque(e.cond):
            unmatched.append(e)
            continue
        ts = ordenum.cond_terms(e.cond)
        hit = None
        for g, terms in groups.items():
            if ts and all(t in terms or (t.const_value() is not None)
                          for t in ts) and any(t in terms and
                                               t.const_value() is None
                                               for t in ts):
                hit = g
                break
        if hit is None:
            unmatched.append(e)
        else:
            matched[hit].append(e)
    for e in unmatched:
        ctx.notes.append(
            f"row-level raise at line {e.node.lineno} guards on values "
            "outside the clause tables; not decided (an over-strict extra "
            "check is outside the decided part)")
    ctx.count("unmatched_row_guards", len(unmatched))

    def accept_of(es: list[Exit]) -> tuple:
        return c_and(*[c_not(e.cond) for e in es])
    # a clause without any recognised guard, while some raising guard of
    # the row loop could not be normalised, is not decided (the guard may
    # be exactly that clause in a spelling outside the term language)
    opaque_rows = [e for e in unmatched if is_opaque(e.cond)]

    def node_of(es: list[Exit]) -> ast.AST:
        return es[0].test or es[0].node if es else row_loop

    for g_ in groups:
        if not matched[g_] and opaque_rows:
            e0 = opaque_rows[0]
            ctx.ob("D4.1", vf, e0.test or e0.node, False,
                   f"clause {g_}: cannot normalise the raising guard "
                   f"`{ast.unparse(e0.test)[:80] if e0.test else '?'}` and "
                   "no other guard checks this clause",
                   construct=f"clause {g_}")
    decided = {g_ for g_ in groups if matched[g_] or not opaque_rows}
    g = "F2 id in 1..n_different"
    t = groups[g]
    if g in decided:
        _equiv(ctx, vf, "D4.1", g, accept_of(matched[g]), t,
               ["id", "n_different", "0", "1"],
               lambda m: m.rank(t[3]) <= m.rank(t[0]) <= m.rank(t[1]),
               None, node_of(matched[g]))
    g = "F3 bin in 1..n_items"
    t3 = groups[g]
    if g in decided:
        _equiv(ctx, vf, "D4.1", g, accept_of(matched[g]), t3,
               ["bin", "n_items", "0", "1"],
               lambda m: m.rank(t3[3]) <= m.rank(t3[0]) <= m.rank(t3[1]),
               None, node_of(matched[g]))
    g = "F4/F5 proper rectangle inside the bin"
    t5 = groups[g]

    def f45(m: ordenum.OrderModel) -> bool:
        L, B, Rr, T, Z, W, H = (m.rank(x) for x in t5)
        return L < Rr and B < T and Z <= L and Z <= B and Rr <= W and T <= H
    if g in decided:
        _equiv(ctx, vf, "D4.1", g, accept_of(matched[g]), t5,
               ["L", "B", "R", "T", "0", "W", "H"], f45, None,
               node_of(matched[g]))
    g = "F6 item dimensions (plain or rotated)"
    t6 = groups[g]

    def f6(m: ordenum.OrderModel) -> bool:
        rw, rh, w, h = (m.rank(x) for x in t6)
        return (rw == w and rh == h) or (rw == h and rh == w)
    if g in decided:
        _equiv(ctx, vf, "D4.1", g, accept_of(matched[g]), t6,
               ["real_width", "real_height", "width", "height"], f6, None,
               node_of(matched[g]), integer=False)

    _pair_clause(ctx, vf, ev, gw, R, row_loop, pair_loop, xname, inst_name,
                 is_full_range)
    _tail_clauses(ctx, vf, gw, R, row_loop, xname, inst_name)
    _type_clauses(ctx, vf, xname)
    _from_str(ctx)
    ctx.exhaustive = True
    ctx.assumptions += [
        "integers: no value lies strictly between two consecutive integer "
        "constants (int() of an integer array element is the identity)",
        "check_int_range(v, ...) returns v or raises",
    ]


def _pair_clause(ctx: Ctx, vf: FuncInfo, ev: Evaluator, gw: GuardWalk,
                 R: Roles, row_loop: ast.For, pair_loop: ast.For | None,
                 xname: str, inst: str, is_full_range: Any) -> None:
    g = "F7 no overlap inside a bin"
    if pair_loop is None or not isinstance(pair_loop.target, ast.Name):
        ctx.ob("D4.1", vf, row_loop, False,
               "no loop over the other rows of the packing: overlap is "
               "never tested", construct=f"clause {g}")
        return
    jvar = pair_loop.target.id
    penv = gw.loop_envs[id(pair_loop)]
    R2 = Roles(ctx, xname, inst, Poly.var(jvar))
    it = pair_loop.iter
    ivar = Poly.var(row_loop.target.id)
    full = is_full_range(it, penv)
    half = False
    if not full and isinstance(it, ast.Call) and isinstance(
            it.func, ast.Name) and it.func.id == "range":
        try:
            a = [ev.num(penv, x) for x in it.args]
            half = (len(a) == 1 and a[0] == ivar) or (
                len(a) == 2 and a[0] == ivar + Poly.const(1)
                and a[1] == R.ni)
        except Unsupported:
            half = False
    ctx.ob("D4.1L", vf, pair_loop, full or half,
           f"pair loop iterates `{ast.unparse(it)}`: "
           + ("all rows" if full else "one triangle (complete by symmetry "
              "of the overlap test)" if half else "NOT all other rows"),
           construct="pair loop range")
    exits = [e for e in gw.exits if pair_loop in e.loops]
    early = [e for e in exits if e.kind in ("break", "return")]
    ctx.ob("D4.1L", vf, early[0].node if early else pair_loop, not early,
           "pair loop has no break/return" if not early else
           f"`{ast.unparse(early[0].node)}` leaves the pair loop early",
           construct="pair loop early exit")
    raises = [e for e in exits if e.kind == "raise"]
    jv = Poly.var(jvar)
    node = (raises[0].test or raises[0].node) if raises else pair_loop
    if any(is_opaque(e.path) for e in raises) or not raises:
        ctx.ob("D4.1", vf, node, False,
               "the condition under which a pair of rows is rejected "
               "cannot be normalised" if raises else
               "no pair of rows is ever rejected",
               construct=f"clause {g}")
        return
    # the pair (i, j) is rejected iff some raise of the pair loop is reached
    # (its guard and the negations of the exits before it - `continue`
    # guards and enclosing `if`s alike)
    rejected = c_or(*[e.path for e in raises])
    same_bin = _eq(R.bin, R2.bin)
    same_row = _eq(ivar, jv)
    overlap = ("and", ("lt", R2.L, R.R), ("lt", R.L, R2.R),
               ("lt", R2.B, R.T), ("lt", R.B, R2.T))
    side = [("lt", R.L, R.R), ("lt", R.B, R.T), ("lt", R2.L, R2.R),
            ("lt", R2.B, R2.T)]
    # packing coordinates are integers (P2): `a <= b` is the complement of
    # `b < a`, which the real-valued mode does not prune
    sp = Splitter(integer=True)
    facts0: list[Any] = []
    for c_ in side:
        facts0 += sp.facts_of(c_, True)[0]
    n_cases = 0
    bad_skip = bad_ov = None
    try:
        for facts, (rj, sb, sr, ov), trail in sp.cases(
                (rejected, same_bin, same_row, overlap), facts0):
            n_cases += 1
            relevant = sb == ("true",) and sr == ("false",)
            if not relevant:
                if rj == ("true",) and bad_skip is None:
                    bad_skip = (f"[{describe(trail)[:200]}] a pair in "
                                "different bins (or a row with itself) is "
                                "rejected")
                continue
            if rj != ov:
                if ov == ("true",) and bad_ov is None:
                    bad_ov = (f"[{describe(trail)[:240]}] validator ACCEPTS "
                              "although two boxes of one bin overlap")
                elif ov != ("true",) and bad_skip is None and \
                        bad_ov is None:
                    bad_ov = (f"[{describe(trail)[:240]}] validator REJECTS "
                              "although the clause holds")
    except Unsupported as u:
        bad_ov = f"guards of clause {g} cannot be case-split: {u}"
    ctx.count("orderings_enumerated", n_cases)
    ctx.ob("D4.1", vf, node, bad_skip is None,
           "clause F7 pairs skipped = other bin or same row: only pairs of "
           "distinct rows of the same bin are ever rejected"
           if bad_skip is None else bad_skip,
           construct="clause F7 pairs skipped = other bin or same row")
    ctx.ob("D4.1", vf, node, bad_ov is None and n_cases > 0,
           f"clause {g}: on all {n_cases} outcomes of the comparisons a "
           "pair of distinct rows of one bin is rejected iff the two boxes "
           "overlap (L2 < R and L < R2 and B2 < T and B < T2)"
           if bad_ov is None else bad_ov, construct=f"clause {g}",
           witness=None if bad_ov is None else {"case": bad_ov})


def _strip(cond: tuple, skip: tuple) -> tuple:
    """Exit conditions inside a loop body are recorded without the negated
    earlier exits, so nothing needs stripping; kept for clarity."""
    del skip
    return cond


def _tail_clauses(ctx: Ctx, vf: FuncInfo, gw: GuardWalk, R: Roles,
                  row_loop: ast.For, xname: str, inst: str) -> None:
    # --- which containers are fed once per row? -------------------------
    counter_name = None
    set_name = None
    for s in row_loop.body:     # top level of the row loop = unconditional
        if isinstance(s, ast.AugAssign) and isinstance(
                s.target, ast.Subscript) and isinstance(
                s.target.value, ast.Name) and isinstance(s.op, ast.Add) \
                and isinstance(s.value, ast.Constant) and s.value.value == 1:
            counter_name = (s.target.value.id, s.target.slice)
        if isinstance(s, ast.Assign) and len(s.targets) == 1 and isinstance(
                s.targets[0], ast.Subscript) and isinstance(
                s.targets[0].value, ast.Name) and isinstance(
                s.value, ast.BinOp) and isinstance(s.value.op, ast.Add):
            # c[k] = c[k] + 1  /  c[k] = 1 + c[k]
            tgt = ast.dump(s.targets[0]).replace("Store()", "Load()")
            l_, r_ = s.value.left, s.value.right
            if (ast.dump(l_) == tgt and isinstance(r_, ast.Constant)
                    and r_.value == 1) or (
                    ast.dump(r_) == tgt and isinstance(l_, ast.Constant)
                    and l_.value == 1):
                counter_name = (s.targets[0].value.id, s.targets[0].slice)
        if isinstance(s, ast.Expr) and isinstance(s.value, ast.Call) and \
                isinstance(s.value.func, ast.Attribute) and \
                s.value.func.attr == "add" and isinstance(
                s.value.func.value, ast.Name) and len(s.value.args) == 1:
            set_name = (s.value.func.value.id, s.value.args[0])
    lenv = gw.loop_envs[id(row_loop)]
    # evaluate keys at the end of the row loop body: use final names
    g8 = "F8 multiplicities"
    ok8 = False
    detail8 = "no per-row counter `c[id] += 1` at the top level of the " \
              "row loop"
    node8: ast.AST = row_loop
    tail_exits = [e for e in gw.exits if row_loop not in e.loops]
    from sa.guards import opaque_note
    tail_note = opaque_note(tail_exits)
    if tail_note:
        detail8 = tail_note + "multiplicities are not decided"
    if counter_name is not None:
        cname, key = counter_name
        # the key must be the id of the row
        key_ok = _names_value(gw, row_loop, key, R.id)
        # a later loop over cname.items() with a raising inequality
        for e in tail_exits:
            if e.kind != "raise" or not e.loops or is_opaque(e.cond):
                continue
            lp = e.loops[-1]
            if not (isinstance(lp, ast.For) and isinstance(
                    lp.iter, ast.Call) and isinstance(
                    lp.iter.func, ast.Attribute) and
                    lp.iter.func.attr == "items" and isinstance(
                    lp.iter.func.value, ast.Name) and
                    lp.iter.func.value.id == cname and isinstance(
                    lp.target, ast.Tuple) and len(lp.target.elts) == 2):
                continue
            kv, cv = (Poly.var(t.id) for t in lp.target.elts)
            should = Poly.atom(("cell", inst, (kv - Poly.const(1),
                                               Poly.const(R.rep_col))))
            terms = [should, cv]
            node8 = e.test or e.node
            bad = None
            try:
                for m in ordenum.enumerate_models(terms):
                    if m.cond(c_not(e.cond)) != (
                            m.rank(should) == m.rank(cv)):
                        bad = m.describe(["prescribed", "counted"])
            except Unsupported as u:
                bad = f"guard compares other values ({u})"
            ok8 = key_ok and bad is None
            detail8 = (f"counter `{cname}` is incremented once per row under "
                       f"key {'= row id' if key_ok else 'NOT the row id'}; "
                       "tail loop over its items raises unless counted == "
                       "prescribed repetition" + (
                           f"; differs for {bad}" if bad else "")
                       + "; complete by counting: rows number n_items = sum "
                       "of prescribed repetitions (F1 shape), so a missing "
                       "id forces another id over quota")
    ctx.ob("D4.1", vf, node8, ok8, detail8, construct=f"clause {g8}")

    g9 = "F9 bins contiguous from 1"
    g10 = "F10 n_bins equals number of bins"
    ok9 = ok10 = False
    d9 = d10 = "no set collecting the bin id of every row"
    n9: ast.AST = row_loop
    n10: ast.AST = row_loop
    if set_name is not None:
        sname, arg = set_name
        arg_ok = _names_value(gw, row_loop, arg, R.bin)
        d9 = d10 = f"`{sname}.add(...)` does not receive the row's bin id"
        if arg_ok:
            d9 = tail_note + "no raising guard over min/max/len of the " \
                "bin set"
            d10 = tail_note + "no raising guard comparing n_bins with " \
                "the bin count"
            for e in tail_exits:
                if e.kind != "raise" or e.loops or is_opaque(e.cond):
                    continue
                ts = ordenum.cond_terms(e.cond)
                apps = {a[1] for t in ts for a in _atoms(t)
                        if a[0] == "app"}
                nb = Poly.var(f"{xname}.n_bins")
                if nb in ts and "len_of" in apps:
                    cnt = next(t for t in ts if t != nb)
                    bad = None
                    try:
                        for m in ordenum.enumerate_models([nb, cnt]):
                            if m.cond(c_not(e.cond)) != (
                                    m.rank(nb) == m.rank(cnt)):
                                bad = m.describe(["n_bins", "len(bins)"])
                    except Unsupported as u:
                        bad = f"guard compares other values ({u})"
                    ok10 = bad is None
                    n10 = e.test or e.node
                    d10 = ("raise unless x.n_bins == len(bins)" + (
                        f"; differs for {bad}" if bad else ""))
                elif "min_of" in apps:
                    n9 = e.test or e.node
                    ok9, d9 = _contiguous(e.cond, ts)
    ctx.ob("D4.1", vf, n9, ok9, d9, construct=f"clause {g9}")
    ctx.ob("D4.1", vf, n10, ok10, d10, construct=f"clause {g10}")


def _atoms(p: Poly) -> set:
    from sa.symterm import all_atoms
    return all_atoms(p)


def _contiguous(cond: tuple, ts: list[Poly]) -> tuple[bool, str]:
    """Accept iff min==1 and (max-min+1==len  or  max==len)."""
    mn = mx = ln = None
    for t in ts:
        for a in _atoms(t):
            if a[0] == "app" and a[1] == "min_of":
                mn = Poly.atom(a)
            if a[0] == "app" and a[1] == "max_of":
                mx = Poly.atom(a)
            if a[0] == "app" and a[1] == "len_of":
                ln = Poly.atom(a)
    if mn is None or mx is None or ln is None:
        return False, "guard does not relate min, max and len of the bin set"
    one = Poly.const(1)
    from sa.casesplit import equivalent
    ref = ("and", _eq(mn, one), _eq(mx - mn + one, ln))
    same, why = equivalent(c_not(cond), ref)
    if same:
        return True, ("raise unless min(bins) == 1 and the id span "
                      "equals the number of distinct bins")
    return False, f"contiguity guard differs from the clause: {why[:200]}"


def _names_value(gw: GuardWalk, loop: ast.For, expr: ast.expr,
                 want: Poly) -> bool:
    """Does `expr`, evaluated with the bindings at the end of the row loop's
    straight-line prefix, denote `want`?"""
    env = gw.loop_envs[id(loop)].copy()
    # replay the top-level simple statements of the loop body
    for s in loop.body:
        if isinstance(s, (ast.Assign, ast.AnnAssign)):
            try:
                gw.ev.stmt(env, s)
            except Unsupported:
                pass
    try:
        return gw.ev.expr(env, expr) == want
    except Unsupported:
        return False


def _type_clauses(ctx: Ctx, vf: FuncInfo, xname: str) -> None:
    """F1: isinstance / instance identity / dtype / shape raise-guards."""
    cfg = CFG(vf.node)
    want = {
        "isinstance(x, Packing)": False,
        "x.instance is the space's instance": False,
        "x.dtype is the instance's dtype": False,
        "x.shape == (n_items, 6)": False,
    }
    for s in func_body(vf):
        if not (isinstance(s, ast.If) and s.body and isinstance(
                s.body[-1], ast.Raise)):
            continue
        t = s.test
        src = ast.unparse(t)
        neg = isinstance(t, ast.UnaryOp) and isinstance(t.op, ast.Not)
        if neg and isinstance(t.operand, ast.Call) and isinstance(
                t.operand.func, ast.Name) and \
                t.operand.func.id == "isinstance" and \
                isinstance(t.operand.args[0], ast.Name) and \
                t.operand.args[0].id == xname and \
                ast.unparse(t.operand.args[1]) == "Packing":
            want["isinstance(x, Packing)"] = True
        if isinstance(t, ast.Compare) and len(t.ops) == 1 and isinstance(
                t.ops[0], (ast.IsNot, ast.NotEq)):
            # temporaries (`x_dtype = x.dtype`) are looked through
            t = ast.Compare(left=inline_locals(vf.node, t.left), ops=t.ops,
                            comparators=[inline_locals(
                                vf.node, t.comparators[0])])
            sides = {ast.unparse(t.left), ast.unparse(t.comparators[0])}
            if f"{xname}.instance" in sides and len(sides) == 2:
                want["x.instance is the space's instance"] = True
            if f"{xname}.dtype" in sides and any(
                    x.endswith(".dtype") and x != f"{xname}.dtype"
                    for x in sides):
                want["x.dtype is the instance's dtype"] = True
            if f"{xname}.shape" in sides and isinstance(
                    t.ops[0], ast.NotEq):
                other_n = t.left if ast.unparse(
                    t.comparators[0]) == f"{xname}.shape" \
                    else t.comparators[0]
                from sa.srcmodel import fold_consts
                shape_src = ast.unparse(fold_consts(
                    ctx.repo, vf.module, inline_locals(vf.node, other_n)))
                if shape_src.replace(" ", "").endswith(".n_items,6)"):
                    want["x.shape == (n_items, 6)"] = True
        del src
    del cfg
    for what, ok in want.items():
        ctx.ob("D4.1T", vf, vf.node, ok,
               f"F1: raising guard for `{what}` "
               + ("present" if ok else "MISSING or not raising"),
               construct=f"F1 {what}", nontrivial=False)


def _from_str(ctx: Ctx) -> None:
    repo = ctx.repo
    fs = repo.func(MOD, "PackingSpace.from_str")
    ts = repo.func(MOD, "PackingSpace.to_str")
    cfg = CFG(fs.node)

    def is_validate(n: Any) -> bool:
        return any(isinstance(c.func, ast.Attribute) and c.func.attr ==
                   "validate" and isinstance(c.func.value, ast.Name) and
                   c.func.value.id == "self" for c in calls_in(n.ast)
                   ) if n.kind in ("stmt", "test") else False

    def sets_nbins(n: Any) -> bool:
        a = n.ast
        return n.kind == "stmt" and isinstance(a, (ast.Assign,
                                                   ast.AnnAssign)) and any(
            isinstance(t, ast.Attribute) and t.attr == "n_bins"
            for t in (a.targets if isinstance(a, ast.Assign)
                      else [a.target]))
    rets = cfg.find(lambda n: n.kind == "stmt" and isinstance(
        n.ast, ast.Return))
    ctx.need(rets, "from_str has a return")
    for r in rets:
        v = r.ast.value
        ok = cfg.dominated_by(r, is_validate)
        arg_ok = False
        for n in cfg.find(is_validate):
            for c in calls_in(n.ast):
                va = c.args[0] if c.args else next(
                    (k_.value for k_ in c.keywords if k_.arg == "x"), None)
                if isinstance(c.func, ast.Attribute) and \
                        c.func.attr == "validate" and va is not None and \
                        isinstance(v, ast.Name) and isinstance(
                        va, ast.Name) and va.id == v.id:
                    arg_ok = True
        ctx.ob("D4.2", fs, r.ast, ok and arg_ok,
               "every path to this return passes self.validate(<returned "
               "object>)" if ok and arg_ok else
               "a path reaches this return without validating the parsed "
               "packing", construct="return dominated by validate")
    for n in cfg.find(is_validate):
        ok = cfg.dominated_by(n, sets_nbins)
        ctx.ob("D4.2", fs, n.ast, ok,
               "n_bins is assigned before validate on every path" if ok
               else "validate may run before n_bins is set",
               construct="n_bins set before validate")
    # the value assigned to n_bins is the maximum of the bin column
    pk = repo.module("moptipyapps.binpacking2d.packing")
    idx_bin = repo.const(pk, ast.Name(id="IDX_BIN"))
    ok_max = False
    nn: ast.AST = fs.node
    for n in ast.walk(fs.node):
        if isinstance(n, ast.Assign) and any(
                isinstance(t, ast.Attribute) and t.attr == "n_bins"
                for t in n.targets):
            nn = n
            val_ = inline_locals(fs.node, n.value)
            has_max = any(
                isinstance(c, ast.Call) and (
                    (isinstance(c.func, ast.Attribute)
                     and c.func.attr == "max")
                    or (isinstance(c.func, ast.Name) and c.func.id == "max"))
                for c in ast.walk(val_))
            col = any(
                isinstance(sb, ast.Subscript) and isinstance(
                    sb.slice, ast.Tuple) and len(sb.slice.elts) == 2
                and isinstance(sb.slice.elts[0], ast.Slice)
                and sb.slice.elts[0].lower is None
                and sb.slice.elts[0].upper is None
                and repo.const(fs.module, sb.slice.elts[1]) == idx_bin
                for sb in ast.walk(val_))
            ok_max = has_max and col and idx_bin is not None
    ctx.ob("D4.2", fs, nn, ok_max,
           "n_bins := maximum of the bin column (validate then enforces "
           "contiguity, hence = number of bins)",
           construct="n_bins value")
    from sa.checks.c19 import _parses_into_fresh
    okp = _parses_into_fresh(fs)
    bounded = [c for c in ast.walk(fs.node) if isinstance(c, ast.Call)
               and ast.unparse(c.func) in ("np.fromstring", "np.fromiter",
                                           "np.loadtxt")
               and any(k.arg in ("count", "max_rows") and ast.unparse(
                   k.value) != "-1" for k in c.keywords)]
    if bounded:
        ctx.ob("D4.2", fs, bounded[0], False,
               f"`{ast.unparse(bounded[0])[:90]}` stops after a fixed "
               "number of values: a text with more values than the packing "
               "has cells is cut off silently instead of being rejected by "
               "the reshape", construct="parse reads the whole text")
    ctx.ob("D4.2", fs, fs.node, okp or bool(bounded),
           "the text is parsed with the packing's dtype and the writer's "
           "separator into a freshly created packing of the space's shape, "
           "which is what is returned" if okp else
           "from_str does not parse `np.fromstring(text, dtype=x.dtype, "
           "sep=CSV_SEPARATOR).reshape(x.shape)` into a fresh packing that "
           "it returns", construct="parse into a fresh packing")
    # same separator on both sides
    def seps(fi: FuncInfo) -> set[str]:
        out = set()
        for n in ast.walk(fi.node):
            if isinstance(n, ast.Name) and n.id.endswith("SEPARATOR"):
                out.add(n.id)
        return out
    a, b = seps(fs), seps(ts)
    ctx.ob("D4.2", fs, fs.node, bool(a) and a == b,
           f"to_str joins with {sorted(b)}, from_str splits on {sorted(a)}",
           construct="separator agreement")
    # dtype / shape of the parse target
    ret_names = {r.ast.value.id for r in rets
                 if isinstance(r.ast.value, ast.Name)}
    dt = any(isinstance(c, ast.Call) and any(
        kw.arg == "dtype" and isinstance(kw.value, ast.Attribute)
        and kw.value.attr == "dtype" and isinstance(kw.value.value, ast.Name)
        and kw.value.value.id in ret_names for kw in c.keywords)
        for c in ast.walk(fs.node))
    def _shape_of_ret(e: ast.expr) -> bool:
        e = inline_locals(fs.node, e, keep=ret_names)
        return isinstance(e, ast.Attribute) and e.attr == "shape" and \
            isinstance(e.value, ast.Name) and e.value.id in ret_names
    sh = any(isinstance(c, ast.Call) and (
        (isinstance(c.func, ast.Attribute) and c.func.attr == "reshape"
         and len(c.args) == 1 and _shape_of_ret(c.args[0]))
        or (ast.unparse(c.func) == "np.reshape" and len(c.args) == 2
            and _shape_of_ret(c.args[1])))
        for c in ast.walk(fs.node))
    cr = any(isinstance(n, (ast.Assign, ast.AnnAssign)) and isinstance(
        n.value, ast.Call) and isinstance(n.value.func, ast.Attribute)
        and n.value.func.attr == "create" and isinstance(
            n.targets[0] if isinstance(n, ast.Assign) else n.target,
            ast.Name) and (n.targets[0] if isinstance(n, ast.Assign)
                           else n.target).id in ret_names
        for n in ast.walk(fs.node))
    ctx.ob("D4.2", fs, fs.node, dt and sh and cr,
           "parsed numbers are converted with the packing's own dtype and "
           "shape into an object made by self.create()",
           construct="parse target dtype/shape", nontrivial=False)
