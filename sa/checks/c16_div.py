"""D16.10: every division in a controller / system kernel is protected by a
zero test of its own divisor.

A blueprint "returns the value of its documented function for every state,
time and parameter vector" only if it returns at all: numba's default error
model raises ZeroDivisionError on `x / 0.0`.  The kernels that divide
(`predefined.py`) select a constant instead of the quotient when the divisor
is zero; the rule checks, path by path and by *value* (locals are replaced
by what they hold at that point, so a re-used temporary `b` is followed
correctly), that the test which selects the quotient is a test of the very
expression the quotient divides by.

definite finding : a divisor that is zero for the all-zero state / parameter
                   vector (inside every parameter space) reaches a division
                   on a path without a test that excludes zero
undecided        : an unguarded divisor whose value at zero is not zero or
                   cannot be computed
"""
from __future__ import annotations

import ast
import copy
from typing import Any

from sa.pathinline import Path, _split_ifexp, _stmt, subst
from sa.report import Ctx
from sa.srcmodel import FuncInfo, fold_consts, func_body

_DIV = (ast.Div, ast.FloorDiv, ast.Mod)
_ZERO_AT_ZERO = {"tanh", "sin", "arctan", "atan", "sinh", "arcsin", "asin",
                 "abs", "fabs", "sqrt", "float", "int", "tan", "arctanh"}
_ONE_AT_ZERO = {"exp", "cos", "cosh"}


def _num(e: ast.expr) -> float | None:
    if isinstance(e, ast.Constant) and isinstance(
            e.value, (int, float)) and not isinstance(e.value, bool):
        return float(e.value)
    if isinstance(e, ast.UnaryOp) and isinstance(e.op, ast.USub):
        v = _num(e.operand)
        return -v if v is not None else None
    return None


def _at_zero(e: ast.expr) -> float | None:
    """Value of `e` when every array cell and scalar input is 0."""
    v = _num(e)
    if v is not None:
        return v
    if isinstance(e, (ast.Name, ast.Subscript, ast.Attribute)):
        return 0.0
    if isinstance(e, ast.UnaryOp) and isinstance(e.op, (ast.USub, ast.UAdd)):
        v = _at_zero(e.operand)
        return None if v is None else (-v if isinstance(
            e.op, ast.USub) else v)
    if isinstance(e, ast.BinOp):
        a, b = _at_zero(e.left), _at_zero(e.right)
        if isinstance(e.op, ast.Mult):
            if a == 0.0 or b == 0.0:
                return 0.0
            return a * b if a is not None and b is not None else None
        if a is None or b is None:
            return None
        if isinstance(e.op, ast.Add):
            return a + b
        if isinstance(e.op, ast.Sub):
            return a - b
        if isinstance(e.op, ast.Pow) and b > 0:
            return a ** b if a >= 0 or b == int(b) else None
        return None
    if isinstance(e, ast.Call):
        fn = e.func.attr if isinstance(e.func, ast.Attribute) else (
            e.func.id if isinstance(e.func, ast.Name) else None)
        if fn in _ZERO_AT_ZERO and len(e.args) == 1:
            return 0.0 if _at_zero(e.args[0]) == 0.0 else None
        if fn in _ONE_AT_ZERO and len(e.args) == 1:
            return 1.0 if _at_zero(e.args[0]) == 0.0 else None
    return None


def _strip_abs(e: ast.expr) -> ast.expr:
    if isinstance(e, ast.Call) and len(e.args) == 1 and (
            (isinstance(e.func, ast.Name) and e.func.id in ("abs", "fabs"))
            or (isinstance(e.func, ast.Attribute)
                and e.func.attr in ("abs", "fabs", "absolute"))):
        return e.args[0]
    return e


def _excludes_zero(test: ast.expr, truth: bool, d_txt: str) -> bool:
    """Does the outcome `truth` of `test` imply that the expression whose
    source is `d_txt` is not zero?"""
    if isinstance(test, ast.UnaryOp) and isinstance(test.op, ast.Not):
        return _excludes_zero(test.operand, not truth, d_txt)
    if isinstance(test, ast.BoolOp):
        if isinstance(test.op, ast.And) and truth:
            return any(_excludes_zero(v, True, d_txt) for v in test.values)
        if isinstance(test.op, ast.Or) and not truth:
            return any(_excludes_zero(v, False, d_txt) for v in test.values)
        return False
    if not (isinstance(test, ast.Compare) and len(test.ops) == 1):
        # truthiness of the divisor itself
        return truth and ast.unparse(test) == d_txt
    lhs, op, rhs = test.left, test.ops[0], test.comparators[0]
    c = _num(rhs)
    if c is None:
        c2 = _num(lhs)
        if c2 is None:
            return False
        flip = {ast.Lt: ast.Gt, ast.Gt: ast.Lt, ast.LtE: ast.GtE,
                ast.GtE: ast.LtE, ast.Eq: ast.Eq, ast.NotEq: ast.NotEq}
        if type(op) not in flip:
            return False
        lhs, op, c = rhs, flip[type(op)](), c2
    is_abs = _strip_abs(lhs) is not lhs
    if ast.unparse(_strip_abs(lhs)) != d_txt:
        return False
    # the set of values of lhs on this outcome must not contain 0
    kind = type(op)
    if not truth:
        neg = {ast.Lt: ast.GtE, ast.GtE: ast.Lt, ast.Gt: ast.LtE,
               ast.LtE: ast.Gt, ast.Eq: ast.NotEq, ast.NotEq: ast.Eq}
        if kind not in neg:
            return False
        kind = neg[kind]
    if kind is ast.NotEq:
        return c == 0.0
    if kind is ast.Eq:
        return c != 0.0
    if kind is ast.Gt:
        return c >= 0.0
    if kind is ast.GtE:
        return c > 0.0
    if is_abs:
        return False
    if kind is ast.Lt:
        return c <= 0.0
    if kind is ast.LtE:
        return c < 0.0
    return False


class _Walker:
    def __init__(self, ctx: Ctx, k: FuncInfo) -> None:
        self.ctx = ctx
        self.k = k
        #: parameters and locals: what a divisor must depend on to be able
        #: to become zero for some input
        self.inputs = set(k.params) | {
            n.id for n in ast.walk(k.node) if isinstance(n, ast.Name)
            and isinstance(n.ctx, ast.Store)}
        self.n_div = 0
        self.n_guarded = 0
        self.bad: list[tuple[ast.AST, str, bool]] = []

    def _check_expr(self, e: ast.expr | None, env: dict, guards: tuple,
                    node: ast.AST) -> None:
        if e is None:
            return
        for n in ast.walk(e):
            if not (isinstance(n, ast.BinOp) and isinstance(n.op, _DIV)):
                continue
            d = subst(n.right, env)
            d = fold_consts(self.ctx.repo, self.k.module, d)
            c = _num(d)
            if c is not None and c != 0.0:
                continue
            if c is None and not any(
                    isinstance(x, ast.Name) and x.id in self.inputs
                    for x in ast.walk(d)):
                # a module-level constant such as the golden ratio: does
                # not depend on the state / the parameters (a zero constant
                # would fail every call, which the tests do settle)
                continue
            self.n_div += 1
            d_txt = ast.unparse(d)
            if c is None and any(_excludes_zero(fold_consts(
                    self.ctx.repo, self.k.module, t), tr, d_txt)
                    for t, tr in guards):
                self.n_guarded += 1
                continue
            z = 0.0 if c is not None else _at_zero(d)
            tests = [ast.unparse(t) + ("" if tr else " is false")
                     for t, tr in guards
                     if any(isinstance(x, ast.Compare)
                            for x in ast.walk(t))]
            where = (" on the path [" + "; ".join(tests)[:160] + "]"
                     if tests else "")
            if z == 0.0:
                self.bad.append((node, (
                    f"`{ast.unparse(n)[:70]}` divides by `{d_txt[:70]}`, "
                    f"which is 0 for the all-zero state and parameter "
                    f"vector, without a test of that value{where}: the "
                    "controller raises instead of returning"), True))
            else:
                self.bad.append((node, (
                    f"cannot normalise the divisor `{d_txt[:70]}` of "
                    f"`{ast.unparse(n)[:60]}`: not recognised as guarded "
                    f"or non-zero{where}"), False))

    def run(self, stmts: list[ast.stmt], start: Path) -> list[Path]:
        cur = [start]
        for s in stmts:
            nxt: list[Path] = []
            for p in cur:
                if p.ended:
                    nxt.append(p)
                    continue
                nxt += self.stmt(p, s)
            cur = nxt
            if len(cur) > 512:
                raise ValueError("too many paths")
        return cur

    def stmt(self, p: Path, s: ast.stmt) -> list[Path]:
        if isinstance(s, ast.If):
            test = subst(s.test, p.env)
            self._check_expr(s.test, p.env, p.guards, s)
            out: list[Path] = []
            for truth, body in ((True, s.body), (False, s.orelse)):
                q = p.fork()
                q.guards = p.guards + ((test, truth),)
                out += self.run(body, q)
            return out
        if isinstance(s, (ast.For, ast.While)):
            assigned = {n.id for n in ast.walk(s) if isinstance(n, ast.Name)
                        and isinstance(n.ctx, ast.Store)}

            def keep(g: tuple) -> bool:
                return not any(isinstance(x, ast.Name) and x.id in assigned
                               for x in ast.walk(g[0]))
            q = p.fork()
            for a in assigned:
                q.env.pop(a, None)
            q.env = {k_: v for k_, v in q.env.items() if not any(
                isinstance(x, ast.Name) and x.id in assigned
                for x in ast.walk(v))}
            q.guards = tuple(g for g in q.guards if keep(g))
            head = s.iter if isinstance(s, ast.For) else s.test
            self._check_expr(head, q.env, q.guards, s)
            inner = q.fork()
            if isinstance(s, ast.While):
                inner.guards = inner.guards + ((subst(s.test, q.env), True),)
            for r in self.run(list(s.body), inner):
                del r
            after = q.fork()
            return self.run(list(s.orelse), after) if s.orelse else [after]
        # simple statements: the alternatives of pathinline, one to one
        val = getattr(s, "value", None)
        if isinstance(s, (ast.Assign, ast.AnnAssign, ast.Expr, ast.Return)) \
                and isinstance(val, ast.expr):
            alts = _split_ifexp(val)
            env0 = dict(p.env)
            g0 = p.guards
            succ = _stmt(p, s)
            if len(succ) == len(alts):
                for (g, v), q in zip(alts, succ):
                    gs = g0 + tuple((subst(t, env0), tr) for t, tr in g)
                    if _contradictory(gs):
                        continue
                    self._check_expr(v, env0, gs, s)
                    for t, _ in g:
                        self._check_expr(t, env0, g0, s)
                    for tg in (s.targets if isinstance(s, ast.Assign) else
                               [getattr(s, "target", None)]):
                        if isinstance(tg, ast.Subscript):
                            self._check_expr(tg.slice, env0, gs, s)
                return [q for q in succ if not _contradictory(q.guards)]
            self._check_expr(val, env0, g0, s)
            return succ
        if isinstance(s, ast.AugAssign):
            env0 = dict(p.env)
            self._check_expr(s.value, env0, p.guards, s)
            if isinstance(s.op, _DIV):
                self._check_expr(ast.BinOp(left=copy.deepcopy(s.target),
                                           op=s.op, right=s.value), env0,
                                 p.guards, s)
            return _stmt(p, s)
        return _stmt(p, s)


def _contradictory(guards: tuple) -> bool:
    seen: dict[str, bool] = {}
    for t, tr in guards:
        k = ast.unparse(t)
        if seen.setdefault(k, tr) != tr:
            return True
    return False


def check(ctx: Ctx, kernels: list[FuncInfo]) -> None:
    ctx.rule("D16.10", "every division in a controller / system kernel is "
             "protected by a zero test of its own divisor")
    total = guarded = 0
    for k in kernels:
        w = _Walker(ctx, k)
        try:
            w.run(func_body(k), Path())
        except ValueError:
            ctx.ob("D16.10", k, k.node, False,
                   f"{k.name}: cannot normalise - too many paths",
                   construct="guarded divisions")
            continue
        total += w.n_div
        guarded += w.n_guarded
        if not w.n_div:
            continue
        definite = [b for b in w.bad if b[2]]
        first = (definite or w.bad or [None])[0]
        ctx.ob("D16.10", k, first[0] if first else k.node, not w.bad,
               f"{k.name}: all {w.n_div} divisions by a non-constant are "
               "reached only under a test that excludes a zero divisor "
               "(tested by value, path by path)" if not w.bad else
               "; ".join(dict.fromkeys(b[1] for b in (definite or w.bad))),
               construct="guarded divisions")
    ctx.count("divisions_by_non_constant", total)
    ctx.count("divisions_guarded", guarded)
    ctx.ob("D16.10", None, None, True,
           f"{len(kernels)} controller / system kernels scanned, {total} "
           f"divisions by a non-constant value, {guarded} guarded",
           function="(all kernels)", construct="division census",
           nontrivial=False)


def kernels_of(ctx: Ctx) -> list[Any]:
    pre = ("moptipyapps.dynamic_control.controllers.",
           "moptipyapps.dynamic_control.systems.")
    return [k for k in ctx.repo.kernels()
            if k.module.name.startswith(pre)]
