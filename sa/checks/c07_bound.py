"""D7.7: the declared upper bound of the TTP error objective.

`Errors.upper_bound()` is normalised to a polynomial over the instance
fields (with max / floor-division atoms) and decided in two directions:

holds     : it equals, or is coefficient-wise above, the bound B derived in
            DESIGN.md (section 4, C07, lemma L7) from the reference step that
            D7.4 / D7.5 prove the kernel to implement:
              per (team, day): 1 + max(1, M-1) + S      (n*D times)
              per team at the end of the season: M-1
              final summation over the pairings: 2*n*D + n*D/2
            with M = max(home_streak_min, away_streak_min) and
            S = max(separation_min, D-2-separation_max, 0).
violated  : for some admissible instance setting (the ranges the Instance
            constructor accepts are read from its `check_int_range` calls)
            one of three plan families, whose error count is known in closed
            form from rules 1-10, scores more than the declared bound.  The
            bound polynomial is *evaluated*, no program is run.
undecided : neither.

Plan families (n = 2 teams, r rounds = r days, except the last):
  alternating : team 1 at home on even days, away on odd days
                count = r*(hmin-1) + r*(amin-1) + (r-1)*sepmin
  one-sided   : team 1 always at home
                count = (r-hmax)+ + (hmin-r)+ + (r-amax)+ + (amin-r)+
                        + (r-1)*sepmin + (r-1)+
  all byes    : n teams, D days:  n*D + n(n-1)/2 * rounds
  cyclic host : n >= 3 teams, D days, every team hosts its cyclic successor
                on every day (nobody travels):
                count = n*D                      (rule 1, every game)
                      + n*(D-hmax)+ + n*(hmin-D)+ (rules 4 and 3)
                      + n*(D-1)*sepmin            (rule 7, distance 0)
                      + n*(D-rounds) + (n(n-1)/2 - n)*rounds   (rule 10)
                      + n*(D-1)+                  (rule 9: |D - 0| - 1)
"""
from __future__ import annotations

import ast
from fractions import Fraction
from typing import Any

from sa.kern import make_evaluator
from sa.report import Ctx
from sa.srcmodel import inline_locals
from sa.symterm import Env, Poly, Unsupported, show

MOD = "moptipyapps.ttp.errors"
IMOD = "moptipyapps.ttp.instance"
FIELDS = ("home_streak_min", "home_streak_max", "away_streak_min",
          "away_streak_max", "separation_min", "separation_max")

#: the derived bound, written with the names the normaliser gives to the
#: instance fields (parsed and normalised by the same evaluator as the code)
_B_REF = ("(n_cities - 1) * rounds * n_cities * (3 + max(1, max("
          "home_streak_min, away_streak_min) - 1) + max(separation_min, "
          "(n_cities - 1) * rounds - 2 - separation_max, 0)) + n_cities * "
          "(max(home_streak_min, away_streak_min) - 1) + ((n_cities - 1) * "
          "rounds * n_cities) // 2")


def _poly_at(p: Any, val: dict[str, int]) -> Fraction | None:
    if not isinstance(p, Poly):
        return None
    tot = Fraction(0)
    for mono, c in p.terms.items():
        t = Fraction(c)
        for a, e in mono:
            v: Fraction | None
            if a[0] == "var" and str(a[1]) in val:
                v = Fraction(val[str(a[1])])
            elif a[0] == "app" and a[1] in ("floordiv", "mod", "min", "max",
                                            "abs"):
                vs = [_poly_at(q, val) for q in a[2]]
                if any(x is None for x in vs) or (
                        a[1] in ("floordiv", "mod") and vs[1] == 0):
                    return None
                if a[1] == "floordiv":
                    v = Fraction(vs[0] // vs[1])        # type: ignore
                elif a[1] == "mod":
                    v = Fraction(vs[0] % vs[1])         # type: ignore
                elif a[1] == "abs":
                    v = abs(vs[0])                      # type: ignore
                else:
                    v = min(vs) if a[1] == "min" else max(vs)  # type: ignore
            else:
                return None
            t *= v ** e
        tot += t
    return tot


def _canon(p: Any) -> Any:
    """`x if y < x else y` is max(x, y) (`min` alike), nested max / min are
    flattened and their arguments ordered: the bound may be written with
    conditionals instead of the builtins."""
    if not isinstance(p, Poly):
        return p

    def atom(a: Any) -> Poly:
        if a[0] == "ite" and a[1][0] in ("lt", "le") and isinstance(
                a[2], Poly) and isinstance(a[3], Poly):
            x, y = _canon(a[2]), _canon(a[3])
            lo, hi = _canon(a[1][1]), _canon(a[1][2])
            if {lo, hi} == {x, y} and x != y:
                # taken value x when lo < hi: x == hi -> max, x == lo -> min
                return _mk("max" if x == hi else "min", [x, y])
            # the same with a common shift: `a - 1 if b < a else b - 1`
            if lo != hi and (x - hi) == (y - lo):
                return _mk("max", [lo, hi]) + (x - hi)
            if lo != hi and (x - lo) == (y - hi):
                return _mk("min", [lo, hi]) + (x - lo)
        if a[0] == "app" and a[1] in ("max", "min"):
            return _mk(a[1], [_canon(q) for q in a[2]])
        if a[0] == "app":
            return Poly.atom((a[0], a[1], tuple(
                _canon(q) if isinstance(q, Poly) else q for q in a[2])))
        return Poly.atom(a)

    def _mk(kind: str, args: list[Poly]) -> Poly:
        flat: list[Poly] = []
        for q in args:
            qa = q.as_atom()
            if qa is not None and qa[0] == "app" and qa[1] == kind:
                flat += list(qa[2])
            else:
                flat.append(q)
        cs = [q for q in flat if q.const_value() is not None]
        vs = sorted({q.key(): q for q in flat
                     if q.const_value() is None}.values(),
                    key=lambda q: repr(q.key()))
        if cs:
            cv = (max if kind == "max" else min)(
                q.const_value() for q in cs)
            vs.append(Poly.const(cv))
        return vs[0] if len(vs) == 1 else Poly.atom(
            ("app", kind, tuple(vs)))
    out = Poly()
    for mono, c in p.terms.items():
        t = Poly.const(c)
        for a, e in mono:
            t = t * atom(a).pow(e)
        out = out + t
    return out


class _Strip(ast.NodeTransformer):
    """`self.instance.F` / `x.instance.F` -> `F`."""

    def visit_Attribute(self, n: ast.Attribute) -> ast.AST:
        if isinstance(n.value, ast.Attribute) and n.value.attr == "instance":
            return ast.copy_location(ast.Name(id=n.attr, ctx=ast.Load()), n)
        return self.generic_visit(n)


def _ranges(ctx: Ctx) -> dict[str, tuple[ast.expr, ast.expr]] | None:
    """field -> (lowest, highest) admissible value as expressions over
    `n`, `rounds` and the other constructor parameters."""
    repo = ctx.repo
    new = repo.func(IMOD, "Instance.__new__")
    out: dict[str, tuple[ast.expr, ast.expr]] = {}
    for st in ast.walk(new.node):
        if not (isinstance(st, (ast.Assign, ast.AnnAssign))
                and getattr(st, "value", None) is not None):
            continue
        tg = st.targets[0] if isinstance(st, ast.Assign) else st.target
        c = st.value
        if isinstance(tg, ast.Attribute) and tg.attr in FIELDS and isinstance(
                c, ast.Call) and isinstance(c.func, ast.Name) and \
                c.func.id == "check_int_range" and len(c.args) == 4:
            out[tg.attr] = (inline_locals(new.node, c.args[2]),
                            inline_locals(new.node, c.args[3]))
    return out if set(out) == set(FIELDS) else None


def _num(e: ast.expr, val: dict[str, int]) -> int | None:
    """A constructor-range expression for given parameter values."""
    if isinstance(e, ast.Constant) and isinstance(e.value, int) and \
            not isinstance(e.value, bool):
        return e.value
    if isinstance(e, ast.Name):
        return val.get({"n": "n_cities"}.get(e.id, e.id))
    if isinstance(e, ast.Call) and isinstance(e.func, ast.Name) and \
            e.func.id == "len" and len(e.args) == 1:
        # the number of team names; the constructor raises unless it
        # equals n_cities
        return val.get("n_cities")
    if isinstance(e, ast.UnaryOp) and isinstance(e.op, ast.USub):
        v = _num(e.operand, val)
        return None if v is None else -v
    if isinstance(e, ast.BinOp):
        a, b = _num(e.left, val), _num(e.right, val)
        if a is None or b is None:
            return None
        if isinstance(e.op, ast.Add):
            return a + b
        if isinstance(e.op, ast.Sub):
            return a - b
        if isinstance(e.op, ast.Mult):
            return a * b
        if isinstance(e.op, ast.FloorDiv) and b != 0:
            return a // b
    return None


#: the smallest values of the instance fields (n >= 2 teams, one round,
#: the constructor's lowest limits)
_LOW = {"n_cities": 2, "rounds": 1, "home_streak_min": 1,
        "home_streak_max": 1, "away_streak_min": 1, "away_streak_max": 1,
        "separation_min": 0, "separation_max": 0}


def _lb(p: Poly) -> Fraction | None:
    """A lower bound of a polynomial whose variables are >= 0 (shifted)."""
    tot = Fraction(0)
    for mono, c in p.terms.items():
        if not mono:
            tot += c
            continue
        # a product of quantities >= their lower bounds
        prod = Fraction(1)
        for a, e in mono:
            la = _atom_lb(a)
            if la is None or la < 0:
                return None
            prod *= la ** e
        if c < 0:
            return None          # no upper bounds are tracked
        tot += c * prod
    return tot


def _atom_lb(a: Any) -> Fraction | None:
    if a[0] == "var":
        return Fraction(0)
    if a[0] == "app" and a[1] == "max":
        ls = [_lb(q) for q in a[2] if isinstance(q, Poly)]
        ls = [x for x in ls if x is not None]
        return max(ls) if ls else None
    if a[0] == "app" and a[1] == "floordiv" and len(a[2]) == 2:
        num, den = _lb(a[2][0]), a[2][1].const_value()
        if num is not None and num >= 0 and den is not None and den > 0:
            return Fraction(0)
    return None


def _nonneg(d: Poly) -> bool:
    """Is d >= 0 for all admissible field values?  Sufficient test: write
    every field as (its smallest value + a non-negative variable), every
    max / floor-division atom as (its lower bound + a non-negative rest);
    all coefficients of the result must be non-negative."""
    shift = {Poly.var(k).as_atom(): Poly.const(v) + Poly.var(k)
             for k, v in _LOW.items()}
    d2 = d.subst(shift)
    for _ in range(4):
        m = {}
        for a in {a_ for mono in d2.terms for a_, _e in mono}:
            if a[0] == "app" and not (a[1] == "rest"):
                la = _atom_lb(a)
                if la is not None and la != 0:
                    m[a] = Poly.const(la) + Poly.atom(("app", "rest", (
                        Poly.atom(a),)))
        if not m:
            break
        d2 = d2.subst(m)
    return all(c >= 0 or not mono for mono, c in d2.terms.items()) and \
        d2.terms.get((), 0) >= 0 and all(
        _atom_lb(a_) is not None or (a_[0] == "app" and a_[1] == "rest")
        for mono in d2.terms for a_, _e in mono)


def _pos(v: int) -> int:
    return v if v > 0 else 0


def check(ctx: Ctx) -> None:
    ctx.rule("D7.7", "the declared upper bound dominates the documented "
             "count: equal to / above the derived bound, never below the "
             "closed-form count of a witness plan family")
    repo = ctx.repo
    ctx.assumptions.append(
        "L7 (DESIGN section 4, C07): hand proof that the reference step of "
        "rules 1-10 adds at most 1 + max(1, M-1) + S per (team, day), M-1 "
        "per team at the end of the season and 2nD + nD/2 in the final "
        "summation")
    ubf = repo.func(MOD, "Errors.upper_bound")
    rets = [r for r in ast.walk(ubf.node) if isinstance(r, ast.Return)
            and r.value is not None]
    ub: Any = None
    if rets:
        import copy as _copy
        from sa.kern import py_calls
        from sa.srcmodel import func_body
        ev = make_evaluator(repo, ubf, extra_call=py_calls)
        ev.int_transparent = True
        try:
            # the whole method is executed symbolically (locals that are
            # assigned in steps or under conditions included)
            body = [ast.fix_missing_locations(_Strip().visit(
                _copy.deepcopy(st))) for st in func_body(ubf)]
            raw = ev.block(Env(), body).returned
            if isinstance(raw, Poly):
                from sa.symterm import all_atoms
                ren = {a: Poly.var(str(a[1]).rsplit(".", 1)[-1])
                       for a in all_atoms(raw)
                       if a[0] == "var" and ".instance." in str(a[1])}
                raw = raw.subst(ren) if ren else raw
            ub = _canon(raw)
            ref = _canon(ev.num(Env(), ast.parse(
                _B_REF, mode="eval").body))
        except Unsupported:
            ub = None
    if not isinstance(ub, Poly):
        ctx.ob("D7.7", ubf, ubf.node, False,
               "cannot normalise Errors.upper_bound(): not recognised",
               construct="declared upper bound")
        return
    # ---- proof side
    d = ub - ref
    proved = d.is_zero() or _nonneg(d)
    # ---- refutation side
    rng = _ranges(ctx)
    witness = None
    unknown = rng is None
    if rng is not None:
        for r_ in range(1, 9):
            base = {"n_cities": 2, "rounds": r_}
            # extreme admissible settings: every minimum at its lowest /
            # highest value, every maximum at its highest
            choices: list[dict[str, int]] = []
            for hi_h in (False, True):
                for hi_a in (False, True):
                    for hi_s in (False, True):
                        v = dict(base)
                        okv = True
                        for f, hi in (("home_streak_min", hi_h),
                                      ("away_streak_min", hi_a),
                                      ("separation_min", hi_s)):
                            x = _num(rng[f][1 if hi else 0], v)
                            if x is None:
                                okv = False
                                break
                            v[f] = x
                        for f in ("home_streak_max", "away_streak_max",
                                  "separation_max"):
                            x = _num(rng[f][1], v) if okv else None
                            lo = _num(rng[f][0], v) if okv else None
                            if x is None or lo is None or x < lo:
                                okv = False
                                break
                            v[f] = x
                        if okv and all(
                                _num(rng[f][0], v) <= v[f] <= _num(
                                    rng[f][1], v) for f in FIELDS):
                            choices.append(v)
                        elif not okv:
                            unknown = True
            for v in choices:
                u = _poly_at(ub, v)
                if u is None:
                    unknown = True
                    continue
                hm, am, sm = (v["home_streak_min"], v["away_streak_min"],
                              v["separation_min"])
                hx, ax = v["home_streak_max"], v["away_streak_max"]
                alt = r_ * (hm - 1) + r_ * (am - 1) + (r_ - 1) * sm
                one = _pos(r_ - hx) + _pos(hm - r_) + _pos(r_ - ax) + _pos(
                    am - r_) + (r_ - 1) * sm + _pos(r_ - 1)
                for what, cnt in ((
                        "team 1 at home on even days and away on odd days",
                        alt), ("team 1 at home on every day", one)):
                    if cnt > u and witness is None:
                        witness = (
                            f"2 teams, {r_} round(s) = {r_} day(s), streak "
                            f"minima {hm} / {am}, maxima {hx} / {ax}, "
                            f"separation {sm}..{v['separation_max']} "
                            "(all accepted by the Instance constructor), "
                            f"plan: {what}: rules 1-10 count {cnt} errors, "
                            f"upper_bound() is {u}")
        for n_ in (2, 3, 4, 6):
            for r_ in (1, 2, 3):
                v = {"n_cities": n_, "rounds": r_}
                okv = True
                for f in FIELDS:
                    x = _num(rng[f][0], v)
                    if x is None:
                        okv = False
                        break
                    v[f] = x
                u = _poly_at(ub, v) if okv else None
                if u is None:
                    unknown = True
                    continue
                days = (n_ - 1) * r_
                cnt = n_ * days + n_ * (n_ - 1) // 2 * r_
                if cnt > u and witness is None:
                    witness = (f"{n_} teams, {r_} round(s): the plan "
                               f"without any game counts {cnt} errors, "
                               f"upper_bound() is {u}")
        # cyclic hosts: the extreme admissible settings of the limits
        for n_ in (3, 4, 6, 8):
            for r_ in (1, 2, 3):
                days = (n_ - 1) * r_
                for hi_h in (False, True):
                    for hi_s in (0, 1, 2, 3, 4, 5):
                        v = {"n_cities": n_, "rounds": r_}
                        okv = True
                        for f, hi in (("home_streak_min", hi_h),
                                      ("away_streak_min", False)):
                            x = _num(rng[f][1 if hi else 0], v)
                            if x is None:
                                okv = False
                                break
                            v[f] = x
                        # separation_min: lowest, 1, 2, highest; and
                        # separation_max: lowest (0, 1, 2, 3) / highest
                        lo_s = _num(rng["separation_min"][0], v) \
                            if okv else None
                        hi_sv = _num(rng["separation_min"][1], v) \
                            if okv else None
                        if lo_s is None or hi_sv is None:
                            okv = False
                        else:
                            v["separation_min"] = (
                                lo_s, 1, 2, hi_sv, 1, 2)[hi_s]
                        for f in ("home_streak_max", "away_streak_max",
                                  "separation_max"):
                            x = _num(rng[f][1 if (
                                f == "separation_max" and hi_s >= 4)
                                else 0], v) if okv else None
                            if x is None:
                                okv = False
                                break
                            v[f] = x
                        if not okv or not all(
                                (_num(rng[f][0], v) or 0) <= v[f] <= (
                                    _num(rng[f][1], v) or 0)
                                for f in FIELDS):
                            unknown = unknown or not okv
                            continue
                        u = _poly_at(ub, v)
                        if u is None:
                            unknown = True
                            continue
                        cnt = n_ * days + n_ * _pos(
                            days - v["home_streak_max"]) + n_ * _pos(
                            v["home_streak_min"] - days) + n_ * (
                            days - 1) * v["separation_min"] + n_ * (
                            days - r_) + (n_ * (n_ - 1) // 2 - n_) * r_ \
                            + n_ * _pos(days - 1)
                        if cnt > u and witness is None:
                            witness = (
                                f"{n_} teams, {r_} round(s) = {days} days, "
                                f"home streaks {v['home_streak_min']}.."
                                f"{v['home_streak_max']}, separation "
                                f"{v['separation_min']}.."
                                f"{v['separation_max']} (accepted by the "
                                "Instance constructor), plan: every team "
                                "hosts its cyclic successor on every day: "
                                f"rules 1-10 count {cnt} errors, "
                                f"upper_bound() is {u}")
    if witness is not None:
        ok, why = False, ("a plan scores more errors than the declared "
                          "upper bound: " + witness)
    elif proved:
        ok, why = True, (
            "upper_bound() = " + show(ub)[:200] + (
                " equals" if d.is_zero() else " is coefficient-wise above")
            + " the bound derived from the reference step (lemma L7) and no "
            "witness plan family exceeds it")
    else:
        ok, why = False, (
            "upper_bound() = " + show(ub)[:160] + " is not recognised as "
            "dominating the bound derived from the reference step "
            "(cannot decide; no witness family exceeds it"
            + (", constructor ranges not recognised" if unknown else "")
            + ")")
    ctx.ob("D7.7", ubf, rets[0], ok, why, construct="declared upper bound")

