"""C08 - TTP travel length matches the tournament model (decided part)."""
from __future__ import annotations

import ast
from typing import Any, Callable

from sa.kern import make_evaluator
from sa.report import Ctx
from sa.srcmodel import FuncInfo, func_body
from sa.symterm import (Env, Evaluator, Poly, Unsupported, _eq, map_atom,
                        show)

MOD = "moptipyapps.ttp.plan_length"


def resolve(p: Any, decide: Callable[[tuple], bool | None]) -> Any:
    """Replace ite atoms (also inside conditions) whose condition `decide`
    can decide."""
    if not isinstance(p, Poly):
        return p
    sub = {}
    for a in p.atoms():
        if a[0] == "ite":
            c = map_atom(a[1], lambda q: resolve(q, decide))
            d = _decide(c, decide)
            if d is True:
                sub[a] = resolve(a[2], decide)
            elif d is False:
                sub[a] = resolve(a[3], decide)
            else:
                sub[a] = Poly.atom(("ite", c, resolve(a[2], decide),
                                    resolve(a[3], decide)))
        elif a[0] in ("cell", "app"):
            na = map_atom(a, lambda q: resolve(q, decide))
            if na != a:
                sub[a] = Poly.atom(na)
    return p.subst(sub) if sub else p


def _decide(c: tuple, decide: Callable[[tuple], bool | None]) -> bool | None:
    k = c[0]
    if k == "true":
        return True
    if k == "false":
        return False
    if k == "not":
        d = _decide(c[1], decide)
        return None if d is None else (not d)
    if k in ("and", "or"):
        ds = [_decide(x, decide) for x in c[1:]]
        if k == "and":
            if any(d is False for d in ds):
                return False
            return True if all(d is True for d in ds) else None
        if any(d is True for d in ds):
            return True
        return False if all(d is False for d in ds) else None
    return decide(c)


def run(ctx: Ctx) -> None:
    ctx.explanation = (
        "D8.1: the per-day transition of game_plan_length is executed "
        "symbolically and compared, case by case (entry negative / "
        "positive / zero; already at the venue or not), with the documented "
        "walk: away -> venue of the opponent, home -> own city, bye -> "
        "stay and pay the bye penalty; every move adds the distance from "
        "the current location and updates it; each team starts at home and "
        "returns home after the last day. D8.2: bye_penalty = 2*max + 1 "
        "(so penalty - 2*max >= 1), upper_bound = n*days*penalty with days "
        "= (n-1)*rounds, and the instance's own bound uses the same "
        "penalty expression; evaluate() binds (plan, instance, penalty) to "
        "the kernel. D8.3: from these premises every plan length lies "
        "within [0, upper_bound()] (lemma L8, spelled out in the "
        "obligation); an upper bound above the documented one is accepted, "
        "one below the length of the plan without games is refuted by "
        "evaluating the bound polynomial. Not decided: strict increase "
        "under replacing a game by a bye beyond the penalty margin, the "
        "optimum table.")
    ctx.rule("D8.1", "per-day transition == documented walk; start/return")
    ctx.rule("D8.2", "penalty and bound expressions")
    _kernel(ctx)
    _bounds(ctx)
    ctx.rule("D8.4", "a RobinX file's distance team1 -> team2 is stored as "
             "distances[team1, team2]")
    _loader(ctx)
    # ---- D8.3: the declared bounds are valid (lemma L8)
    ctx.rule("D8.3", "every plan length lies within the declared bounds "
             "(lemma L8 from the premises D8.1, D8.2)")
    prem = [o for o in ctx.obligations if o.rule == "D8.1" or o.construct in (
        "bye penalty margin", "upper bound expression", "lower bound")]
    bad = [o for o in prem if not o.ok]
    ctx.ob("D8.3", None, None, not bad and len(prem) >= 6,
           "L8: by D8.1 a team's length is (#byes)*penalty + the sum of at "
           "most k+1 distances for k days with a game (k moves and the "
           "return leg), each distance is between 0 and the largest entry "
           "m, and by D8.2 penalty >= 2m+1: for k >= 1, (k+1)*m <= 2k*m < "
           "k*penalty, so the length of a team is within [0, days*penalty] "
           "and the plan length within [0, n*days*penalty] <= upper_bound()"
           if not bad and len(prem) >= 6 else
           "premise not established: " + "; ".join(
               f"{o.rule} {o.construct}" for o in bad[:4]),
           function="GamePlanLength", construct="declared bounds valid")
    ctx.assumptions += [
        "the distance matrix has a zero diagonal (TSP instance "
        "constructor), so the `already there` shortcut is optional",
        "plan entries are in -n..n (GamePlanSpace.validate)",
    ]


def _kernel(ctx: Ctx) -> None:
    repo = ctx.repo
    from sa.srcmodel import kernel_normalised
    fi = kernel_normalised(repo.func(MOD, "game_plan_length"))
    ctx.need(fi.params == ["y", "distances", "bye_penalty"],
             "game_plan_length(y, distances, bye_penalty)")
    body = func_body(fi)
    ev = make_evaluator(repo, fi)
    ev.int_transparent = True
    ev.compose_rows = True
    outer = next((s for s in body if isinstance(s, ast.For)), None)
    ctx.need(outer is not None, "game_plan_length: loop over teams")
    inner = next((s for s in outer.body if isinstance(s, ast.For)), None)
    ctx.need(inner is not None, "game_plan_length: loop over days")
    # shapes
    pre = Env()
    shape_ok = False
    for s in body:
        if s is outer:
            break
        if isinstance(s, ast.Assign) and isinstance(
                s.targets[0], ast.Tuple) and ast.unparse(
                s.value) == "y.shape":
            a, b = (t.id for t in s.targets[0].elts)
            pre.vars[a] = Poly.var("days")
            pre.vars[b] = Poly.var("teams")
            shape_ok = True
        elif isinstance(s, (ast.Assign, ast.AnnAssign)) and getattr(
                s, "value", None) is not None and ast.unparse(
                s.value) == "y.shape" and isinstance(
                s.targets[0] if isinstance(s, ast.Assign) else s.target,
                ast.Name):
            # shape = y.shape; days = shape[0]; teams = shape[1]
            tg_ = s.targets[0] if isinstance(s, ast.Assign) else s.target
            pre.vars[tg_.id] = (Poly.var("days"), Poly.var("teams"))
            shape_ok = True
        elif isinstance(s, (ast.Assign, ast.AnnAssign)):
            try:
                pre = ev.stmt(pre, s)
            except Unsupported:
                pass
    def full(lp: ast.For, want: str) -> bool:
        it = lp.iter
        if not (isinstance(it, ast.Call) and ast.unparse(it.func) ==
                "range" and len(it.args) == 1):
            return False
        if want == "days" and ast.unparse(it.args[0]) in (
                "len(y)", "y.shape[0]"):
            return True
        if want == "teams" and ast.unparse(it.args[0]) == "y.shape[1]":
            return True
        try:
            return ev.num(pre, it.args[0]) == Poly.var(want)
        except Unsupported:
            return False
    ok_loops = shape_ok and full(outer, "teams") and full(inner, "days")
    ctx.ob("D8.1", fi, outer, ok_loops,
           "every team (column) and every day (row) of the plan is walked",
           construct="loops over all teams and days")
    tvar = outer.target.id
    dvar = inner.target.id
    team, day = Poly.var(tvar), Poly.var(dvar)
    # names of the carried state: assigned in the outer body before the
    # inner loop
    env = pre.copy()
    env.vars[tvar] = team
    cur_name = None
    for s in outer.body:
        if s is inner:
            break
        if isinstance(s, (ast.Assign, ast.AnnAssign)):
            tg = s.targets[0] if isinstance(s, ast.Assign) else s.target
            env = ev.stmt(env, s)
            if isinstance(tg, ast.Name) and env.vars.get(tg.id) == team:
                cur_name = tg.id
    ok_start = cur_name is not None
    ctx.ob("D8.1", fi, outer, ok_start,
           "each team starts its walk at its own city" if ok_start else
           "the walk does not start at the team's home",
           construct="start location")
    if cur_name is None:
        return
    len_name = None
    len_init: Any = None
    ret_names = {n.id for r in ast.walk(fi.node) if isinstance(
        r, ast.Return) and r.value is not None for n in ast.walk(r.value)
        if isinstance(n, ast.Name) and n.id != "int"}
    for s in body:
        if isinstance(s, (ast.Assign, ast.AnnAssign)) and s is not outer \
                and s.value is not None:
            tg = s.targets[0] if isinstance(s, ast.Assign) else s.target
            if isinstance(tg, ast.Name) and tg.id in ret_names and \
                    len_name is None:
                len_name = tg.id
                len_init = repo.const(fi.module, s.value)
    ctx.need(len_name is not None, "game_plan_length: length accumulator")
    ctx.ob("D8.1", fi, fi.node, len_init == 0,
           f"`{len_name}` starts at 0" if len_init == 0 else
           f"`{len_name}` starts at {len_init!r}, not 0: every plan's "
           "length is off by that amount", construct="accumulator starts "
           "at zero")
    L, C = Poly.var("LEN"), Poly.var("CUR")
    benv = env.copy()
    benv.vars[dvar] = day
    benv.vars[len_name] = L
    benv.vars[cur_name] = C
    try:
        out = ev.block(benv, inner.body)
    except Unsupported as u:
        ctx.ob("D8.1", fi, u.node or inner, False,
               f"cannot normalise the per-day transition: {u}",
               construct="per-day transition")
        return
    u_len, u_cur = out.vars.get(len_name), out.vars.get(cur_name)
    v = Poly.atom(("cell", "y", (day, team)))
    zero = Poly.const(0)
    bye = Poly.var("bye_penalty")

    def D(a: Poly, b: Poly) -> Poly:
        return Poly.atom(("cell", "distances", (a, b)))
    problems = []
    n_cases = 0
    for sign in ("neg", "zero", "pos"):
        def dec_sign(c: tuple, s_: str = sign) -> bool | None:
            if c[0] in ("lt", "le", "eq") and {c[1], c[2]} == {v, zero}:
                val = {"neg": -1, "zero": 0, "pos": 1}[s_]
                a = val if c[1] == v else 0
                b = 0 if c[1] == v else val
                return {"lt": a < b, "le": a <= b, "eq": a == b}[c[0]]
            return None
        nxt = {"neg": -v - Poly.const(1), "pos": team, "zero": None}[sign]
        for there in ((True, False) if nxt is not None else (None,)):
            n_cases += 1

            def dec(c: tuple, t_: Any = there, nx: Any = nxt) -> bool | None:
                d = dec_sign(c)
                if d is not None:
                    return d
                if c[0] == "eq" and nx is not None and {c[1], c[2]} == {
                        C, nx}:
                    return t_
                return None
            gl = resolve(u_len, dec) if isinstance(u_len, Poly) else None
            gc = resolve(u_cur, dec) if isinstance(u_cur, Poly) else None
            if sign == "zero":
                want_l, want_c = [L + bye], [C]
            elif there:
                want_l = [L, L + D(C, nxt)]
                want_c = [C, nxt]
            else:
                want_l, want_c = [L + D(C, nxt)], [nxt]
            if gl not in want_l or gc not in want_c:
                problems.append(
                    f"entry {sign}"
                    + ("" if there is None else
                       (", already at the venue" if there else
                        ", somewhere else"))
                    + f": length' = {show(gl) if gl is not None else '?'}, "
                    f"location' = {show(gc) if gc is not None else '?'}; "
                    f"documented: {show(want_l[-1])}, {show(want_c[-1])}")
    ctx.count("transition_cases", n_cases)
    ctx.ob("D8.1", fi, inner, not problems,
           f"the per-day transition equals the documented walk in all "
           f"{n_cases} cases (away: opponent's city = -v-1; home: own city; "
           "bye: stay, add the penalty)" if not problems else
           "; ".join(problems)[:500], construct="per-day transition",
           witness=None if not problems else {"cases": problems[:3]})
    # ---- return leg
    after = [s for s in outer.body[outer.body.index(inner) + 1:]]
    renv = env.copy()
    renv.vars[len_name] = L
    renv.vars[cur_name] = C
    try:
        rout = ev.block(renv, after)
        rl = rout.vars.get(len_name)

        def dec_home(c: tuple) -> bool | None:
            if c[0] == "eq" and {c[1], c[2]} == {C, team}:
                return dec_home.at_home      # type: ignore[attr-defined]
            return None
        oks = []
        for at_home in (True, False):
            dec_home.at_home = at_home       # type: ignore[attr-defined]
            g = resolve(rl, dec_home)
            oks.append(g in ([L, L + D(C, team)] if at_home
                             else [L + D(C, team)]))
        ok_ret = all(oks)
    except Unsupported:
        ok_ret = False
    ctx.ob("D8.1", fi, after[0] if after else outer, ok_ret,
           "after the last day the team travels home from wherever it is"
           if ok_ret else
           "after the last day the distance from the CURRENT location back "
           "home is not always added (the return-leg statement depends on "
           "something other than the current location, or adds another "
           "distance)", construct="return leg")
    # ---- result
    rets = [r for r in ast.walk(fi.node) if isinstance(r, ast.Return)]
    ok_res = len(rets) == 1 and len_name in ast.unparse(rets[0].value) and \
        not any(isinstance(n, ast.BinOp) for n in ast.walk(rets[0].value))
    ctx.ob("D8.1", fi, rets[0] if rets else fi.node, ok_res,
           "the accumulated length is returned unchanged",
           construct="returned value", nontrivial=False)


def _ub_at(p: Poly, val: dict[str, int]) -> Any:
    from fractions import Fraction
    tot = Fraction(0)
    for mono, c in p.terms.items():
        t = Fraction(c)
        for a, e in mono:
            if a[0] == "var" and str(a[1]) in val:
                t *= Fraction(val[str(a[1])]) ** e
            else:
                return None
        tot += t
    return tot


def _ub_verdict(got: Any, want: Poly) -> tuple[bool, str]:
    """The plan without any game has the length n * days * bye_penalty
    (every team pays the penalty on every day and never travels), so the
    declared bound must be at least that for every n >= 2, rounds >= 1,
    penalty >= 1; it is accepted when it equals the documented expression
    or exceeds it coefficient-wise after writing n = 2 + a, rounds = 1 + b,
    penalty = 1 + c with a, b, c >= 0."""
    if not isinstance(got, Poly):
        return False, "cannot normalise the upper bound: not recognised"
    if got == want:
        return True, "= documented n * (n-1)*rounds * bye_penalty"
    names = ("self.instance.n_cities", "self.instance.rounds",
             "self.bye_penalty")
    for n_ in (2, 3, 4, 7):
        for r_ in (1, 2, 3):
            for p_ in (1, 7, 201):
                val = dict(zip(names, (n_, r_, p_)))
                u = _ub_at(got, val)
                if u is None:
                    return False, ("cannot normalise the upper bound "
                                   "(unknown fields): not recognised")
                v = n_ * (n_ - 1) * r_ * p_
                if u < v:
                    return False, (
                        f"for {n_} teams, {r_} round(s) and a bye penalty "
                        f"of {p_} the plan without any game has the length "
                        f"{v}, upper_bound() gives {u}")
    shift = {Poly.var(k).as_atom(): Poly.const(lo) + Poly.var(k)
             for k, lo in zip(names, (2, 1, 1))}
    d = (got - want).subst(shift)
    if all(c >= 0 for c in d.terms.values()):
        return True, (">= documented n * (n-1)*rounds * bye_penalty for "
                      "all n >= 2, rounds >= 1 (coefficients after shifting "
                      "to the lowest values are non-negative)")
    return False, ("not recognised as at least n * (n-1)*rounds * "
                   "bye_penalty: cannot decide")


def _bounds(ctx: Ctx) -> None:
    repo = ctx.repo
    cls = repo.cls(MOD, "GamePlanLength")

    def hook(ev: Evaluator, env: Env, n: ast.Call) -> Any:
        f = n.func
        if isinstance(f, ast.Attribute) and f.attr == "max" and not n.args:
            return Poly.atom(("app", "matrix_max", ()))
        return NotImplemented
    init = cls.methods["__init__"]
    ev = make_evaluator(repo, init, extra_call=hook)
    ev.int_transparent = True
    pen = None
    ienv = Env()
    for s in func_body(init):
        if isinstance(s, (ast.Assign, ast.AnnAssign)) and isinstance(
                s.targets[0] if isinstance(s, ast.Assign) else s.target,
                ast.Attribute) and (s.targets[0] if isinstance(
                    s, ast.Assign) else s.target).attr == "bye_penalty":
            try:
                pen = ev.num(ienv, s.value)
            except Unsupported:
                pen = None
        elif isinstance(s, (ast.Assign, ast.AnnAssign)) and isinstance(
                s.targets[0] if isinstance(s, ast.Assign) else s.target,
                ast.Name) and s.value is not None:
            # a local of the constructor (e.g. the hoisted maximum)
            try:
                ienv = ev.stmt(ienv, s)
            except Unsupported:
                pass
    mx = Poly.atom(("app", "matrix_max", ()))
    margin = (pen - mx - mx).const_value() if pen is not None else None
    ok = margin is not None and margin >= 1
    ctx.ob("D8.2", init, init.node, ok,
           f"bye_penalty = {show(pen) if pen is not None else '?'}: exceeds "
           "twice the largest distance by "
           f"{margin if margin is not None else '?'} (a bye always costs "
           "more than travelling to a game and back)",
           construct="bye penalty margin")
    ub = cls.methods["upper_bound"]
    ev2 = make_evaluator(repo, ub)
    try:
        got = ev2.block(Env(), func_body(ub)).returned
    except Unsupported:
        got = None
    n = Poly.var("self.instance.n_cities")
    r = Poly.var("self.instance.rounds")
    want = n * (n - Poly.const(1)) * r * Poly.var("self.bye_penalty")
    okub, whyub = _ub_verdict(got, want)
    ctx.ob("D8.2", ub, ub.node, okub,
           f"upper_bound() = {show(got) if isinstance(got, Poly) else got}"
           f"; {whyub}", construct="upper bound expression")
    lb = cls.methods["lower_bound"]
    okl = any(isinstance(x, ast.Return) and repo.const(
        lb.module, x.value) == 0 for x in ast.walk(lb.node))
    ctx.ob("D8.2", lb, lb.node, okl, "lower_bound() == 0",
           construct="lower bound", nontrivial=False)
    evm = cls.methods["evaluate"]
    k = repo.func(MOD, "game_plan_length")
    okw = False
    for x in ast.walk(evm.node):
        if isinstance(x, ast.Call) and repo.resolve_expr(
                evm.module, x.func) is k:
            from sa.srcmodel import bound_args, inline_locals
            p = evm.params[1]
            ba = bound_args(x, list(k.params))
            okw = [ast.unparse(inline_locals(evm.node, ba[q]))
                   if q in ba else None for q in k.params] == [
                p, f"{p}.instance", "self.bye_penalty"]
    ctx.ob("D8.2", evm, evm.node, okw,
           "evaluate(x) calls the kernel with (x, x.instance, "
           "self.bye_penalty)", construct="evaluate wiring")
    # the instance's own bound uses the same penalty
    ib = repo.func("moptipyapps.ttp.instance",
                   "Instance.get_optimal_plan_length_bounds")
    ev3 = make_evaluator(repo, ib, extra_call=hook)
    ev3.int_transparent = True
    oki = False
    for x in ast.walk(ib.node):
        if isinstance(x, ast.Return) and isinstance(x.value, ast.Tuple) \
                and len(x.value.elts) == 2:
            env = Env()
            try:
                # the locals defined (once) before this return, in source
                # order, wherever they are nested
                for s in sorted((a_ for a_ in ast.walk(ib.node)
                                 if isinstance(a_, (ast.Assign,
                                                    ast.AnnAssign))
                                 and a_.lineno < x.lineno),
                                key=lambda a_: a_.lineno):
                    try:
                        env = ev3.stmt(env, s)
                    except Unsupported:
                        pass
                hi = ev3.num(env, x.value.elts[1])
                n_ = Poly.var("self.n_cities")
                r_ = Poly.var("self.rounds")
                oki = hi == (mx + mx + Poly.const(1)) * n_ * (
                    n_ - Poly.const(1)) * r_
            except Unsupported:
                oki = False
    ctx.ob("D8.2", ib, ib.node, oki,
           "Instance.get_optimal_plan_length_bounds uses (2*max+1) * n * "
           "(n-1)*rounds for unknown instances - the same penalty",
           construct="instance bound uses same penalty")



# ------------------------------------------------------------------ D8.4
def _loader(ctx: Ctx) -> None:
    """The kernel charges `distances[from, to]` (D8.1); the plan length is
    the distance travelled only if the loader keeps the direction of the
    file: `<distance team1= team2= dist=>` becomes the key (team1, team2)
    and then the cell [key[0], key[1]]."""
    from sa.srcmodel import inline_locals
    repo = ctx.repo
    fi = repo.func("moptipyapps.ttp.instance", "_from_stream")

    def attr_of(e: ast.expr) -> str | None:
        e = inline_locals(fi.node, e)
        for n in ast.walk(e):
            if isinstance(n, ast.Subscript) and ast.unparse(
                    n.value).endswith(".attrib"):
                c = repo.const(fi.module, n.slice)
                if isinstance(c, str):
                    return c
        return None
    # (a) the key of the distance dictionary
    key_ok = None
    dname = None
    for st in ast.walk(fi.node):
        if isinstance(st, ast.Assign) and len(st.targets) == 1 and \
                isinstance(st.targets[0], ast.Subscript) and isinstance(
                st.targets[0].value, ast.Name):
            k = inline_locals(fi.node, st.targets[0].slice)
            if isinstance(k, ast.Tuple) and len(k.elts) == 2:
                roles = [attr_of(x) for x in k.elts]
                if set(roles) == {"team1", "team2"}:
                    dname = st.targets[0].value.id
                    key_ok = roles == ["team1", "team2"]
                    ctx.ob("D8.4", fi, st, key_ok,
                           f"distances are keyed by ({roles[0]}, "
                           f"{roles[1]})" + ("" if key_ok else
                                             ": the direction of the file "
                                             "is reversed"),
                           construct="distance key")
    # (b) the fill of the matrix
    fill_ok = None
    for lp in ast.walk(fi.node):
        if not (isinstance(lp, ast.For) and dname is not None and ast.unparse(
                lp.iter) == f"{dname}.items()" and isinstance(
                lp.target, ast.Tuple) and len(lp.target.elts) == 2):
            continue
        kt = lp.target.elts[0]
        for st in ast.walk(lp):
            if isinstance(st, ast.Assign) and isinstance(
                    st.targets[0], ast.Subscript) and isinstance(
                    st.targets[0].slice, ast.Tuple) and len(
                    st.targets[0].slice.elts) == 2:
                a, b = (ast.unparse(x).replace(" ", "")
                        for x in st.targets[0].slice.elts)
                if isinstance(kt, ast.Name):
                    want = (f"{kt.id}[0]", f"{kt.id}[1]")
                elif isinstance(kt, ast.Tuple) and len(kt.elts) == 2:
                    want = tuple(ast.unparse(x) for x in kt.elts)
                else:
                    continue
                if {a, b} == set(want):
                    fill_ok = (a, b) == want
                    ctx.ob("D8.4", fi, st, fill_ok,
                           f"the matrix cell [{a}, {b}] receives the "
                           "distance of its key" + ("" if fill_ok else
                                                    ": transposed - every "
                                                    "leg is charged with "
                                                    "the distance of the "
                                                    "opposite direction"),
                           construct="distance matrix fill")
    if key_ok is None or fill_ok is None:
        ctx.ob("D8.4", fi, fi.node, False,
               "the way _from_stream turns <distance> records into the "
               "matrix is not recognised", construct="distance loader")
