"""C10 - run_ode as a boolean program with a typestate monitor.

`run_ode` is first normalised (`boolprog.stable_inline`: locals bound once to
a value that cannot have changed at their uses are inlined), then its CFG is
interpreted over partial valuations of

* its boolean flags (`is_finished = status == "finished"` ties the flag to
  the atom), the bound tracker's `is_ok`, the order atoms of the search for a
  covering interpolator (`D.t_min <= t`, `t <= D.t_max`, `index < len`), and
* ghosts that follow the protocol:  INIT / CLEAR (tracker reset, list
  emptied in this cycle), SF / SR (the solver's status is finished / running;
  only `step()` and the construction change it), PEND (a step was made and
  its interpolator not yet collected), STATE / CTRL / ROWOK (the state cells
  of the row being built are in place, the controller has filled its control
  cells from that state and the row's time, the whole row passed `_is_ok`
  afterwards), ALLOK (every earlier row did), TIME:<t> (`t` holds the time of
  the row being built), FRESH (an interpolator was picked since the index
  was advanced).

The obligations are `require`ments at the events (integrator construction,
step, collection, allocation of the rows, interpolation store, controller
call, row test, return); each must hold on every valuation that reaches the
event.  Which names play which role is discovered from the values they are
bound to, never from their spelling.
"""
from __future__ import annotations

import ast
from typing import Any

from sa.boolprog import (BoolProg, conj, disj, neg, names_of, refs_of,
                         stable_inline, var, vget, vset, vdel)
from sa.cfg import CFG, Node
from sa.report import Ctx
from sa.srcmodel import FuncInfo

MOD = "moptipyapps.dynamic_control.ode"


def _tg(s: ast.stmt) -> list[ast.expr]:
    if isinstance(s, ast.Assign):
        return list(s.targets)
    if isinstance(s, (ast.AnnAssign, ast.AugAssign)):
        return [s.target]
    return []


def _contains(outer: ast.AST, inner: ast.AST) -> bool:
    return any(x is inner for x in ast.walk(outer))


class RunOde:
    def __init__(self, ctx: Ctx, ro: FuncInfo) -> None:
        self.ctx, self.ro = ctx, ro
        repo = ctx.repo
        self.const = lambda e: repo.const(ro.module, e)
        links = refs_of(ro.node)
        self.fn, self.inlined = stable_inline(ro.node, links)
        self.cfg = CFG(self.fn)
        self.links = refs_of(self.fn)
        for k, v in links.items():      # the links of the inlined locals
            self.links.setdefault(k, set()).update(v)
        self.bp = BoolProg(self.cfg, self.const, self.links)
        p = ro.params
        self.start, self.ctrl, self.params = p[0], p[2], p[3]
        self.max_time = p[6] if len(p) > 6 else "max_time"
        self.steps = p[5] if len(p) > 5 else "steps"
        self.probs: dict[str, list[tuple[Any, str]]] = {}
        self._roles()

    # ------------------------------------------------------------ roles
    def _bindings(self, name: str) -> list[ast.stmt]:
        return [s for s in ast.walk(self.fn) if isinstance(
            s, (ast.Assign, ast.AnnAssign)) and getattr(
            s, "value", None) is not None and any(
            isinstance(t, ast.Name) and t.id == name for t in _tg(s))]

    def _roles(self) -> None:
        fn, repo, ro, ctx = self.fn, self.ctx.repo, self.ro, self.ctx
        body = [s for s in fn.body]
        self.outer = ctx.need(next(
            (s for s in body if isinstance(s, ast.While)), None),
            "run_ode: retry loop")
        # integrator: name bound to RK45(...)
        self.mk = None
        for s in ast.walk(self.outer):
            if isinstance(s, (ast.Assign, ast.AnnAssign)) and isinstance(
                    getattr(s, "value", None), ast.Call) and isinstance(
                    s.value.func, ast.Name) and s.value.func.id == "RK45" \
                    and isinstance(_tg(s)[0], ast.Name):
                self.mk = s
        ctx.need(self.mk is not None, "run_ode: integrator construction")
        self.INT = _tg(self.mk)[0].id
        # tracker: name bound to the integration-state class
        self.TR = None
        self.mk_state = None
        for s in ast.walk(fn):
            if isinstance(s, (ast.Assign, ast.AnnAssign)) and isinstance(
                    getattr(s, "value", None), ast.Call) and isinstance(
                    s.value.func, ast.Name) and \
                    "IntegrationState" in s.value.func.id and isinstance(
                    _tg(s)[0], ast.Name):
                self.TR, self.mk_state = _tg(s)[0].id, s.value
        ctx.need(self.TR is not None, "run_ode: bound tracker")
        # interpolator list: receiver of append(INT.dense_output())
        self.L = None
        for c in ast.walk(self.outer):
            if self._is_append(c):
                self.L = c.func.value.id
        self.no_append = self.L is None
        if self.L is None:
            # fall back on the list that is emptied per cycle / indexed
            for c in ast.walk(self.outer):
                if isinstance(c, ast.Call) and isinstance(
                        c.func, ast.Attribute) and c.func.attr == "clear" \
                        and isinstance(c.func.value, ast.Name) and any(
                        isinstance(b.value, ast.List)
                        for b in self._bindings(c.func.value.id)):
                    self.L = c.func.value.id
        ctx.need(self.L is not None,
                 "run_ode: collection of the interpolators")
        # result matrix: the name returned inside the retry loop
        rets = [r for r in ast.walk(self.outer) if isinstance(r, ast.Return)]
        ctx.need(len(rets) == 1 and isinstance(rets[0].value, ast.Name),
                 "run_ode: return of the simulated rows")
        self.ret = rets[0]
        self.RES = rets[0].value.id
        self.row_loop = None
        self.rowv = None
        self.row_range: tuple | None = None     # index form: (lo, hi) args
        for n in ast.walk(self.outer):
            if isinstance(n, ast.For) and isinstance(
                    n.iter, ast.Subscript) and isinstance(
                    n.iter.value, ast.Name) and n.iter.value.id == self.RES \
                    and isinstance(n.target, ast.Name):
                self.row_loop = n
                self.rowv = n.target.id
        if self.row_loop is None:
            # the index form: for k in range(a, b): row = RES[k]; ...
            for n in ast.walk(self.outer):
                if isinstance(n, ast.For) and isinstance(
                        n.target, ast.Name) and isinstance(
                        n.iter, ast.Call) and isinstance(
                        n.iter.func, ast.Name) and \
                        n.iter.func.id == "range" and n.body and isinstance(
                        n.body[0], (ast.Assign, ast.AnnAssign)) and \
                        isinstance(getattr(n.body[0], "value", None),
                                   ast.Subscript) and isinstance(
                        n.body[0].value.value, ast.Name) and \
                        n.body[0].value.value.id == self.RES and isinstance(
                        n.body[0].value.slice, ast.Name) and \
                        n.body[0].value.slice.id == n.target.id and \
                        isinstance(_tg(n.body[0])[0], ast.Name):
                    k_ = n.target.id
                    rebound = any(isinstance(x, ast.Name) and isinstance(
                        x.ctx, ast.Store) and x.id in (k_, self.RES)
                        for b_ in n.body for x in ast.walk(b_))
                    if not rebound:
                        self.row_loop = n
                        self.rowv = _tg(n.body[0])[0].id
                        self.row_range = tuple(n.iter.args)
        ctx.need(self.row_loop is not None,
                 "run_ode: loop over the result rows")
        self.alloc = [s for s in ast.walk(self.outer) if isinstance(
            s, (ast.Assign, ast.AnnAssign)) and getattr(
            s, "value", None) is not None and any(
            isinstance(t, ast.Name) and t.id == self.RES for t in _tg(s))]
        ctx.need(len(self.alloc) == 1, "run_ode: allocation of the rows")
        self.row0 = {t.id for s in ast.walk(self.outer) if isinstance(
            s, (ast.Assign, ast.AnnAssign)) and self._is_row0(getattr(
                s, "value", None)) for t in _tg(s)
            if isinstance(t, ast.Name)}
        self.okc = repo.func(MOD, "_is_ok")
        # names bound once to len(start)
        self.nnames = {n for n in names_of(fn) if len(
            self._bindings(n)) == 1 and self._is_len_start(
            self._bindings(n)[0].value) and not any(
            isinstance(x, ast.Name) and x.id == n and isinstance(
                x.ctx, ast.Store) and not _contains(self._bindings(n)[0], x)
            for x in ast.walk(fn))}
        self.step_loop = next((w for w in ast.walk(self.outer) if isinstance(
            w, ast.While) and w is not self.outer and any(
            self._is_step(c) for c in ast.walk(w))), None)
        self.search = next((w for w in ast.walk(self.row_loop) if isinstance(
            w, ast.While)), None)

    def _is_len_start(self, e: Any) -> bool:
        return isinstance(e, ast.Call) and isinstance(
            e.func, ast.Name) and e.func.id == "len" and len(
            e.args) == 1 and isinstance(
            e.args[0], ast.Name) and e.args[0].id == self.start

    def _is_n(self, e: Any) -> bool:
        return self._is_len_start(e) or (
            isinstance(e, ast.Name) and e.id in self.nnames)

    def _is_row0(self, e: Any) -> bool:
        return isinstance(e, ast.Subscript) and isinstance(
            e.value, ast.Name) and e.value.id == self.RES and not isinstance(
            e.slice, (ast.Slice, ast.Tuple)) and self.const(e.slice) == 0 \
            and not isinstance(self.const(e.slice), bool)

    def _is_append(self, c: Any) -> bool:
        return isinstance(c, ast.Call) and isinstance(
            c.func, ast.Attribute) and c.func.attr == "append" and \
            isinstance(c.func.value, ast.Name) and len(c.args) == 1 and \
            isinstance(c.args[0], ast.Call) and isinstance(
            c.args[0].func, ast.Attribute) and \
            c.args[0].func.attr == "dense_output" and isinstance(
            c.args[0].func.value, ast.Name) and \
            c.args[0].func.value.id == self.INT

    def _is_step(self, c: Any) -> bool:
        return isinstance(c, ast.Call) and isinstance(
            c.func, ast.Attribute) and c.func.attr == "step" and isinstance(
            c.func.value, ast.Name) and c.func.value.id == self.INT

    def _meth(self, s: Any, obj: str, attr: str) -> bool:
        return isinstance(s, ast.Expr) and isinstance(
            s.value, ast.Call) and isinstance(
            s.value.func, ast.Attribute) and s.value.func.attr == attr and \
            isinstance(s.value.func.value, ast.Name) and \
            s.value.func.value.id == obj

    # ------------------------------------------------------- row parts
    def part(self, e: ast.expr, inside: bool) -> tuple[str, str] | None:
        """(row, part) of an expression denoting cells of the result:
        row in {cur, row0, all, other}; part in {whole, state, ctrl, time,
        other}."""
        # a full slice of something is that something
        while isinstance(e, ast.Subscript) and isinstance(
                e.slice, ast.Slice) and e.slice.lower is None and \
                e.slice.upper is None and e.slice.step is None:
            e = e.value
        if isinstance(e, ast.Name):
            if inside and e.id == self.rowv:
                return "cur", "whole"
            if not inside and e.id in self.row0:
                return "row0", "whole"
            if e.id == self.RES:
                return "all", "whole"
            return None
        if not isinstance(e, ast.Subscript):
            return None
        sl = e.slice
        base = e.value
        if isinstance(base, ast.Name) and base.id == self.RES:
            if isinstance(sl, ast.Tuple) and len(sl.elts) == 2:
                r = self._rowsel(sl.elts[0])
                return r, self._cols(sl.elts[1])
            if isinstance(sl, ast.Slice):
                return self._rowsel(sl), "whole"
            return self._rowsel(sl), "whole"
        inner = self.part(base, inside)
        if inner is None or inner[1] != "whole" or inner[0] == "all":
            return (inner[0], "other") if inner else None
        return inner[0], self._cols(sl)

    def _rowsel(self, sl: ast.expr) -> str:
        if isinstance(sl, ast.Slice):
            if sl.lower is None and sl.upper is None and sl.step is None:
                return "all"
            return "other"
        c = self.const(sl)
        if c == 0 and not isinstance(c, bool):
            return "row0"
        return "other"

    def _cols(self, sl: ast.expr) -> str:
        if isinstance(sl, ast.Slice):
            if sl.step is not None:
                return "other"
            lo0 = sl.lower is None or (self.const(sl.lower) == 0)
            if lo0 and sl.upper is None:
                return "whole"
            if lo0 and self._is_n(sl.upper):
                return "state"
            if self._is_n(sl.lower) and sl.upper is not None and \
                    self.const(sl.upper) == -1:
                return "ctrl"
            if sl.lower is not None and self.const(
                    sl.lower) == -1 and sl.upper is None:
                return "time"
            return "other"
        if self.const(sl) == -1:
            return "time"
        return "other"

    # --------------------------------------------------------- problems
    def prob(self, rule: str, n: Any, msg: str) -> None:
        lst = self.probs.setdefault(rule, [])
        if all(m != msg for _, m in lst):
            lst.append((n, msg))

    def req(self, rule: str, n: Node, v: Any, f: Any, msg: str) -> None:
        if not self.bp.must(v, f):
            self.prob(rule, n.ast, msg)

    # ----------------------------------------------------------- model
    def analyse(self) -> None:
        bp, cfg = self.bp, self.cfg
        G = lambda k: var("g:" + k)     # noqa: E731
        for k in ("INIT", "CLEAR", "PEND", "SF", "SR", "STATE", "CTRL",
                  "ROWOK", "ALLOK", "FRESH", "BUILT"):
            bp.declare("g:" + k)
        int_fin = f"eqs:{self.INT}.status|'finished'"
        int_run = f"eqs:{self.INT}.status|'running'"
        bp.declare(int_fin, {self.INT}, True)
        bp.declare(int_run, {self.INT}, True)
        bp.client_owned |= {int_fin, int_run}
        ok_atom = bp.formula(ast.parse(f"{self.TR}.is_ok", mode="eval").body)
        okk = ok_atom[1]

        def tie(v: Any) -> Any:
            """The status atoms read what the solver's status is."""
            for ghost, atom in (("g:SF", int_fin), ("g:SR", int_run)):
                b = vget(v, ghost)
                v = vdel(v, atom) if b is None else vset(v, atom, b)
            return v

        def sets(v: Any, **kw: bool) -> Any:
            for k, b in kw.items():
                v = vset(v, "g:" + k, b)
            return v

        inside_rows = {id(x) for x in ast.walk(self.row_loop)}
        inside_outer = {id(x) for x in ast.walk(self.outer)}
        inside_search = {id(x) for x in ast.walk(self.search)} \
            if self.search is not None else set()
        outer_head = next(n for n in cfg.nodes if n.ast is self.outer
                          and n.kind == "join")
        row_head = next(n for n in cfg.nodes if n.ast is self.row_loop
                        and n.kind == "for")
        search_head = next((n for n in cfg.nodes if n.ast is self.search
                            and n.kind == "join"), None)
        step_nodes = {id(x) for x in ast.walk(self.step_loop)} \
            if self.step_loop is not None else set()
        idx_names: set[str] = set()
        for s in ast.walk(self.row_loop):
            if isinstance(s, (ast.Assign, ast.AnnAssign)) and isinstance(
                    getattr(s, "value", None), ast.Subscript) and isinstance(
                    s.value.value, ast.Name) and \
                    s.value.value.id == self.L and isinstance(
                    s.value.slice, ast.Name):
                idx_names.add(s.value.slice.id)
        self.idx_names = idx_names
        len_l = ast.parse(f"len({self.L})", mode="eval").body
        # the first node after the stepping loop
        after_step: set[int] = set()
        if self.step_loop is not None:
            for n in cfg.nodes:
                if n.ast is not None and id(n.ast) in step_nodes:
                    for m, lab in n.succ:
                        if m.ast is None or (
                                id(m.ast) not in step_nodes
                                and m.ast is not self.step_loop):
                            after_step.add(m.idx)

        def time_key(t: str) -> str:
            k = f"g:TIME:{t}"
            bp.declare(k, {t, self.rowv}, False)
            return k

        def pre(n: Node, v: Any) -> Any:
            a = n.ast
            if n.idx in after_step:
                self.req("D10.8", n, v, neg(conj(
                    G("SR"), neg(G("SF")), ok_atom, G("BUILT"))),
                    "a running integration whose step stayed inside the "
                    "bounds is not continued: the stepping loop can be left "
                    "while the solver is still running")
            if n is search_head:
                for i in sorted(self.idx_names):
                    iname = ast.Name(id=i, ctx=ast.Load())
                    self.req("D10.7", n, v, disj(
                        neg(G("FRESH")), bp.order(iname, ast.Lt(), len_l)),
                        "when the interpolators are exhausted the search "
                        "loop is not left: a new round can start with "
                        f"`{i}` past the end of the list (the search need "
                        "not terminate)")
            if n.kind != "stmt" or a is None:
                return None
            inside = id(a) in inside_rows
            if a is self.mk:
                self.req("D10.8", n, v, G("INIT"),
                         "a cycle can start without the bound tracker "
                         "being reset (.init())")
                self.req("D10.8", n, v, G("CLEAR"),
                         "a cycle can start with the interpolators of an "
                         "earlier cycle still in the list (.clear())")
            elif isinstance(a, ast.Expr) and self._is_step(a.value):
                self.req("D10.8", n, v, neg(G("SF")),
                         "a finished integration is stepped again")
                self.req("D10.8", n, v, disj(G("SR"), G("SF")),
                         "a failed integration is stepped again")
                self.req("D10.8", n, v, neg(G("PEND")),
                         "a step can be followed by the next step without "
                         "its interpolator being collected")
                self.req("D10.8", n, v, G("BUILT"),
                         "step() before the integrator of this cycle is "
                         "built")
            elif isinstance(a, ast.Expr) and self._is_append(a.value):
                self.req("D10.8", n, v, G("PEND"),
                         "an interpolator is collected without a step")
                self.req("D10.8", n, v, ok_atom,
                         "an out-of-bounds step still contributes an "
                         "interpolator (the bound tracker is not consulted "
                         "after the step)")
            elif a is self.alloc[0]:
                self.req("D10.8", n, v, G("SF"),
                         "the rows are built although the integration did "
                         "not finish: the finished flag does not mean "
                         "`status == 'finished'`")
                self.req("D10.2", n, v, ok_atom,
                         "the rows are built although the integration left "
                         "the bounds (bound tracker's is_ok not required)")
                self.req("D10.8", n, v, neg(G("PEND")),
                         "a finished step does not contribute its "
                         "interpolator")
            elif a is self.ret:
                self.req("D10.2", n, v, conj(G("ALLOK"), G("ROWOK")),
                         "a row can be returned unchecked: on some path to "
                         "`return` a row was not tested by _is_ok as a whole "
                         "after its state and control cells were written, "
                         "or the test failed")
            elif id(a) in inside_outer:
                self._row_events_pre(n, v, inside)
            return None

        def post(n: Node, v: Any) -> Any:
            a = n.ast
            if n is outer_head:
                return sets(v, INIT=False, CLEAR=False, BUILT=False)
            if n.kind != "stmt" or a is None:
                return None
            inside = id(a) in inside_rows
            if self._meth(a, self.TR, "init"):
                return vset(sets(v, INIT=True), okk, True)
            if self._meth(a, self.L, "clear"):
                return sets(v, CLEAR=True)
            if a is self.mk:
                return tie(sets(v, PEND=False, SF=False, SR=True,
                                BUILT=True))
            if isinstance(a, ast.Expr) and self._is_step(a.value):
                v = vdel(vdel(v, "g:SF"), "g:SR")
                out = []
                for sf, sr in ((True, False), (False, True), (False, False)):
                    out.append(tie(vdel(sets(v, SF=sf, SR=sr, PEND=True),
                                        okk)))
                return out
            if isinstance(a, ast.Expr) and self._is_append(a.value):
                return tie(sets(v, PEND=False))
            if a is self.alloc[0]:
                return sets(v, ALLOK=True, ROWOK=False, STATE=False,
                            CTRL=False, FRESH=False)
            # any other statement that mentions the integrator keeps the
            # status atoms tied to the ghosts
            v = tie(v)
            if id(a) not in inside_outer:
                return v
            return self._row_events_post(n, v, inside, sets, time_key)

        def on_edge(n: Node, lab: object, v: Any) -> Any:
            if n is row_head:
                if lab == "iter":
                    allok = vget(v, "g:ALLOK") is True and \
                        vget(v, "g:ROWOK") is True
                    v = sets(v, ALLOK=allok, ROWOK=False, STATE=False,
                             CTRL=False, FRESH=False)
                    for k, _ in list(v):
                        if k.startswith("g:TIME:"):
                            v = vdel(v, k)
                    return v
                return None
            if n.kind == "test" and lab is True and isinstance(
                    n.ast, ast.Call) and isinstance(
                    n.ast.func, ast.Name) and self.ctx.repo.resolve(
                    self.ro.module, n.ast.func.id) is self.okc and \
                    n.ast.args:
                inside = id(n.ast) in inside_rows
                pt = self.part(n.ast.args[0], inside)
                want = "cur" if inside else "row0"
                if pt == (want, "whole"):
                    if vget(v, "g:STATE") is True and \
                            vget(v, "g:CTRL") is True:
                        return sets(v, ROWOK=True)
                    self.prob("D10.3", n.ast,
                              "a row reaches its _is_ok test (and possibly "
                              "the caller) without its state and control "
                              "cells having been computed (state from the "
                              "start / a covering interpolator, controls by "
                              "the controller for that state and time)")
            return None

        bp.pre, bp.post, bp.on_edge = pre, post, on_edge
        self.G = G
        self.len_l = len_l
        self.inside_search = inside_search
        bp.run()

    # the events on rows -------------------------------------------------
    def _row_events_pre(self, n: Node, v: Any, inside: bool) -> None:
        a, bp, G = n.ast, self.bp, self.G
        want = "cur" if inside else "row0"
        if isinstance(a, (ast.Assign, ast.AnnAssign)) and getattr(
                a, "value", None) is not None:
            val = a.value
            for t in _tg(a):
                # picking an interpolator by a moving index
                if isinstance(t, ast.Name) and isinstance(
                        val, ast.Subscript) and isinstance(
                        val.value, ast.Name) and val.value.id == self.L \
                        and inside:
                    self.req("D10.7", n, v, bp.order(
                        val.slice, ast.Lt(), self.len_l),
                        f"`{ast.unparse(val)}` is read without the index "
                        "having been compared with the number of "
                        "interpolators (it may lie past the end)")
                pt = self.part(t, inside) if isinstance(
                    t, ast.Subscript) else None
                if pt is not None and pt == (want, "state") and inside:
                    if isinstance(val, ast.Call) and isinstance(
                            val.func, ast.Name) and len(
                            val.args) == 1 and not val.keywords and \
                            isinstance(val.args[0], ast.Name):
                        d, tn = val.func.id, val.args[0].id
                        dmin = ast.parse(f"{d}.t_min", mode="eval").body
                        dmax = ast.parse(f"{d}.t_max", mode="eval").body
                        cover = conj(
                            bp.order(dmin, ast.LtE(), val.args[0]),
                            bp.order(val.args[0], ast.LtE(), dmax))
                        self.req("D10.7", n, v, cover,
                                 f"`{ast.unparse(a)}`: the state can be "
                                 f"interpolated without `{d}.t_min <= {tn} "
                                 f"<= {d}.t_max` having been found to hold "
                                 "for that interpolator and time")
                        bp.declare(f"g:TIME:{tn}", {tn, self.rowv}, False)
                        self.req("D10.7", n, v, var(f"g:TIME:{tn}"),
                                 f"`{ast.unparse(a)}`: `{tn}` is not the "
                                 "time cell of the row that is filled")
        if isinstance(a, ast.Expr) and isinstance(a.value, ast.Call) and \
                isinstance(a.value.func, ast.Name) and \
                a.value.func.id == self.ctrl:
            ok, why = self._ctrl_call_ok(a.value, v, inside)
            if not ok:
                self.prob("D10.3", a.value,
                          f"`{ast.unparse(a.value)}` does not receive the "
                          "state / time / control cells of the row that is "
                          f"being built ({why})")
        # advancing the index although the interpolator covers the time
        if inside and isinstance(a, (ast.Assign, ast.AugAssign)) and any(
                isinstance(t, ast.Name) and t.id in self.idx_names
                for t in _tg(a)) and id(a) in self.inside_search:
            cov = self._cover_of_search()
            if cov is not None:
                self.req("D10.7", n, v, neg(cov),
                         "the search moves on although the current "
                         "interpolator covers the row's time (a covering "
                         "interpolator can be skipped)")

    def _cover_of_search(self) -> Any:
        """The covering condition of the interpolator that the rows use."""
        bp = self.bp
        for s in ast.walk(self.row_loop):
            if isinstance(s, ast.Assign) and isinstance(
                    s.value, ast.Call) and isinstance(
                    s.value.func, ast.Name) and len(
                    s.value.args) == 1 and isinstance(
                    s.targets[0], ast.Subscript) and self.part(
                    s.targets[0], True) == ("cur", "state"):
                d = s.value.func.id
                dmin = ast.parse(f"{d}.t_min", mode="eval").body
                dmax = ast.parse(f"{d}.t_max", mode="eval").body
                return conj(bp.order(dmin, ast.LtE(), s.value.args[0]),
                            bp.order(s.value.args[0], ast.LtE(), dmax))
        return None

    def _ctrl_call_ok(self, c: ast.Call, v: Any, inside: bool
                      ) -> tuple[bool, str]:
        if c.keywords or len(c.args) != 4:
            return False, "four positional arguments expected"
        a0, a1, a2, a3 = c.args
        want = "cur" if inside else "row0"
        if self.part(a3, inside) != (want, "ctrl"):
            return False, "the output is not the control part of that row"
        if not (isinstance(a2, ast.Name) and a2.id == self.params):
            return False, "the parameters are not passed on"
        if inside:
            if self.part(a0, inside) != ("cur", "state"):
                return False, "the state is not the state part of that row"
            if isinstance(a1, ast.Name):
                if vget(v, f"g:TIME:{a1.id}") is not True:
                    return False, f"`{a1.id}` is not that row's time"
            elif self.part(a1, inside) != ("cur", "time"):
                return False, "the time is not that row's time"
            if vget(v, "g:STATE") is not True:
                return False, "the row's state is not in place yet"
            return True, ""
        st_ok = (isinstance(a0, ast.Name) and a0.id == self.start) or (
            self.part(a0, inside) == ("row0", "state")
            and vget(v, "g:STATE") is True)
        if not st_ok:
            return False, "the state is not the starting state"
        if not (self.const(a1) == 0 and not isinstance(
                self.const(a1), bool)):
            return False, "the first row's time is 0"
        return True, ""

    def _row_events_post(self, n: Node, v: Any, inside: bool, sets: Any,
                         time_key: Any) -> Any:
        a = n.ast
        want = "cur" if inside else "row0"
        if isinstance(a, ast.Expr) and isinstance(a.value, ast.Call) and \
                isinstance(a.value.func, ast.Name) and \
                a.value.func.id == self.ctrl:
            ok, _ = self._ctrl_call_ok(a.value, v, inside)
            return sets(v, CTRL=ok, ROWOK=False)
        if isinstance(a, (ast.Assign, ast.AnnAssign, ast.AugAssign)) and \
                getattr(a, "value", None) is not None:
            val = a.value
            for t in _tg(a):
                if isinstance(t, ast.Name):
                    if t.id in self.idx_names and inside:
                        v = sets(v, FRESH=True)
                    if isinstance(a, (ast.Assign, ast.AnnAssign)) and \
                            inside and isinstance(
                            val, ast.Subscript) and self.part(
                            val, inside) == ("cur", "time"):
                        v = vset(v, time_key(t.id), True)
                    continue
                if not isinstance(t, ast.Subscript):
                    continue
                pt = self.part(t, inside)
                if pt is None:
                    continue
                row, what = pt
                if isinstance(a, ast.AugAssign):
                    what = "other"
                if (row, what) == (want, "state"):
                    good = False
                    if not inside:
                        good = isinstance(val, ast.Name) and \
                            val.id == self.start
                    else:
                        good = isinstance(val, ast.Call) and isinstance(
                            val.func, ast.Name) and len(val.args) == 1
                    v = sets(v, STATE=good, CTRL=False, ROWOK=False)
                elif (row, what) == ("all", "time"):
                    pass        # the time column: D10.4 decides its value
                elif what == "ctrl":
                    self.prob("D10.3", a,
                              f"`{ast.unparse(a)[:60]}` writes control cells "
                              "directly: they must come from the controller")
                    v = sets(v, CTRL=False, ROWOK=False, ALLOK=False)
                else:
                    # some other write into the rows: nothing is known
                    # about the rows any more
                    v = sets(v, ROWOK=False, ALLOK=False, STATE=False,
                             CTRL=False)
        return v


def check(ctx: Ctx, ro: FuncInfo) -> None:
    m = RunOde(ctx, ro)
    m.analyse()
    if m.no_append:
        m.prob("D10.8", m.step_loop or m.outer,
               "no step's interpolator is ever collected "
               f"(`{m.L}.append({m.INT}.dense_output())` not found)")
    ctx.count("run_ode_inlined_locals", len(m.inlined))
    ctx.count("run_ode_boolean_states",
              sum(len(s) for s in m.bp.state.values()))
    ctx.count("run_ode_atoms", len(m.bp.vars))
    _static(ctx, ro, m)
    texts = {
        "D10.2": ("rows checked",
                  "the multi-row result is returned only when row 0 and "
                  "every later row passed _is_ok as a WHOLE row after its "
                  "state and control cells were written; a failing test "
                  "never leads to that return; the rows are built only after "
                  "a finished integration that stayed inside the bounds "
                  "(relational analysis of the flags over "
                  f"{sum(len(s) for s in m.bp.state.values())} boolean "
                  "states)"),
        "D10.3": ("controller called for every row",
                  "before a row is tested the controller has been called, "
                  "on every path, as controller(<state of that row>, <time "
                  "of that row>, parameters, <control cells of that row>) "
                  "after the state was put in place; control cells are "
                  "never written otherwise"),
        "D10.7": ("state from a covering interpolator",
                  "a later row's state is interpolator(t) only where "
                  "t_min <= t <= t_max is known to hold for that very "
                  "interpolator and the row's own time; the search moves on "
                  "only while that fails, compares the advanced index with "
                  "the list length before using it, and is left when the "
                  "list is exhausted"),
        "D10.8": ("integration cycle protocol",
                  "every cycle resets the bound tracker and empties the "
                  "interpolator list before building the integrator; each "
                  "step's interpolator is collected before the next step "
                  "unless the step left the bounds; a finished solver is "
                  "not stepped again, a running one is; rows are built only "
                  "when the solver's status is 'finished'"),
    }
    for rule, (construct, good) in texts.items():
        ps = m.probs.get(rule, [])
        node = ps[0][0] if ps else m.outer
        ctx.ob(rule, ro, node, not ps,
               good if not ps else "; ".join(msg for _, msg in ps),
               construct=construct)


def _static(ctx: Ctx, ro: FuncInfo, m: RunOde) -> None:
    """The value-level parts: arguments of the constructions, the ranges."""
    repo, const = ctx.repo, m.const
    # row loop visits rows 1..
    it = m.row_loop.iter
    if m.row_range is not None:
        a_ = m.row_range
        hi_ = ast.unparse(a_[1]).replace(" ", "") if len(a_) == 2 else ""
        it_ok = len(a_) == 2 and const(a_[0]) == 1 and hi_ in (
            f"len({m.RES})", f"{m.RES}.shape[0]", m.steps)
    else:
        it_ok = isinstance(it.slice, ast.Slice) and const(
            it.slice.lower) == 1 and it.slice.upper is None and \
            it.slice.step is None
    ctx.ob("D10.2", ro, m.row_loop, bool(it_ok),
           "the row loop visits result[1:], i.e. every row after the first"
           if it_ok else f"the row loop visits `{ast.unparse(it)}` - rows "
           "are skipped or row 0 is recomputed", construct="row loop range")
    # integrator arguments
    kws = {k.arg: k.value for k in m.mk.value.keywords}
    # scipy's RK45(fun, t0, y0, t_bound, ...): positional spelling
    for nm_, a_ in zip(("fun", "t0", "y0", "t_bound"), m.mk.value.args):
        kws.setdefault(nm_, a_)
    bad = []
    if const(kws.get("t0")) != 0:
        bad.append("t0 is not 0.0")
    y0 = kws.get("y0")
    if not (isinstance(y0, ast.Name) and y0.id == m.start):
        bad.append("y0 is not the starting state")
    tb = kws.get("t_bound")
    if not (isinstance(tb, ast.Name) and tb.id == m.max_time):
        bad.append("t_bound is not max_time")
    fun = kws.get("fun")
    f_ok = isinstance(fun, ast.Attribute) and isinstance(
        fun.value, ast.Name) and fun.value.id == m.TR and fun.attr == "f"
    if not f_ok and isinstance(fun, ast.Name):
        b = m._bindings(fun.id)
        f_ok = len(b) == 1 and isinstance(
            b[0].value, ast.Attribute) and isinstance(
            b[0].value.value, ast.Name) and b[0].value.value.id == m.TR \
            and b[0].value.attr == "f"
    if not f_ok:
        bad.append("fun is not the bound tracker's f")
    # the bound tracker is built from this call's own arguments
    r_ = repo.resolve(ro.module, m.mk_state.func.id)
    init_ = getattr(r_, "methods", {}).get("__init__") if r_ else None
    if init_ is not None:
        want_ = init_.params[1:]
        from sa.srcmodel import bound_args as _ba
        ba_ = _ba(m.mk_state, list(want_))
        got_ = [ast.unparse(ba_[w]) if w in ba_ else "?" for w in want_]
        if got_ != want_ or any(
                w not in ro.params for w in want_):
            bad.append(f"the bound tracker is created with ({', '.join(got_)}"
                       f") for parameters ({', '.join(want_)})")
        ini = getattr(r_, "methods", {}).get("init")
        sets_ok = ini is not None and any(
            isinstance(s, ast.Assign) and isinstance(
                s.targets[0], ast.Attribute) and
            s.targets[0].attr == "is_ok" and repo.const(
                ini.module, s.value) is True for s in ast.walk(ini.node))
        if not sets_ok:
            bad.append("the tracker's init() does not set is_ok")
    for lp in (m.outer, m.step_loop):
        if lp is not None and const(lp.test) is False:
            bad.append(f"`while {ast.unparse(lp.test)}` at line {lp.lineno} "
                       "never runs")
    ctx.ob("D10.8", ro, m.mk, not bad,
           "the integrator starts at time 0 from the starting state, runs up "
           "to max_time over the tracker's f; the tracker is built from "
           "this call's own arguments" if not bad else "; ".join(bad),
           construct="integrator and tracker arguments")
    # the search: index starts at 0, advances by one in every round
    bad7 = []
    for i in sorted(m.idx_names):
        pre = [s for s in ast.walk(m.outer) if isinstance(
            s, (ast.Assign, ast.AnnAssign, ast.AugAssign)) and any(
            isinstance(t, ast.Name) and t.id == i for t in _tg(s))]
        outside = [s for s in pre if not _contains(m.row_loop, s)]
        inside = [s for s in pre if _contains(m.row_loop, s)]
        if len(outside) != 1 or isinstance(outside[0], ast.AugAssign) or \
                const(outside[0].value) != 0:
            bad7.append("the search does not start at the first "
                        f"interpolator (`{i}` is not 0 before the rows)")
        for s in inside:
            if not _plus_one(s, i, const):
                bad7.append(f"`{ast.unparse(s)}`: the interpolator index "
                            "does not advance by exactly one")
        if m.search is not None:
            cfg = m.cfg
            head = next(n for n in cfg.nodes if n.ast is m.search
                        and n.kind == "join")
            incs = [n for n in cfg.nodes if n.kind == "stmt" and any(
                n.ast is s for s in inside)]
            tests = [n for n in cfg.nodes if n.kind == "test"
                     and _contains(m.search.test, n.ast)]
            body_ids = {id(x) for st in m.search.body for x in ast.walk(st)}
            entries = {mm for t in tests for mm, _ in t.succ
                       if mm.ast is not None and id(mm.ast) in body_ids}
            for s0 in entries:
                if s0 in incs:
                    continue
                if cfg.can_reach_avoiding(s0, head, lambda n: n in incs):
                    bad7.append(
                        f"a round of the search does not advance `{i}`: "
                        "the search may not terminate")
                    break
    if m.search is not None and not m.idx_names:
        bad7.append("the search loop does not advance through the "
                    "interpolators by a moving index: it need not terminate")
    # the first interpolator is picked before the rows
    first_pick = [s for s in ast.walk(m.outer) if isinstance(
        s, (ast.Assign, ast.AnnAssign)) and isinstance(
        getattr(s, "value", None), ast.Subscript) and isinstance(
        s.value.value, ast.Name) and s.value.value.id == m.L
        and not _contains(m.row_loop, s)]
    for s in first_pick:
        sl = s.value.slice
        if not (const(sl) == 0 or (isinstance(sl, ast.Name)
                                   and sl.id in m.idx_names)):
            bad7.append(f"`{ast.unparse(s)}`: the first interpolator is not "
                        "the one the index stands at")
    ctx.ob("D10.7", ro, m.search or m.row_loop, not bad7,
           "the search starts at interpolator 0 and every round advances "
           "the index by exactly one" if not bad7 else "; ".join(
               dict.fromkeys(bad7)),
           construct="search index discipline")


def _plus_one(s: ast.stmt, nm: str, const: Any) -> bool:
    if isinstance(s, ast.AugAssign):
        return isinstance(s.op, ast.Add) and const(s.value) == 1
    v = getattr(s, "value", None)
    if isinstance(v, ast.BinOp) and isinstance(v.op, ast.Add):
        l_, r_ = v.left, v.right
        return (isinstance(l_, ast.Name) and l_.id == nm and const(r_) == 1)\
            or (isinstance(r_, ast.Name) and r_.id == nm and const(l_) == 1)
    return False
