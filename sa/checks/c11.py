"""C11 - the controller figure of merit is a pure function of the parameters."""
from __future__ import annotations

import ast
from typing import Any

from sa.cfg import CFG, Node, calls_in
from sa.guards import GuardWalk, is_opaque
from sa.kern import make_evaluator
from sa.report import Ctx
from sa.srcmodel import inline_locals, ClassInfo, FuncInfo, func_body, mangle
from sa.symterm import Env, Poly, Unsupported, show_cond

OBJ = "moptipyapps.dynamic_control.objective"
SUR = "moptipyapps.dynamic_control.surrogate_optimizer"


def _self_attr(t: ast.AST) -> str | None:
    if isinstance(t, ast.Attribute) and isinstance(
            t.value, ast.Name) and t.value.id == "self":
        return t.attr
    return None


def _normalised_class(repo: Any, c: ClassInfo) -> ClassInfo:
    """The class with every method in the canonical spelling of
    `srcmodel.normalised` (rules of this check match statement shapes)."""
    import dataclasses
    from sa.srcmodel import normalised
    return dataclasses.replace(c, methods={
        k: normalised(repo, m, c) for k, m in c.methods.items()})


def run(ctx: Ctx) -> None:
    ctx.explanation = (
        "Field-write discipline of FigureOfMerit / FigureOfMeritLE decided "
        "on the AST and CFG: D11.1 evaluate() and everything it reaches in "
        "the class writes only the per-case result cells and, through "
        "__append, the two collection lists - the latter only when the "
        "collect flag is set; D11.2 every method that assigns the equations "
        "also assigns the collect flag, as (real system, 'collection "
        "enabled') or (model, False); D11.3 every result cell is written "
        "before the results are summed (so the in-place log1p of the LE "
        "variant cannot leak into a later call); D11.4 every return of "
        "evaluate is the literal 1e200 or guarded by 0 <= v <= 1e100; "
        "D11.6 every field some method grows (append/extend/insert/+=) is "
        "emptied by initialize() on every path on which it is a list, the "
        "two collections are appended to in the same block, and initialize() "
        "unconditionally returns to real-system mode; "
        "D11.7 evaluate() simulates every training case with the "
        "instance's training starts, the current equations, the instance's "
        "controller, control dimension, steps and time, for the vector "
        "being evaluated (call binding through the constructor's field "
        "provenance), scores it with len(training[0]), the instance's "
        "state_dims_in_j and gamma, stops with 1e200 exactly on a case "
        "outside [0, 1e100] (polarity on the CFG), records every case that "
        "continues when collecting, and returns sum_up_results(results) = "
        "mean / exp(mean(log(J+1)))-1; D11.8 get_differentials returns the "
        "two concatenations in (state+control, differential) order and "
        "replaces each collection by exactly its own concatenation; "
        "D11.5 in SurrogateOptimizer.solve the disabling of initialize() "
        "and the model mode are each closed again on every normal path "
        "before the loop repeats and before process.evaluate runs. Not "
        "decided: history dependence inside scipy / numba.")
    for rid, txt in (("D11.1", "evaluate's write set"),
                     ("D11.2", "(equations, collect) pairing"),
                     ("D11.3", "results written before summed"),
                     ("D11.4", "returned values in [0,1e100] or 1e200"),
                     ("D11.5", "surrogate optimizer restores real mode"),
                     ("D11.6", "initialize() restores the freshly created "
                               "state")):
        ctx.rule(rid, txt)
    repo = ctx.repo
    fom = _normalised_class(repo, repo.cls(OBJ, "FigureOfMerit"))
    le = _normalised_class(repo, repo.cls(OBJ, "FigureOfMeritLE"))
    _write_set(ctx, fom, le)
    _pairing(ctx, fom, le)
    _results_written(ctx, fom)
    _returns(ctx, fom)
    _surrogate(ctx)
    _reset(ctx, fom, le)
    ctx.rule("D11.7", "evaluate() computes the documented value from the "
             "documented inputs")
    _assembly(ctx, fom, le)
    ctx.rule("D11.8", "get_differentials neither loses nor duplicates "
             "samples")
    _compaction(ctx, fom)
    ctx.rule("D11.9", "the surrogate optimizer writes model equations only "
             "into a private copy of the system")
    _scratch_system(ctx)
    ctx.assumptions += [
        "controllers and system equations do not mutate their inputs "
        "(C16 D16.6)",
        "run_ode / j_from_ode / diff_from_ode keep no state (module-level "
        "functions without globals: checked structurally here)",
    ]


# ------------------------------------------------------------------ D11.1
class _EvalModel:
    """evaluate() expanded path by path with every local inlined."""

    def __init__(self, ctx: Ctx, fom: ClassInfo) -> None:
        from sa.pathinline import Path, paths
        from sa.srcmodel import inline_locals
        self.ctx = ctx
        self.fom = fom
        self.ev = fom.methods["evaluate"]
        init = fom.methods["__init__"]
        #: field -> the value __init__ assigns (locals of __init__ inlined)
        self.src_of: dict[str, str] = {}
        for n in ast.walk(init.node):
            if isinstance(n, (ast.Assign, ast.AnnAssign)) and \
                    n.value is not None:
                f = _self_attr(n.targets[0] if isinstance(n, ast.Assign)
                               else n.target)
                if f is not None:
                    self.src_of[f] = ast.unparse(inline_locals(
                        init.node, n.value)).replace(" ", "")
        body = func_body(self.ev)
        self.loop = next((s_ for s_ in body if isinstance(s_, ast.For)),
                         None)
        self.body_paths: list[Any] = []
        self.pre: list[Any] = []
        self.iter_src: ast.AST | None = None
        if self.loop is None:
            return
        k = body.index(self.loop)
        self.pre = paths(body[:k])
        assigned = {n.id for n in ast.walk(self.loop) if isinstance(
            n, ast.Name) and isinstance(n.ctx, ast.Store)}
        from sa.pathinline import subst
        for pp in self.pre:
            env = {a: b for a, b in pp.env.items() if a not in assigned}
            self.iter_src = subst(self.loop.iter, env)
            for q in paths(self.loop.body, Path(env=env, guards=pp.guards,
                                                objs=dict(pp.objs))):
                if self.feasible(q.guards):
                    self.body_paths.append(q)

    # -------------------------------------------------------------- guards
    def _not_none(self, e: ast.AST) -> bool | None:
        if isinstance(e, ast.Constant) and e.value is None:
            return False
        a = _self_attr(e)
        if a is not None and self._method(a) is not None:
            return True
        return None

    def _method(self, attr: str) -> Any:
        nm = attr
        pre = "_" + self.fom.name.lstrip("_")
        if nm.startswith(pre + "__"):
            nm = nm[len(pre):]
        return self.fom.methods.get(nm) or self.fom.methods.get(
            mangle(self.fom.name, nm))

    @staticmethod
    def norm(test: ast.AST, truth: bool) -> tuple[str, bool]:
        while isinstance(test, ast.UnaryOp) and isinstance(
                test.op, ast.Not):
            test, truth = test.operand, not truth
        return ast.unparse(test), truth

    def feasible(self, guards: tuple) -> bool:
        seen: dict[str, bool] = {}
        for test, truth in guards:
            t, tr = test, truth
            while isinstance(t, ast.UnaryOp) and isinstance(t.op, ast.Not):
                t, tr = t.operand, not tr
            if isinstance(t, ast.Compare) and len(t.ops) == 1 and \
                    isinstance(t.ops[0], (ast.Is, ast.IsNot)):
                sides = [t.left, t.comparators[0]]
                other = next((x for x in sides if not (isinstance(
                    x, ast.Constant) and x.value is None)), None)
                has_none = any(isinstance(x, ast.Constant)
                               and x.value is None for x in sides)
                if has_none:
                    nn = True if other is None and False else (
                        self._not_none(other) if other is not None
                        else False)
                    if other is None:
                        nn = False           # None is None
                    if nn is not None:
                        is_not = isinstance(t.ops[0], ast.IsNot)
                        val = nn if is_not else not nn
                        if val != tr:
                            return False
                        continue
            key, pol = self.norm(t, tr)
            if key in seen and seen[key] != pol:
                return False
            seen[key] = pol
        return True

    def has_guard(self, guards: tuple, field: str, truth: bool) -> bool:
        for test, tr in guards:
            key, pol = self.norm(test, tr)
            t = ast.parse(key, mode="eval").body
            a = _self_attr(t)
            if a is not None and (a == field or a.endswith(field)) and \
                    pol == truth:
                return True
        return False

    def is_append_call(self, c: ast.AST) -> bool:
        if not isinstance(c, ast.Call):
            return False
        a = _self_attr(c.func)
        if a is None:
            return False
        m = self._method(a)
        return m is not None and m.name == "__append"


def _write_set(ctx: Ctx, fom: ClassInfo, le: ClassInfo) -> None:
    repo = ctx.repo
    ev = fom.methods["evaluate"]
    # aliases of self fields inside evaluate
    alias: dict[str, str] = {}
    for n in ast.walk(ev.node):
        if isinstance(n, (ast.Assign, ast.AnnAssign)) and n.value is not None:
            tg = n.targets[0] if isinstance(n, ast.Assign) else n.target
            if isinstance(tg, ast.Name):
                v = n.value
                if isinstance(v, ast.IfExp):
                    a = _self_attr(v.body) or _self_attr(v.orelse)
                    if a:
                        alias[tg.id] = a
                else:
                    a = _self_attr(v)
                    if a:
                        alias[tg.id] = a
    writes: list[tuple[ast.AST, str]] = []
    reached: list[FuncInfo] = [ev]
    seen = {ev}
    while reached:
        m = reached.pop()
        for n in ast.walk(m.node):
            if isinstance(n, (ast.Assign, ast.AugAssign, ast.AnnAssign)):
                tgs = n.targets if isinstance(n, ast.Assign) else [n.target]
                for t in tgs:
                    for tt in ([t] if not isinstance(t, ast.Tuple)
                               else t.elts):
                        a = _self_attr(tt)
                        if a:
                            writes.append((n, f"self.{a} (assignment)"))
                        if isinstance(tt, ast.Subscript):
                            base = tt.value
                            if isinstance(base, ast.Name) and m is ev and \
                                    base.id in alias:
                                writes.append(
                                    (n, f"self.{alias[base.id]}[...]"))
                            a2 = _self_attr(base)
                            if a2:
                                writes.append((n, f"self.{a2}[...]"))
            if isinstance(n, ast.Call) and isinstance(
                    n.func, ast.Attribute):
                a = _self_attr(n.func.value)
                if a and n.func.attr in ("append", "clear", "extend",
                                         "pop", "fill", "sort"):
                    writes.append((n, f"self.{a}.{n.func.attr}()"))
                if isinstance(n.func.value, ast.Name) and \
                        n.func.value.id == "self":
                    for c in (le, fom):
                        nm = n.func.attr
                        pre = "_" + c.name.lstrip("_")
                        if nm.startswith(pre + "__"):
                            nm = nm[len(pre):]
                        tgt = c.methods.get(nm) or c.methods.get(
                            mangle(c.name, nm))
                        if tgt is not None and tgt not in seen:
                            seen.add(tgt)
                            reached.append(tgt)
            if isinstance(n, ast.Call) and isinstance(n.func, ast.Name) and \
                    m is ev and n.func.id in alias:
                # calling an aliased bound method (collector = self.__append)
                nm = alias[n.func.id]
                for c in (fom,):
                    tgt = c.methods.get(nm)
                    if tgt is not None and tgt not in seen:
                        seen.add(tgt)
                        reached.append(tgt)
            # np.log1p(results, results) style in-place ufuncs on parameters
    allowed = {"self.__results[...]", "self.__collection_sc.append()",
               "self.__collection_df.append()"}
    bad = [(n, w) for n, w in writes if w not in allowed]
    ctx.ob("D11.1", ev, bad[0][0] if bad else ev.node, not bad,
           "evaluate() and the methods it reaches write only "
           f"{sorted(set(w for _, w in writes))}" if not bad else
           f"evaluate() reaches a write of {bad[0][1]}: the objective "
           "carries state from one evaluation to the next",
           construct="write set of evaluate")
    ctx.count("methods_reached_from_evaluate", len(seen))
    # the appender runs only when collecting: on every path through an
    # iteration, a call of __append (however it is named locally) sits
    # behind a test of the collect flag
    em = _EvalModel(ctx, fom)
    n_app = 0
    ok = bool(em.body_paths)
    for q in em.body_paths:
        for e in q.events:
            if e.kind == "expr" and em.is_append_call(e.value):
                n_app += 1
                if not em.has_guard(e.guards, "__collect", True):
                    ok = False
            elif e.kind == "expr" and isinstance(
                    e.value, ast.Call) and isinstance(
                    e.value.func, ast.Constant):
                ok = False            # calling None
    ok = ok and n_app > 0
    ctx.ob("D11.1", ev, ev.node, ok,
           f"training data is appended only through __append ({n_app} "
           "call paths), and only when the collect flag is set" if ok else
           "the data collector is not tied to the collect flag",
           construct="collector guarded by collect flag")
    # helpers are module level functions without global state
    odem = repo.module("moptipyapps.dynamic_control.ode")
    for fn in ("run_ode", "j_from_ode", "diff_from_ode"):
        fi = odem.funcs.get(fn)
        ctx.need(fi is not None, f"ode.{fn}")
        glb = [n for n in ast.walk(fi.node)
               if isinstance(n, (ast.Global, ast.Nonlocal))]
        attrs = [n for n in ast.walk(fi.node) if isinstance(
            n, (ast.Assign, ast.AugAssign)) and any(
            isinstance(t, ast.Attribute) and isinstance(
                t.value, ast.Name) and t.value.id == fn
            for t in (n.targets if isinstance(n, ast.Assign)
                      else [n.target]))]
        ctx.ob("D11.1", fi, fi.node, not glb and not attrs,
               f"{fn} keeps no global / function-attribute state",
               construct=f"{fn} stateless", nontrivial=False)


# ------------------------------------------------------------------ D11.2
def _pairing(ctx: Ctx, fom: ClassInfo, le: ClassInfo) -> None:
    n_sites = 0
    for cls in (fom, le):
        for name, m in cls.methods.items():
            eqs = [n for n in ast.walk(m.node) if isinstance(
                n, (ast.Assign, ast.AnnAssign)) and _self_attr(
                n.targets[0] if isinstance(n, ast.Assign) else n.target)
                == "__equations" and n.value is not None]
            cols = [n for n in ast.walk(m.node) if isinstance(
                n, (ast.Assign, ast.AnnAssign)) and _self_attr(
                n.targets[0] if isinstance(n, ast.Assign) else n.target)
                == "__collect" and n.value is not None]
            if not eqs and not cols:
                continue
            n_sites += 1
            ok = len(eqs) == 1 and len(cols) == 1
            detail = f"{cls.name}.{name}: "
            if ok:
                from sa.srcmodel import inline_locals as _il
                e = _il(m.node, eqs[0].value)
                c = _il(m.node, cols[0].value)
                # `not (a is None)` is `a is not None`
                if isinstance(c, ast.UnaryOp) and isinstance(
                        c.op, ast.Not) and isinstance(
                        c.operand, ast.Compare) and len(
                        c.operand.ops) == 1 and isinstance(
                        c.operand.ops[0], ast.Is):
                    c = ast.Compare(left=c.operand.left, ops=[ast.IsNot()],
                                    comparators=c.operand.comparators)
                real = ast.unparse(e).endswith("system.equations")
                csrc = ast.unparse(c)
                # a local that is stored as one of the collections counts
                # as that collection
                held = {n_.value.id for n_ in ast.walk(m.node) if isinstance(
                    n_, (ast.Assign, ast.AnnAssign)) and isinstance(
                    getattr(n_, "value", None), ast.Name) and _self_attr(
                    n_.targets[0] if isinstance(n_, ast.Assign)
                    else n_.target) in ("__collection_sc",
                                        "__collection_df")}
                enabled = isinstance(c, ast.Compare) and len(
                    c.ops) == 1 and isinstance(
                    c.ops[0], ast.IsNot) and (_self_attr(c.left) in (
                        "__collection_sc", "__collection_df") or (
                        isinstance(c.left, ast.Name)
                        and c.left.id in held)) and isinstance(
                    c.comparators[0], ast.Constant) and \
                    c.comparators[0].value is None
                off = isinstance(c, ast.Constant) and c.value is False
                unknown_flag = False
                if not enabled and isinstance(c, ast.Name):
                    # a flag set branch by branch together with the
                    # collections: True exactly where a collection is
                    # created, False exactly where it is None
                    def _branch_vals(stmts: list[ast.stmt]) -> dict[str, Any]:
                        out_: dict[str, Any] = {}
                        for st_ in stmts:
                            if isinstance(st_, (ast.Assign, ast.AnnAssign)) \
                                    and getattr(st_, "value", None) \
                                    is not None:
                                tg_ = st_.targets[0] if isinstance(
                                    st_, ast.Assign) else st_.target
                                if isinstance(tg_, ast.Name):
                                    out_[tg_.id] = st_.value
                        return out_
                    for if_ in ast.walk(m.node):
                        if not (isinstance(if_, ast.If) and if_.orelse):
                            continue
                        a_, b_ = _branch_vals(if_.body), _branch_vals(
                            if_.orelse)
                        if c.id in a_ and c.id in b_ and any(
                                h_ in a_ and h_ in b_ for h_ in held):
                            h_ = next(h for h in held
                                      if h in a_ and h in b_)

                            def _is_none(x: ast.expr) -> bool:
                                return isinstance(
                                    x, ast.Constant) and x.value is None

                            def _truth(x: ast.expr) -> Any:
                                return x.value if isinstance(
                                    x, ast.Constant) and isinstance(
                                    x.value, bool) else None
                            pa, pb = _truth(a_[c.id]), _truth(b_[c.id])
                            if pa is None or pb is None:
                                continue
                            enabled = (pa == (not _is_none(a_[h_]))) and (
                                pb == (not _is_none(b_[h_])))
                            csrc += (f" (= {h_} is not None, branch by "
                                     "branch)" if enabled else "")
                    if not enabled:
                        unknown_flag = True
                ok = (real and enabled) or (not real and off)
                # same straight-line block
                blocks = [b for b in _blocks(m.node)
                          if eqs[0] in b and cols[0] in b]
                ok = ok and bool(blocks)
                detail += (f"equations := {ast.unparse(e)[:50]}, collect "
                           f":= {csrc}" + ("" if ok else (
                               " - how this flag relates to the collections "
                               "is not recognised" if unknown_flag and bool(
                                   blocks) else
                               " - data could be collected from "
                               "model runs, or real runs would "
                               "not be collected")))
            else:
                detail += (f"{len(eqs)} assignment(s) of the equations but "
                           f"{len(cols)} of the collect flag")
            ctx.ob("D11.2", m, eqs[0] if eqs else cols[0], ok, detail,
                   construct=f"pairing in {name}")
    ctx.floor("equation_assignment_sites", n_sites, 3)


def _blocks(node: ast.AST) -> list[list[ast.stmt]]:
    out = []
    for n in ast.walk(node):
        for fld in ("body", "orelse"):
            sub = getattr(n, fld, None)
            if isinstance(sub, list) and sub and isinstance(
                    sub[0], ast.stmt):
                out.append(sub)
    return out


# ------------------------------------------------------------------ D11.3
def _results_written(ctx: Ctx, fom: ClassInfo) -> None:
    ev = fom.methods["evaluate"]
    loop = next((s for s in func_body(ev) if isinstance(s, ast.For)), None)
    ctx.need(loop is not None, "evaluate: loop over the training cases")
    ok_iter = isinstance(loop.iter, ast.Call) and ast.unparse(
        loop.iter.func) == "enumerate" and isinstance(
        loop.target, ast.Tuple)
    ivar = loop.target.elts[0].id if ok_iter else None
    src_name = ast.unparse(loop.iter.args[0]) if ok_iter else "?"
    first = loop.body[0] if loop.body else None
    # the first effectful statement(s): results[i] = ... at top level
    store = None
    for s in loop.body:
        if isinstance(s, ast.Assign) and any(
                isinstance(t, ast.Subscript) and isinstance(
                    t.value, ast.Name) and isinstance(t.slice, ast.Name)
                and t.slice.id == ivar for t in s.targets):
            store = s
            break
        if isinstance(s, (ast.If, ast.For, ast.While, ast.Return,
                          ast.Break, ast.Continue)):
            break
    brk = [n for n in ast.walk(loop) if isinstance(
        n, (ast.Break, ast.Continue))]
    del first
    res_name = None
    if store is not None:
        for t in store.targets:
            if isinstance(t, ast.Subscript):
                res_name = t.value.id
    # sizes: results = np.empty(len(self.__training)), loop over
    # self.__training
    alias = {}
    for n in func_body(ev):
        if isinstance(n, (ast.Assign, ast.AnnAssign)) and n.value is not None:
            tg = n.targets[0] if isinstance(n, ast.Assign) else n.target
            a = _self_attr(n.value)
            if isinstance(tg, ast.Name) and a:
                alias[tg.id] = a
    em = _EvalModel(ctx, fom)
    res_field = alias.get(res_name or "", "?")
    src_field = alias.get(src_name, "?")
    rs = em.src_of.get(res_field, "")
    # one cell per training case: np.empty(len(<the value that also becomes
    # the training field>)[, dtype])
    size_ok = rs.startswith("np.empty(len(") and src_field in em.src_of \
        and (rs.startswith(f"np.empty(len({em.src_of[src_field]})")
             or rs.startswith(f"np.empty(len(self.{src_field})"))
    ok = ok_iter and store is not None and not brk and size_ok
    ctx.ob("D11.3", ev, store or loop, ok,
           f"`{res_name}[{ivar}]` is written unconditionally in every "
           "iteration over the training cases (no break/continue), the "
           "array has one cell per case, and the only other exit is the "
           "constant 1e200" if ok else
           "a result cell may be read by sum_up_results although it was "
           "not written in this call (stale value of a previous "
           "evaluation)", construct="results written before read")
    # the sum is taken after the loop
    cfg = CFG(ev.node)
    head = next(n for n in cfg.nodes if n.ast is loop)
    sums = [n for n in cfg.nodes if n.kind == "stmt" and any(
        isinstance(c.func, ast.Attribute) and c.func.attr ==
        "sum_up_results" for c in calls_in(n.ast))]
    ok2 = bool(sums) and all(cfg.dominated_by(s, lambda x: x is head)
                             for s in sums) and all(
        ast.unparse(c.args[0]) == res_name for s in sums
        for c in calls_in(s.ast) if isinstance(c.func, ast.Attribute)
        and c.func.attr == "sum_up_results")
    ctx.ob("D11.3", ev, sums[0].ast if sums else ev.node, ok2,
           "sum_up_results(results) runs only after the complete loop",
           construct="sum after loop", nontrivial=False)


# ------------------------------------------------------------------ D11.4
def _returns(ctx: Ctx, fom: ClassInfo) -> None:
    repo = ctx.repo
    ev = fom.methods["evaluate"]
    evl = make_evaluator(repo, ev)
    gw = GuardWalk(evl)
    env = Env()
    env.vars["self"] = Poly.var("self")
    gw.walk(env, func_body(ev))
    rets = [e for e in gw.exits if e.kind == "return"]
    # a training case outside [0, 1e100] ends the evaluation at once: the
    # results buffer is a field that keeps the values of earlier calls, so
    # leaving the case loop by `break` would aggregate stale entries
    loop = next((s_ for s_ in func_body(ev) if isinstance(
        s_, (ast.For, ast.While))), None)
    brk_def: list[ast.AST] = []
    brk_flag: list[ast.AST] = []
    if loop is not None:
        def scan(stmts: list[ast.stmt], depth: int) -> None:
            for k_, st_ in enumerate(stmts):
                if isinstance(st_, ast.Break) and depth == 0:
                    flagged = any(isinstance(p_, (ast.Assign, ast.AnnAssign))
                                  and isinstance(getattr(p_, "value", None),
                                                 ast.Constant)
                                  for p_ in stmts[:k_])
                    (brk_flag if flagged else brk_def).append(st_)
                elif isinstance(st_, ast.If):
                    scan(st_.body, depth)
                    scan(st_.orelse, depth)
                elif isinstance(st_, (ast.For, ast.While)):
                    scan(st_.body, depth + 1)
                elif isinstance(st_, (ast.With, ast.Try)):
                    scan(st_.body, depth)
        scan(loop.body, 0)
    ctx.ob("D11.4", ev, (brk_def + brk_flag + [ev.node])[0],
           not brk_def and not brk_flag,
           "the loop over the training cases is only left by `return` or "
           "after the last case" if not brk_def and not brk_flag else (
               "the loop over the training cases is left by `break`: the "
               "aggregate is then computed over the results buffer, whose "
               "later entries are left over from earlier evaluations - the "
               "failure value 1e200 is not returned for a failed case"
               if brk_def else "the loop over the training cases is left "
               "by `break` under a flag; how the flag leads to the failure "
               "value is not recognised"),
           construct="failed case ends the evaluation", nontrivial=False)
    if not brk_def:
        ctx.floor("evaluate_returns", len(rets), 2)
    big = Poly.const(10) .pow(100)
    for e in rets:
        v = e.node.value
        ok = False
        detail = ""
        c = repo.const(ev.module, inline_locals(ev.node, v)) \
            if v is not None else None
        if c == 1e200:
            ok = True
            detail = "returns the failure constant 1e200"
        elif isinstance(v, ast.IfExp):
            cb = repo.const(ev.module, v.body)
            co = repo.const(ev.module, v.orelse)
            val, keep_true = (v.body, True) if co == 1e200 else (
                (v.orelse, False) if cb == 1e200 else (None, True))
            if val is not None:
                try:
                    cond = evl.cond(e.env, v.test)
                    x = evl.num(e.env, val)
                    want = ("and", ("le", Poly.const(0), x),
                            ("le", x, big))
                    from sa.symterm import c_not
                    ok = (cond == want) if keep_true else (
                        c_not(cond) == want or cond == c_not(want))
                    detail = (f"returns v only if [{show_cond(cond)}], "
                              "else 1e200")
                except Unsupported as u:
                    detail = f"guard not normalised: {u}"
        else:
            # plain value: the path condition must contain the range
            try:
                x = evl.num(e.env, v)
                need = [("le", Poly.const(0), x), ("le", x, big)]
                conj = list(e.path[1:]) if e.path[0] == "and" else [e.path]
                ok = not is_opaque(e.path) and all(n in conj for n in need)
                detail = f"path condition [{show_cond(e.path)[:100]}]"
            except (Unsupported, Exception) as u:  # noqa: BLE001
                detail = f"value not normalised: {u}"
        ctx.ob("D11.4", ev, e.node, ok,
               detail or "return value is neither 1e200 nor guarded by "
               "0 <= v <= 1e100", construct=f"return {ast.unparse(v)[:50]}")
    lb = fom.methods.get("lower_bound")
    okb = lb is not None and any(
        isinstance(r, ast.Return) and repo.const(lb.module, r.value) == 0.0
        for r in ast.walk(lb.node))
    ctx.ob("D11.4", lb or ev, (lb or ev).node, okb, "lower_bound() == 0.0",
           construct="lower bound", nontrivial=False)


# ------------------------------------------------------------------ D11.5
def _surrogate(ctx: Ctx) -> None:
    repo = ctx.repo
    sv = repo.func(SUR, "SurrogateOptimizer.solve")
    cfg = CFG(sv.node)
    # the name holding the real objective: assigned from
    # self.__control_objective
    raw = None
    for n in func_body(sv):
        if isinstance(n, (ast.Assign, ast.AnnAssign)) and n.value is not None:
            tg = n.targets[0] if isinstance(n, ast.Assign) else n.target
            if isinstance(tg, ast.Name) and _self_attr(n.value) == \
                    "__control_objective":
                raw = tg.id
    ctx.need(raw is not None, "solve: alias of the real objective")
    orig = None
    for n in func_body(sv):
        if isinstance(n, (ast.Assign, ast.AnnAssign)) and n.value is not None:
            tg = n.targets[0] if isinstance(n, ast.Assign) else n.target
            if isinstance(tg, ast.Name) and ast.unparse(n.value) == \
                    f"{raw}.initialize":
                orig = tg.id

    def call_of(n: Node, pred: Any) -> bool:
        return n.kind in ("stmt", "test") and any(
            pred(c) for c in calls_in(n.ast))

    def is_setattr_init(c: ast.Call, restore: bool) -> bool:
        return isinstance(c.func, ast.Name) and c.func.id == "setattr" \
            and len(c.args) == 3 and ast.unparse(c.args[0]) == raw and \
            isinstance(c.args[1], ast.Constant) and \
            c.args[1].value == "initialize" and (
                (isinstance(c.args[2], ast.Name)
                 and c.args[2].id == orig) == restore)

    def is_meth(c: ast.Call, m: str) -> bool:
        return isinstance(c.func, ast.Attribute) and c.func.attr == m and \
            ast.unparse(c.func.value) == raw

    def is_eval(c: ast.Call) -> bool:
        return isinstance(c.func, ast.Attribute) and \
            c.func.attr == "evaluate" and ast.unparse(
                c.func.value) == "process"
    dis = [n for n in cfg.nodes if call_of(
        n, lambda c: is_setattr_init(c, False))]
    res = [n for n in cfg.nodes if call_of(
        n, lambda c: is_setattr_init(c, True))]
    mod = [n for n in cfg.nodes if call_of(n, lambda c: is_meth(
        c, "set_model"))]
    rw = [n for n in cfg.nodes if call_of(n, lambda c: is_meth(
        c, "set_raw"))]
    evs = [n for n in cfg.nodes if call_of(n, is_eval)]
    loops = [n for n in cfg.nodes if n.kind == "join"]
    ctx.count("surrogate_mode_switch_sites",
              len(dis) + len(res) + len(mod) + len(rw))
    ends = [cfg.exit] + evs + loops

    def closed(opens: list[Node], closes: list[Node], what: str) -> None:
        if not opens:
            ctx.ob("D11.5", sv, sv.node, True,
                   f"{what}: never opened", construct=what,
                   nontrivial=False)
            return
        for o in opens:
            ok = bool(closes) and all(
                not cfg.can_reach_avoiding(o, e, lambda x: x in closes)
                or e is o for e in ends)
            ctx.ob("D11.5", sv, o.ast, ok,
                   f"{what}: after `{ast.unparse(o.ast)[:50]}` every normal "
                   "path reaches the closing call before the next loop "
                   "round, before process.evaluate and before returning"
                   if ok else
                   f"{what}: a path from `{ast.unparse(o.ast)[:50]}` "
                   "reaches the loop head, process.evaluate or the end of "
                   "solve without the closing call", construct=what)
    closed(dis, res, "initialize() disabled -> restored")
    closed(mod, rw, "model mode -> raw mode")
    ctx.ob("D11.5", sv, sv.node, orig is not None,
           f"the original initialize is captured once as `{orig}` before "
           "the loop", construct="orig initialize captured",
           nontrivial=False)
    ctx.ob("D11.5", sv, evs[0].ast if evs else sv.node, bool(evs),
           "real evaluations go through process.evaluate",
           construct="process.evaluate present", nontrivial=False)


# ------------------------------------------------------------------ D11.6
def _field_cases(init: FuncInfo) -> dict[str, list[tuple[tuple, str]]]:
    """field -> [(guards, kind)] over the paths through __init__ that do
    not raise; kind is "none", "list" (a fresh empty list) or "other"."""
    from sa.pathinline import paths
    out: dict[str, list[tuple[tuple, str]]] = {}
    try:
        ps = [p for p in paths(func_body(init)) if p.ended != "raise"]
    except ValueError:
        return out
    for p in ps:
        seen_t: dict[str, bool] = {}
        feasible = True
        for t, tr in p.guards:
            k_ = ast.unparse(t)
            if seen_t.setdefault(k_, tr) != tr:
                feasible = False      # the same test with both outcomes
        if not feasible:
            continue
        for e in p.events:
            if e.kind != "store":
                continue
            f = _self_attr(e.value)
            if f is None:
                continue
            v = e.extra
            if isinstance(v, ast.Name) and v.id in p.objs:
                v = p.objs[v.id]
            if isinstance(v, ast.Constant) and v.value is None:
                kind = "none"
            elif isinstance(v, (ast.List, ast.ListComp)) and not getattr(
                    v, "elts", []):
                kind = "list"
            else:
                kind = "other"
            out.setdefault(f, []).append((p.guards, kind))
    return out


def _none_class(init: FuncInfo) -> dict[str, str]:
    """field -> text of the condition under which it is a list rather than
    None ('' if it always is a list), decided path by path."""
    out: dict[str, str] = {}
    for f, cases in _field_cases(init).items():
        kinds = {k for _, k in cases}
        if kinds == {"list"}:
            out[f] = ""
        elif kinds == {"list", "none"}:
            # the test that separates the two kinds
            tests = None
            for g, k in cases:
                here = {(ast.unparse(t), tr if k == "list" else not tr)
                        for t, tr in g}
                tests = here if tests is None else tests & here
            if tests:
                t, tr = sorted(tests)[0]
                out[f] = t if tr else f"not ({t})"
    return out


def _reset(ctx: Ctx, fom: ClassInfo, le: ClassInfo) -> None:
    init = fom.methods["__init__"]
    ini = fom.methods.get("initialize")
    ctx.need(ini is not None, "FigureOfMerit.initialize")
    nclass = _none_class(init)
    grown: dict[str, list[tuple[FuncInfo, ast.AST]]] = {}
    for cls in (fom, le):
        for m in cls.methods.values():
            for n in ast.walk(m.node):
                f = None
                if isinstance(n, ast.Call) and isinstance(
                        n.func, ast.Attribute) and n.func.attr in (
                        "append", "extend", "insert"):
                    f = _self_attr(inline_locals(m.node, n.func.value))
                elif isinstance(n, ast.AugAssign) and isinstance(
                        n.op, ast.Add):
                    f = _self_attr(n.target)
                    if f is not None and f not in nclass:
                        f = None          # a numeric accumulator
                if f is not None:
                    grown.setdefault(f, []).append((m, n))
    ctx.count("growing_fields", len(grown))
    # the collector stores the pair (state+control, differential) of
    # diff_from_ode in (sc, df) order
    ap = fom.methods.get(mangle(fom.name, "__append")) or fom.methods.get(
        "__append")
    pair_ok = False
    if ap is not None and len(ap.params) == 2:
        dn = ap.params[1]
        got = {}
        for n in ast.walk(ap.node):
            if isinstance(n, ast.Call) and isinstance(
                    n.func, ast.Attribute) and n.func.attr == "append" and \
                    len(n.args) == 1 and isinstance(
                    n.args[0], ast.Subscript) and ast.unparse(
                    n.args[0].value) == dn:
                got[_self_attr(inline_locals(
                    ap.node, n.func.value))] = ctx.repo.const(
                    ap.module, n.args[0].slice)
        pair_ok = got == {"__collection_sc": 0, "__collection_df": 1}
    ctx.ob("D11.6", ap or ini, (ap or ini).node, pair_ok,
           "the collector appends data[0] (state+control rows) to the sc "
           "list and data[1] (differentials) to the df list" if pair_ok else
           "the collector does not store (state+control, differential) in "
           "the (sc, df) collections", construct="collector stores the pair")
    # both collections exist exactly when model mode is supported: on every
    # path through __init__ they are fresh empty lists iff a parameter of
    # the constructor is true, None otherwise
    fc = _field_cases(init)
    sup_ok = all(f in fc for f in ("__collection_sc", "__collection_df"))
    for f in ("__collection_sc", "__collection_df"):
        for g, kind in fc.get(f, []):
            flags = [(t.id, tr) for t, tr in g if isinstance(t, ast.Name)
                     and t.id in init.params]
            flags += [(t.operand.id, not tr) for t, tr in g if isinstance(
                t, ast.UnaryOp) and isinstance(t.op, ast.Not) and isinstance(
                t.operand, ast.Name) and t.operand.id in init.params]
            if len(set(flags)) != 1 or kind not in ("list", "none") or \
                    (kind == "list") != flags[0][1]:
                sup_ok = False
    ctx.ob("D11.6", init, init.node, sup_ok,
           "both collections are empty lists iff model mode is supported, "
           "else None" if sup_ok else
           "the collections are not `[] if supports_model_mode else None`",
           construct="collections exist iff supported")
    # ---- what initialize() empties, and under which guard
    cleared: dict[str, str | None] = {}

    def scan(stmts: list[ast.stmt], guard: str | None, deep: bool) -> None:
        for st in stmts:
            if isinstance(st, ast.Expr) and isinstance(
                    st.value, ast.Call) and isinstance(
                    st.value.func, ast.Attribute) and \
                    st.value.func.attr == "clear":
                f = _self_attr(inline_locals(ini.node, st.value.func.value))
                if f is not None and not deep:
                    cleared.setdefault(f, guard)
            elif isinstance(st, (ast.Assign, ast.AnnAssign)) and isinstance(
                    st.value, ast.List) and not st.value.elts:
                f = _self_attr(st.targets[0] if isinstance(st, ast.Assign)
                               else st.target)
                if f is not None and not deep:
                    cleared.setdefault(f, guard)
            elif isinstance(st, ast.If) and guard is None and not st.orelse:
                t = st.test
                if isinstance(t, ast.UnaryOp) and isinstance(
                        t.op, ast.Not) and isinstance(
                        t.operand, ast.Compare) and len(
                        t.operand.ops) == 1 and isinstance(
                        t.operand.ops[0], ast.Is):
                    # `not (a is None)` is `a is not None`
                    t = ast.Compare(left=t.operand.left, ops=[ast.IsNot()],
                                    comparators=t.operand.comparators)
                g = None
                if isinstance(t, ast.Compare) and len(t.ops) == 1 and \
                        isinstance(t.ops[0], ast.IsNot) and isinstance(
                        t.comparators[0], ast.Constant) and \
                        t.comparators[0].value is None:
                    g = _self_attr(inline_locals(ini.node, t.left))
                elif _self_attr(inline_locals(ini.node, t)) is not None:
                    g = _self_attr(inline_locals(ini.node, t))
                if g is not None:
                    scan(st.body, g, False)
                else:
                    scan(st.body, "?", True)
    scan(func_body(ini), None, False)
    for f, sites in sorted(grown.items()):
        g = cleared.get(f, "missing")
        ok = g is None or (g != "missing" and (
            g == f or (g in nclass and f in nclass
                       and nclass[g] == nclass[f] and nclass[g] != "")))
        m, n = sites[0]
        ctx.ob("D11.6", ini, ini.node, ok,
               f"`self.{f}` (grown in {m.name}) is emptied by initialize()"
               + ("" if g is None else f" whenever it is a list (guard on "
                  f"`self.{g}`, None under the same condition)")
               if ok else
               f"`self.{f}` is grown in {m.name} (line {n.lineno}) but "
               "initialize() does not empty it"
               + ("" if g == "missing" else
                  f" on every path (guarded by `self.{g}`)")
               + ": a re-used objective keeps the samples of the previous "
               "run, unlike a freshly created one",
               construct=f"initialize empties {f}")
    # ---- the collections grow together
    if len(grown) >= 2:
        fields = sorted(grown)
        blocks_ok = True
        for m in {id(s[0]): s[0] for ss in grown.values()
                  for s in ss}.values():
            per_block = []
            for b in _blocks(m.node):
                fs = sorted({f for f in fields for st in b
                             if isinstance(st, ast.Expr) and any(
                                 x is st.value for (_, x) in grown[f])})
                if fs:
                    per_block.append(fs)
            if any(fs != fields for fs in per_block):
                blocks_ok = False
        ctx.ob("D11.6", ini, ini.node, blocks_ok,
               f"the collections {fields} are appended to in the same "
               "block: their lengths agree" if blocks_ok else
               f"the collections {fields} are not appended to together",
               construct="collections grow together")
    # ---- back to real mode, unconditionally
    top = [st for st in func_body(ini) if isinstance(st, ast.Expr)
           and isinstance(st.value, ast.Call) and ast.unparse(
               st.value.func) == "self.set_raw"]
    ctx.ob("D11.6", ini, top[0] if top else ini.node, bool(top),
           "initialize() unconditionally switches to the real system "
           "(set_raw)" if top else "initialize() does not return to the "
           "real-system mode", construct="initialize calls set_raw")


# ------------------------------------------------------------------ D11.7
def _assembly(ctx: Ctx, fom: ClassInfo, le: ClassInfo) -> None:
    """evaluate() computes the documented value from the documented inputs."""
    repo = ctx.repo
    ev = fom.methods["evaluate"]
    body = func_body(ev)
    xparam = ev.params[1]
    # ---- field provenance: self.__f = instance.<path> (locals of
    # __init__ looked through)
    src_of: dict[str, str] = _EvalModel(ctx, fom).src_of
    # ---- locals of evaluate: name -> self field
    local: dict[str, str] = {}
    for s in body:
        if isinstance(s, (ast.Assign, ast.AnnAssign)) and s.value is not None:
            tg = s.targets[0] if isinstance(s, ast.Assign) else s.target
            f = _self_attr(s.value)
            if isinstance(tg, ast.Name) and f is not None:
                local[tg.id] = f
    loop = next((s for s in body if isinstance(s, ast.For)), None)
    ctx.need(loop is not None, "evaluate: loop over the training cases")
    it = loop.iter
    src_it = it.args[0] if isinstance(it, ast.Call) and ast.unparse(
        it.func) == "enumerate" and it.args else it
    tr_field = local.get(src_it.id) if isinstance(src_it, ast.Name) else None
    elts = [t.id for t in ast.walk(loop.target) if isinstance(t, ast.Name)]
    start_n = elts[-1] if elts else None
    problems: list[str] = []
    if tr_field is None or "training_starting_states" not in src_of.get(
            tr_field, ""):
        problems.append("the loop does not run over the system's training "
                        "starting states")

    def want_field(arg: ast.expr, suffix: str, what: str) -> None:
        nm = arg.id if isinstance(arg, ast.Name) else None
        f = local.get(nm) if nm else _self_attr(arg)
        if f is None or not src_of.get(f, "").endswith(suffix):
            problems.append(f"{what} receives `{ast.unparse(arg)}`"
                            + (f" (= self.{f} = {src_of.get(f)})" if f else "")
                            + f", expected the instance's {suffix}")
    ode_mod = repo.module("moptipyapps.dynamic_control.ode")
    def calls_of(name: str) -> list[ast.Call]:
        tgt = ode_mod.funcs.get(name)
        return [n for n in ast.walk(loop) if isinstance(n, ast.Call)
                and isinstance(n.func, ast.Name) and repo.resolve(
                    ev.module, n.func.id) is tgt]
    ro = calls_of("run_ode")
    jf = calls_of("j_from_ode")
    ode_var = None
    if len(ro) != 1 or ro[0].keywords or len(ro[0].args) != 7:
        problems.append("run_ode is not called once with 7 positional "
                        "arguments")
    else:
        a = ro[0].args
        if not (isinstance(a[0], ast.Name) and a[0].id == start_n):
            problems.append(f"run_ode starts from `{ast.unparse(a[0])}`, "
                            "not from the training case of this round")
        eqf = local.get(a[1].id) if isinstance(a[1], ast.Name) else None
        if eqf != "__equations":
            problems.append("run_ode does not receive the current "
                            "equations (self.__equations)")
        want_field(a[2], "controller.controller", "run_ode's controller")
        if not (isinstance(a[3], ast.Name) and a[3].id == xparam):
            problems.append(f"run_ode's parameters are `{ast.unparse(a[3])}`"
                            f", not the vector `{xparam}` being evaluated")
        want_field(a[4], "controller.control_dims", "run_ode's "
                   "controller_dim")
        want_field(a[5], "system.training_steps", "run_ode's steps")
        want_field(a[6], "system.training_time", "run_ode's max_time")
        for s in ast.walk(loop):
            if isinstance(s, ast.Assign) and s.value is ro[0] and isinstance(
                    s.targets[0], ast.Name):
                ode_var = s.targets[0].id
    sd_var = None
    for s in body:
        if isinstance(s, (ast.Assign, ast.AnnAssign)) and s.value is not None:
            tg = s.targets[0] if isinstance(s, ast.Assign) else s.target
            srcv = ast.unparse(s.value).replace(" ", "")
            if isinstance(tg, ast.Name) and isinstance(
                    src_it, ast.Name) and srcv in (
                    f"len({src_it.id}[0])", f"{src_it.id}.shape[1]"):
                sd_var = tg.id
    if len(jf) != 1 or jf[0].keywords or len(jf[0].args) != 4:
        problems.append("j_from_ode is not called once with 4 positional "
                        "arguments")
    else:
        a = jf[0].args
        if not (isinstance(a[0], ast.Name) and a[0].id == ode_var):
            problems.append("j_from_ode does not receive the simulation "
                            "of this round")
        if not (isinstance(a[1], ast.Name) and a[1].id == sd_var):
            problems.append("j_from_ode's state dimension is not "
                            "len(training[0])")
        want_field(a[2], "system.state_dims_in_j", "j_from_ode's "
                   "use_state_dims")
        want_field(a[3], "system.gamma", "j_from_ode's gamma")
    ctx.ob("D11.7", ev, loop, not problems,
           "each training case is simulated with the instance's equations "
           "(or the current model), controller, steps and time for the "
           "vector being evaluated, and scored with the instance's state "
           "dimensions and gamma" if not problems else "; ".join(problems),
           construct="arguments of the simulation")
    # ---- per-case guard polarity (path model): an iteration ends the
    # evaluation with 1e200 exactly when its J is outside [0, 1e100] - the
    # comparison must be NaN-safe (a NaN makes every comparison False)
    from sa.symterm import c_and, c_not, c_or
    em = _EvalModel(ctx, fom)
    g_problems: list[str] = []
    jcall_src = None
    jcalls = set()
    for q in em.body_paths:
        for e in q.events:
            if e.kind == "store" and isinstance(e.extra, ast.Call) and \
                    isinstance(e.extra.func, ast.Name) and repo.resolve(
                    ev.module, e.extra.func.id) is ode_mod.funcs.get(
                    "j_from_ode"):
                jcalls.add(ast.unparse(e.extra))
    if len(jcalls) == 1:
        jcall_src = next(iter(jcalls))
    else:
        g_problems.append("the figure of merit of a case is not stored "
                          "once per iteration")
    sev = make_evaluator(repo, ev)
    J = Poly.var("J")

    def reject_cond(guards: tuple) -> tuple | None:
        """The guards on J of a path as one condition (J = the stored
        figure of merit), or None if a guard mentions something else."""
        import copy as _copy
        cs = []
        for tst, truth in guards:
            txt = ast.unparse(tst)
            if jcall_src is None or jcall_src not in txt:
                continue

            class R(ast.NodeTransformer):
                def visit_Call(self, n: ast.Call) -> ast.AST:
                    if ast.unparse(n) == jcall_src:
                        return ast.Name(id="J$", ctx=ast.Load())
                    return self.generic_visit(n)
            t2 = ast.fix_missing_locations(R().visit(_copy.deepcopy(tst)))
            env = Env()
            env.vars["J$"] = J
            try:
                c = sev.cond(env, t2)
            except Unsupported:
                return None
            cs.append(c if truth else c_not(c))
        return c_and(*cs) if cs else ("true",)

    def nan_safe(tst: ast.AST, reject_when: bool) -> bool:
        """Every comparison must have to be False for the rejection."""
        if isinstance(tst, ast.UnaryOp) and isinstance(tst.op, ast.Not):
            return nan_safe(tst.operand, not reject_when)
        if isinstance(tst, ast.BoolOp):
            return all(nan_safe(v, reject_when) for v in tst.values)
        if isinstance(tst, ast.Compare):
            return reject_when is False
        return True
    in_range = ("and", ("le", Poly.const(0), J),
                ("le", J, Poly.const(10 ** 100)))

    def sat(c: tuple) -> bool:
        """Is `c` satisfiable?  Exact over the reals: all weak orderings of
        J against the two constants."""
        from sa import ordenum
        try:
            return any(m.cond(c) for m in ordenum.enumerate_models(
                [J, Poly.const(0), Poly.const(10 ** 100)], integer=False))
        except Unsupported:
            return True
    rej_conds = []
    n_fail = 0
    for q in em.body_paths:
        rets = [e for e in q.events if e.kind == "return"]
        c = reject_cond(q.guards)
        if c is None:
            g_problems.append("a per-case test is not a comparison of the "
                              "figure of merit with constants")
            continue
        if rets:
            n_fail += 1
            if repo.const(ev.module, rets[0].value) != 1e200:
                g_problems.append("an iteration ends the evaluation with "
                                  "a value other than 1e200")
            rej_conds.append(c)
            for tst, truth in q.guards:
                if jcall_src is not None and jcall_src in ast.unparse(tst) \
                        and not nan_safe(tst, truth):
                    g_problems.append(
                        "the per-case test lets a NaN figure of merit "
                        "pass (a comparison that must be True to reject)")
        elif q.ended is None:
            # a continuing case must be inside the range
            if sat(c_and(c, c_not(in_range))):
                g_problems.append("a case outside [0, 1e100] does not stop "
                                  "the evaluation")
    if not rej_conds:
        g_problems.append("no single per-case test 0.0 <= J <= 1e100 with "
                          "a `return 1e200`")
    elif sat(c_and(c_or(*rej_conds), in_range)):
        g_problems.append("a case with 0 <= J <= 1e100 leads to the "
                          "failure value")
    ctx.ob("D11.7", ev, loop, not g_problems,
           "a training case outside [0, 1e100] (or NaN) ends the evaluation "
           "with 1e200; all others continue" if not g_problems else
           "; ".join(dict.fromkeys(g_problems)),
           construct="per-case range test")
    # ---- every case that continues is recorded when collecting
    rec_ok = bool(em.body_paths)
    n_rec = 0
    df = ode_mod.funcs.get("diff_from_ode")
    for q in em.body_paths:
        if q.ended is not None or not em.has_guard(
                q.guards, "__collect", True):
            continue
        apps = [e for e in q.events if e.kind == "expr"
                and em.is_append_call(e.value)]
        if len(apps) != 1 or len(apps[0].value.args) != 1:
            rec_ok = False
            continue
        inner = apps[0].value.args[0]
        jc = ast.parse(jcall_src, mode="eval").body if jcall_src else None
        arg_ok = isinstance(inner, ast.Call) and isinstance(
            inner.func, ast.Name) and repo.resolve(
            ev.module, inner.func.id) is df and jc is not None and len(
            inner.args) == 2 and not inner.keywords and [
            ast.unparse(x) for x in inner.args] == [
            ast.unparse(x) for x in jc.args[:2]]
        rec_ok = rec_ok and arg_ok
        n_rec += 1
    rec_ok = rec_ok and n_rec > 0
    ctx.ob("D11.7", ev, loop, rec_ok,
           "while collecting, every training case that passes its range "
           "test hands diff_from_ode(simulation, state_dim) to the collector "
           "before the next case" if rec_ok else
           "a successfully simulated training case is not recorded (or "
           "not as diff_from_ode(the_ode, state_dim))",
           construct="cases recorded")
    # ---- the aggregate
    problems = []
    for cls, want in ((fom, "mean"), (le, "logexp")):
        m = cls.methods.get("sum_up_results")
        if m is None:
            problems.append(f"{cls.name}.sum_up_results missing")
            continue
        rets = [r for r in ast.walk(m.node) if isinstance(r, ast.Return)]
        src = ast.unparse(rets[0].value).replace(" ", "") if len(
            rets) == 1 else ""
        p = m.params[1]
        rv = inline_locals(m.node, rets[0].value) if len(
            rets) == 1 and rets[0].value is not None else None

        def unfloat(e: Any) -> Any:
            while isinstance(e, ast.Call) and isinstance(
                    e.func, ast.Name) and e.func.id == "float" and len(
                    e.args) == 1 and not e.keywords:
                e = e.args[0]
            return e

        def mean_of(e: Any) -> Any:
            """X for `X.mean()` / `np.mean(X)`, else None."""
            e = unfloat(e)
            if isinstance(e, ast.Call) and isinstance(
                    e.func, ast.Attribute) and e.func.attr == "mean":
                if not e.args and not e.keywords and not (isinstance(
                        e.func.value, ast.Name)
                        and e.func.value.id == "np"):
                    return e.func.value
                if isinstance(e.func.value, ast.Name) and \
                        e.func.value.id == "np" and len(e.args) == 1 and \
                        not e.keywords:
                    return e.args[0]
            return None

        def is_p(e: Any) -> bool:
            return isinstance(e, ast.Name) and e.id == p
        if want == "mean":
            ok = is_p(mean_of(rv))
        else:
            e_ = unfloat(rv)
            ok = False
            if isinstance(e_, ast.Call) and ast.unparse(e_.func) in (
                    "expm1", "np.expm1", "math.expm1") and len(
                    e_.args) == 1 and not e_.keywords:
                x_ = mean_of(e_.args[0])
                if isinstance(x_, ast.Call) and ast.unparse(x_.func) in (
                        "np.log1p", "log1p") and x_.args and is_p(
                        x_.args[0]):
                    outs = list(x_.args[1:]) + [
                        k_.value for k_ in x_.keywords if k_.arg == "out"]
                    other_kw = [k_ for k_ in x_.keywords if k_.arg != "out"]
                    ok = len(outs) <= 1 and all(
                        is_p(o_) for o_ in outs) and not other_kw
        if not ok:
            problems.append(
                f"{cls.name}.sum_up_results returns `{src}`, expected "
                + ("the mean of the J values" if want == "mean" else
                   "exp(mean(log(J + 1))) - 1"))
    tail = body[body.index(loop) + 1:]
    agg = [s for s in tail if isinstance(s, (ast.Assign, ast.AnnAssign))
           and isinstance(s.value, ast.Call) and ast.unparse(s.value.func)
           == "self.sum_up_results"]
    res_field = None
    if len(agg) == 1 and len(agg[0].value.args) == 1 and isinstance(
            agg[0].value.args[0], ast.Name):
        res_field = local.get(agg[0].value.args[0].id)
    if res_field != "__results":
        problems.append("the aggregate is not computed from the per-case "
                        "results buffer")
    ctx.ob("D11.7", ev, agg[0] if agg else ev.node, not problems,
           "the value is sum_up_results(results): the mean (FigureOfMerit) "
           "or exp(mean(log(J+1)))-1 (FigureOfMeritLE) of the per-case "
           "figures" if not problems else "; ".join(problems),
           construct="aggregate of the cases")


# ------------------------------------------------------------------ D11.8
def _compaction(ctx: Ctx, fom: ClassInfo) -> None:
    """get_differentials neither loses nor duplicates recorded samples."""
    gd = fom.methods.get("get_differentials")
    ctx.need(gd is not None, "FigureOfMerit.get_differentials")
    body = func_body(gd)
    alias: dict[str, str] = {}
    all_stmts = [x for x in ast.walk(gd.node) if isinstance(x, ast.stmt)]
    for s in all_stmts:
        if isinstance(s, (ast.Assign, ast.AnnAssign)) and s.value is not None:
            tg = s.targets[0] if isinstance(s, ast.Assign) else s.target
            f = _self_attr(s.value)
            if isinstance(tg, ast.Name) and f in ("__collection_sc",
                                                   "__collection_df"):
                alias[tg.id] = f
    inv = {v: k for k, v in alias.items()}
    problems: list[str] = []
    if set(alias.values()) != {"__collection_sc", "__collection_df"}:
        problems.append("the two collections are not both consulted")
    else:
        sc_l, df_l = inv["__collection_sc"], inv["__collection_df"]
        cat: dict[str, str] = {}
        for s in all_stmts:
            if isinstance(s, (ast.Assign, ast.AnnAssign)) and isinstance(
                    s.value, ast.Call) and ast.unparse(
                    s.value.func) in ("np.concatenate", "np.vstack") and \
                    len(s.value.args) == 1 and isinstance(
                    s.value.args[0], ast.Name):
                tg = s.targets[0] if isinstance(s, ast.Assign) else s.target
                if isinstance(tg, ast.Name):
                    cat[s.value.args[0].id] = tg.id
        if set(cat) != {sc_l, df_l}:
            problems.append("not both collections are concatenated")
        else:
            cfg = CFG(gd.node)
            final = [n for n in cfg.nodes if n.kind == "stmt" and isinstance(
                n.ast, ast.Return) and isinstance(n.ast.value, ast.Tuple)
                and [ast.unparse(e) for e in n.ast.value.elts] == [
                    cat[sc_l], cat[df_l]]]
            if len(final) != 1:
                problems.append("the concatenated (state+control, "
                                "differential) pair is not returned in this "
                                "order")
            else:
                for lst in (sc_l, df_l):
                    def is_m(n: Any, meth: str, lst: str = lst) -> bool:
                        a = n.ast
                        return n.kind == "stmt" and isinstance(
                            a, ast.Expr) and isinstance(
                            a.value, ast.Call) and ast.unparse(
                            a.value.func) == f"{lst}.{meth}"
                    clr = [n for n in cfg.nodes if is_m(n, "clear")]
                    app = [n for n in cfg.nodes if is_m(n, "append")
                           and [ast.unparse(x) for x in n.ast.value.args]
                           == [cat[lst]]]
                    other = [n for n in cfg.nodes if n.kind == "stmt" and
                             isinstance(n.ast, ast.Expr) and isinstance(
                                 n.ast.value, ast.Call) and ast.unparse(
                                 n.ast.value.func).startswith(lst + ".")
                             and n not in clr and n not in app]
                    if len(clr) != 1 or len(app) != 1 or other:
                        problems.append(
                            f"`{lst}` is not replaced by exactly its own "
                            "concatenation (clear, then append)")
                        continue
                    catn = next(n for n in cfg.nodes if n.kind == "stmt"
                                and isinstance(n.ast, (ast.Assign,
                                                       ast.AnnAssign))
                                and isinstance(n.ast.value, ast.Call)
                                and n.ast.value.args and ast.unparse(
                                    n.ast.value.args[0]) == lst
                                and "concatenate" in ast.unparse(
                                    n.ast.value.func))
                    order = cfg.dominated_by(clr[0], lambda n: n is catn) \
                        and cfg.dominated_by(app[0], lambda n: n is clr[0]) \
                        and cfg.dominated_by(final[0],
                                             lambda n: n is app[0])
                    if not order:
                        problems.append(
                            f"`{lst}`: concatenate -> clear -> append -> "
                            "return does not hold on every path")
        # unsupported -> raise, exactly when the list is None
        guards = [s for s in body if isinstance(s, ast.If) and s.body
                  and isinstance(s.body[-1], ast.Raise)]
        okg = False
        for g in guards:
            t = g.test
            if isinstance(t, ast.Compare) and len(t.ops) == 1 and isinstance(
                    t.ops[0], ast.Is) and isinstance(
                    t.comparators[0], ast.Constant) and \
                    t.comparators[0].value is None and ast.unparse(
                    t.left) in (sc_l, df_l):
                okg = True
        if not okg:
            problems.append("`Differential collection not supported` is not "
                            "raised exactly when the collection is None")
        # the shortcut for a single chunk
        shorts = [r for r in ast.walk(gd.node) if isinstance(r, ast.Return)
                  and isinstance(r.value, ast.Tuple) and all(
                      isinstance(e, ast.Subscript) for e in r.value.elts)]
        # decided path by path (locals inlined): a path that returns the
        # first elements carries the condition len(collection) == 1
        from sa.pathinline import paths as _paths

        def _one_chunk(t: ast.expr, truth: bool) -> bool | None:
            while isinstance(t, ast.UnaryOp) and isinstance(t.op, ast.Not):
                t, truth = t.operand, not truth
            if isinstance(t, ast.Compare) and len(t.ops) == 1 and isinstance(
                    t.ops[0], (ast.Eq, ast.NotEq)):
                a_, b_ = t.left, t.comparators[0]
                if isinstance(a_, ast.Constant):
                    a_, b_ = b_, a_
                if isinstance(b_, ast.Constant) and b_.value == 1 and \
                        isinstance(a_, ast.Call) and ast.unparse(
                        a_.func) == "len" and len(a_.args) == 1 and \
                        _self_attr(a_.args[0]) in ("__collection_sc",
                                                   "__collection_df"):
                    return truth == isinstance(t.ops[0], ast.Eq)
            return None
        try:
            gpaths = _paths(body) if shorts or any(
                isinstance(x, ast.Return) for x in ast.walk(gd.node)) else []
        except ValueError:
            gpaths = []
            problems.append("too many paths: the single-chunk shortcut is "
                            "not recognised")
        for q in gpaths:
            ret = next((e for e in q.events if e.kind == "return"), None)
            if ret is None or not isinstance(ret.value, ast.Tuple) or not \
                    all(isinstance(e, ast.Subscript)
                        for e in ret.value.elts):
                continue
            got = [(_self_attr(e.value), ast.unparse(e.slice))
                   for e in ret.value.elts]
            if got != [("__collection_sc", "0"), ("__collection_df", "0")]:
                problems.append("the single-chunk shortcut returns "
                                f"{[ast.unparse(e) for e in ret.value.elts]}")
            dec = [d for d in (_one_chunk(t, tr) for t, tr in q.guards)
                   if d is not None]
            if not dec:
                problems.append("the condition of the single-chunk shortcut "
                                "is not recognised")
            elif not all(dec):
                problems.append("the single-chunk shortcut is not taken "
                                "exactly when one chunk is stored")
    ctx.ob("D11.8", gd, gd.node, not problems,
           "get_differentials returns (all state+control rows, all "
           "differential rows) and replaces each collection by exactly its "
           "own concatenation: nothing is lost or duplicated between "
           "evaluations" if not problems else "; ".join(problems),
           construct="compaction of the collections")



# ------------------------------------------------------------------ D11.9
def _scratch_system(ctx: Ctx) -> None:
    """`set_raw()` restores `instance.system.equations`: the real equations
    survive a surrogate phase only if nobody overwrites that attribute.
    In `SurrogateOptimizer.solve` every local whose attributes are assigned
    (`tmp.equations = model`, `setattr(tmp, ...)`) must be bound to a copy
    (`copy(..)` / `deepcopy(..)`), never to an object reached from `self`
    (an alias of the real system)."""
    repo = ctx.repo
    fi = repo.func("moptipyapps.dynamic_control.surrogate_optimizer",
                   "SurrogateOptimizer.solve")
    written: dict[str, ast.AST] = {}
    for n in ast.walk(fi.node):
        # the attribute that set_raw() reads back: `equations`
        if isinstance(n, ast.Attribute) and isinstance(
                n.ctx, ast.Store) and isinstance(n.value, ast.Name) and \
                n.value.id != "self" and n.attr == "equations":
            written.setdefault(n.value.id, n)
        if isinstance(n, ast.Call) and isinstance(
                n.func, ast.Name) and n.func.id == "setattr" and len(
                n.args) >= 2 and isinstance(n.args[0], ast.Name) and \
                n.args[0].id != "self" and repo.const(
                fi.module, n.args[1]) == "equations":
            written.setdefault(n.args[0].id, n)
    n_sites = 0
    for name, site in sorted(written.items()):
        binds = [st.value for st in ast.walk(fi.node) if isinstance(
            st, (ast.Assign, ast.AnnAssign)) and getattr(
            st, "value", None) is not None and any(
            isinstance(t, ast.Name) and t.id == name
            for t in (st.targets if isinstance(st, ast.Assign)
                      else [st.target]))]
        if not binds:
            continue                # a parameter / loop variable
        n_sites += 1
        bad = None
        unknown = None
        for v in binds:
            if isinstance(v, ast.Constant) and v.value is None:
                continue
            if isinstance(v, ast.Call) and ast.unparse(v.func).split(
                    ".")[-1] in ("copy", "deepcopy") and v.args:
                continue
            if isinstance(v, ast.Call) and isinstance(
                    v.func, ast.Name) and v.func.id[:1].isupper():
                continue            # a freshly constructed object
            root = v
            while isinstance(root, (ast.Attribute, ast.Subscript)):
                root = root.value
            if isinstance(root, ast.Name) and root.id == "self" and \
                    isinstance(v, ast.Attribute):
                bad = v
            else:
                unknown = v
        ctx.ob("D11.9", fi, site, bad is None and unknown is None,
               f"`{name}` (whose attributes solve() assigns) is a private "
               "copy" if bad is None and unknown is None else (
                   f"solve() assigns attributes of `{name}`, which is "
                   f"`{ast.unparse(bad)}` itself and not a copy: the model "
                   "equations are written into the real system, and "
                   "set_raw() restores them as if they were the system's"
                   if bad is not None else
                   f"how `{name}` = `{ast.unparse(unknown)[:60]}` relates "
                   "to the real system is not recognised"),
               construct=f"scratch object {name}")
    ctx.floor("scratch_objects", n_sites, 1)
