"""Obligations of C01 / C14 stated over the decoder path model.

See `sa.decmodel`: every obligation below is a statement about the values
at a move event or at the end of an iteration of the item loop, decided on
every consistent outcome of the comparisons involved (Fourier-Motzkin).
"""
from __future__ import annotations

import ast
from typing import Any

from sa.casesplit import minmax_to_ite, Splitter, describe
from sa.decmodel import DecodeModel, Move, State
from sa.lin import Lin, consistent, entails
from sa.report import Ctx
from sa.srcmodel import FuncInfo
from sa.symterm import (Poly, Unsupported, _eq, all_atoms, ite, map_atom,
                        show, show_cond)

ENC = "moptipyapps.binpacking2d.encodings."
INST = "moptipyapps.binpacking2d.instance"

W, H = Poly.var("bin_width"), Poly.var("bin_height")
ZERO, ONE = Poly.const(0), Poly.const(1)


def build_model(ctx: Ctx, enc: str, C: dict[str, int]) -> DecodeModel | None:
    repo = ctx.repo
    dec = repo.func(ENC + enc, "_decode")
    ks = [repo.func(ENC + enc, "__move_down"),
          repo.func(ENC + enc, "__move_left")]
    try:
        return DecodeModel(repo, dec, ks, C)
    except Unsupported as u:
        ctx.ob("D1.0" if ctx.prop == "C01" else "D14.0", dec,
               u.node or dec.node, False,
               f"the decoder cannot be modelled: {u}",
               construct=f"{enc} decoder model")
        return None


def model_ok(ctx: Ctx, m: DecodeModel, rule: str) -> bool:
    """The model covers the whole loop body (nothing was skipped)."""
    dec = m.dec
    name = dec.module.name.split(".")[-1]
    ok = m.head_ok and not m.problems and bool(m.finals) and bool(m.moves)
    detail = (f"{name}: {len(m.finals)} end-of-iteration states, "
              f"{len(m.moves)} move events, "
              f"{len(m.searches)} search loop(s) normalised")
    if not m.head_ok:
        detail = (f"{name}: the item loop is not `for i, item in "
                  "enumerate(x)` / `for i in range(len(x))`")
    elif m.problems:
        detail = f"{name}: " + "; ".join(
            f"line {getattr(n, 'lineno', '?')}: {msg}"
            for n, msg in m.problems[:3])
    node = m.problems[0][0] if m.problems else m.loop
    ctx.ob(rule, dec, node, ok, detail, construct=f"{name} decoder model",
           nontrivial=False)
    return ok


# ------------------------------------------------------------------ helpers
class Item:
    """The dimensions of the item an iteration places, per sign of x[i]."""

    def __init__(self, ctx: Ctx, m: DecodeModel, acc: dict[str, Any] | None):
        repo = ctx.repo
        im = repo.module(INST)
        self.cw_col = repo.const(im, ast.Name(id="IDX_WIDTH"))
        self.ch_col = repo.const(im, ast.Name(id="IDX_HEIGHT"))
        ctx.need(isinstance(self.cw_col, int) and isinstance(
            self.ch_col, int), "instance.IDX_WIDTH / IDX_HEIGHT")
        self.m = m
        self.neg = ("lt", m.item, ZERO)
        self.acc = acc

    def dims(self, negative: bool) -> tuple[Poly, Poly]:
        x = self.m.item
        row = (-x - ONE) if negative else (x - ONE)
        return (Poly.atom(("cell", "instance", (row, Poly.const(
            self.cw_col)))), Poly.atom(("cell", "instance", (
                row, Poly.const(self.ch_col)))))

    def accept_conds(self, cw: Poly, ch: Poly) -> list[tuple]:
        """What Instance.__new__ guarantees about an item (cw, ch)."""
        mx = ite(("lt", W, H), H, W)
        cs: list[tuple] = [("le", ONE, cw), ("le", ONE, ch), ("le", cw, mx),
                           ("le", ch, mx), ("le", ONE, W), ("le", ONE, H)]
        acc = self.acc
        if acc is not None and acc.get("ok"):
            rej = acc["rej"].cond
            mn_atom = acc["mn"].as_atom()
            rts = sorted((Poly.atom(a) for a in all_atoms(rej)
                          if a[0] in ("var", "cell")
                          and Poly.atom(a) not in (W, H)),
                         key=lambda p: repr(p.key()))
            mn = ite(("lt", W, H), W, H)
            alts = []
            for a, b in ((cw, ch), (ch, cw)):
                sub = {rts[0].as_atom(): a, rts[1].as_atom(): b,
                       mn_atom: mn}
                alts.append(("not", minmax_to_ite(map_atom(
                    rej, lambda p, s=sub: p.subst(s)))))
            cs.append(("or",) + tuple(alts))
        return cs


def _cases(sp: Splitter, values: tuple, facts: list[Lin], conds: list[tuple]):
    """Cases of `values` under `facts` in which all `conds` hold."""
    for fs, res, trail in sp.cases(tuple(values) + tuple(conds), list(facts)):
        vals, cres = res[:len(values)], res[len(values):]
        if all(c == ("true",) for c in cres):
            yield fs, vals, trail


def classify(m: DecodeModel, st: State) -> tuple[str, Move | None]:
    """kept | reset | broken for the coordinates at the end of a path."""
    cs = m.coords_of(st.env)
    if any(v is None for v in cs.values()):
        return "broken", None
    for mv in st.moves:
        if all(cs[c] == mv.sym[c] for c in m.coord_cols):
            return "kept", mv
    syms = {s for mv in m.moves for s in mv.sym.values()}
    for v in cs.values():
        if m.is_garbage(v) or any(Poly.atom(a) in syms for a in v.atoms()):
            return "broken", None
    return "reset", None


def _sh(v: Any) -> str:
    if v is None:
        return "<not written>"
    if isinstance(v, Poly):
        return show(v)
    if isinstance(v, tuple) and v and isinstance(v[0], str):
        return show_cond(v)
    return repr(v)


def placements(m: DecodeModel) -> list[tuple[str, Any, dict[int, Any],
                                             list[Lin], tuple]]:
    """All complete placements: drops (at move events) and resets."""
    out = []
    for mv in m.moves:
        out.append(("drop", mv.node, mv.coords, mv.facts, mv.trail))
    for st in m.finals:
        kind, _ = classify(m, st)
        if kind == "reset":
            out.append(("reset", m.loop, m.coords_of(st.env), st.facts,
                        st.trail))
    return out


# ====================================================================== C01
def c01_rules(ctx: Ctx, m: DecodeModel, acc: dict[str, Any],
              C: dict[str, int]) -> None:
    dec = m.dec
    name = dec.module.name.split(".")[-1]
    if not model_ok(ctx, m, "D1.2"):
        return
    item = Item(ctx, m, acc)
    L, B, R, T = (C["IDX_LEFT_X"], C["IDX_BOTTOM_Y"], C["IDX_RIGHT_X"],
                  C["IDX_TOP_Y"])
    sp = m.sp
    # ---------------------------------------------------------------- D1.1
    n_cases = 0
    bad11 = bad12 = bad13 = bad17 = None
    node11: Any = m.loop
    pls = placements(m)
    for kind, node, cs, facts, trail in pls:
        if any(v is None or m.is_garbage(v) for v in cs.values()):
            bad12 = bad12 or (f"a {kind} leaves coordinates unwritten: "
                              f"{ {k: _sh(v) for k, v in cs.items()} }")
            continue
        w, h = cs[R] - cs[L], cs[T] - cs[B]
        for negative in (True, False):
            cw, ch = item.dims(negative)
            sign = item.neg if negative else ("not", item.neg)
            conds = [sign] + item.accept_conds(cw, ch)
            try:
                for fs, (w_, h_, l_, b_), tr in _cases(
                        sp, (w, h, cs[L], cs[B]), facts, conds):
                    n_cases += 1
                    fit = entails(fs, sp.lin(W - w_)) and entails(
                        fs, sp.lin(H - h_))
                    if not fit and bad11 is None:
                        bad11 = (f"[{describe(trail + tr)[:260]}] the item "
                                 f"is placed as {show(w_)} x {show(h_)}, "
                                 "which can exceed the bin")
                        node11 = node
                    dims_ok = (sp.equal(w_, cw, fs) and sp.equal(
                        h_, ch, fs)) or (sp.equal(w_, ch, fs) and sp.equal(
                            h_, cw, fs))
                    if not dims_ok and bad12 is None:
                        bad12 = (f"[{describe(trail + tr)[:200]}] a {kind} "
                                 f"gives the rectangle the size {show(w_)} "
                                 f"x {show(h_)}, which is neither the "
                                 "item's (width, height) nor its rotation")
                    nonneg = entails(fs, sp.lin(l_)) and entails(
                        fs, sp.lin(b_))
                    if not nonneg and bad13 is None:
                        bad13 = (f"[{describe(trail + tr)[:200]}] left/bottom"
                                 f" = {show(l_)}, {show(b_)} not known to be "
                                 "non-negative")
                    if kind == "drop":
                        above = entails(fs, sp.lin(b_ - H))
                    else:
                        above = sp.equal(l_, ZERO, fs) and sp.equal(
                            b_, ZERO, fs)
                    if not above and bad17 is None:
                        bad17 = (f"[{describe(trail + tr)[:200]}] a {kind} "
                                 f"starts at left/bottom = {show(l_)}, "
                                 f"{show(b_)}")
            except Unsupported as u:
                bad11 = bad11 or f"case analysis failed: {u}"
    ctx.count("orderings_enumerated", n_cases)
    ctx.ob("D1.1", dec, node11, bad11 is None and n_cases > 0,
           f"{name}: in all {n_cases} outcomes (sign of x[i], rotation "
           "guards, constructor-accepted dimensions) the item is placed "
           "with w <= W and h <= H" if bad11 is None else
           f"after the rotation guard the item can still exceed the bin: "
           f"{bad11}", construct="rotation lemma")
    ctx.ob("D1.2", dec, m.loop, bad12 is None,
           f"{name}: all {len(pls)} placements (drops and new-bin resets) "
           "write all four coordinates with right-left, top-bottom = the "
           "item's dimensions, possibly rotated" if bad12 is None else
           "a coordinate assignment does not give the rectangle the size "
           f"(w, h): {bad12}", construct="size at placement")
    ctx.ob("D1.3", dec, m.loop, bad13 is None,
           f"{name}: left and bottom of every placement are >= 0 (given "
           "w <= W)" if bad13 is None else bad13,
           construct="placement non-negative", nontrivial=False)
    n_drop = sum(1 for p in pls if p[0] == "drop")
    n_reset = sum(1 for p in pls if p[0] == "reset")
    ctx.ob("D1.7", dec, m.loop, bad17 is None and n_drop >= 1
           and n_reset >= 1,
           "every placement is either a drop with bottom >= bin height "
           "(above all kept boxes) or the reset to the bottom-left corner "
           "of a fresh bin" if bad17 is None else bad17,
           construct="initial positions disjoint")
    # ------------------------------------------------ D1.3 keep path inside
    kept = reset = 0
    badk = None
    for st in m.finals:
        kind, mv = classify(m, st)
        if kind == "kept":
            kept += 1
            ok = entails(st.facts, sp.lin(W - mv.sym[R])) and entails(
                st.facts, sp.lin(H - mv.sym[T]))
            if not ok and badk is None:
                badk = ("the item is kept where the moves left it although "
                        f"it may stick out: [{describe(st.trail)[-220:]}]")
        elif kind == "reset":
            reset += 1
        elif badk is None:
            badk = ("a path ends the iteration with coordinates that are "
                    "neither the settled position nor a complete new "
                    f"placement: { {k: _sh(v) for k, v in m.coords_of(st.env).items()} } "
                    f"[{describe(st.trail)[-160:]}]")
    ctx.ob("D1.3", dec, m.loop, badk is None and kept > 0,
           f"{name}: on all {kept} paths that keep the settled position the "
           f"path facts entail right <= W and top <= H; the other {reset} "
           "paths re-place the item in a new bin" if badk is None else badk,
           construct="keep path inside bin")
    # ---------------------------------------------------------------- D1.4
    bad4 = None
    idk = ("y", (m.i, Poly.const(C["IDX_ID"])))
    for st in m.finals:
        v = st.env.stores.get(idk)
        if v is None:
            bad4 = bad4 or "the id column is not written on some path"
            continue
        for negative in (True, False):
            sign = item.neg if negative else ("not", item.neg)
            want = -m.item if negative else m.item
            try:
                for fs, (v_,), tr in _cases(sp, (v,), st.facts, [sign]):
                    if not sp.equal(v_, want, fs) and bad4 is None:
                        bad4 = f"the stored id is {show(v_)}"
            except Unsupported as u:
                bad4 = bad4 or str(u)
    ctx.ob("D1.4", dec, m.loop, bad4 is None,
           "the stored id is |x[i]| on both sign branches" if bad4 is None
           else bad4, construct="stored id")
    # ---------------------------------------------------------------- D1.5
    c01_bins(ctx, m, C)


def counter_of(m: DecodeModel) -> str | None:
    for v in m.carried:
        if m.ret == Poly.var(f"{v}@out"):
            return v
    return None


def c01_bins(ctx: Ctx, m: DecodeModel, C: dict[str, int]) -> None:
    dec = m.dec
    sp = m.sp
    cn = counter_of(m)
    problems: list[str] = []
    if cn is None:
        problems.append("the kernel does not return its bin counter "
                        f"(returns {_sh(m.ret)})")
    else:
        c_in = m.carried_sym[cn]
        if m.pre.vars.get(cn) != ONE:
            problems.append(f"the bin counter starts at "
                            f"{_sh(m.pre.vars.get(cn))}, not 1")
        bk = ("y", (m.i, Poly.const(C["IDX_BIN"])))
        for st in m.finals:
            kind, mv = classify(m, st)
            c_out = st.env.vars.get(cn)
            b = st.env.stores.get(bk)
            where = f"[{describe(st.trail)[-160:]}]"
            if b is None or not isinstance(c_out, Poly):
                problems.append(f"the bin of the row is not stored {where}")
                continue
            facts = st.facts + sp.facts_of(("le", ONE, c_in), True)[0]
            if kind == "reset":
                if not (sp.equal(c_out, c_in + ONE, facts) and sp.equal(
                        b, c_in + ONE, facts)):
                    problems.append(
                        "a new bin must increment the counter by one and "
                        f"store the new value as the row's bin: counter "
                        f"becomes {show(c_out)}, stored bin {show(b)} "
                        f"{where}")
            elif kind == "kept":
                in_rng = entails(facts, sp.lin(b - ONE)) and entails(
                    facts, sp.lin(c_in - b))
                if not (sp.equal(c_out, c_in, facts) and in_rng):
                    problems.append(
                        "an item kept in an open bin must leave the counter "
                        "alone and store a bin in 1..counter: counter "
                        f"becomes {show(c_out)}, stored bin {show(b)} "
                        f"{where}")
    ctx.ob("D1.5", dec, dec.node, not problems,
           "the bin counter starts at 1, grows by exactly 1 when (and only "
           "when) an item is re-placed in a new bin, whose id is the new "
           "counter value; kept items store a bin in 1..counter; the "
           "kernel returns the counter (range 1..n_items: C13)"
           if not problems else "the bin counter protocol is broken: "
           + problems[0], construct="bin counter protocol",
           witness=None if not problems else {"problems": problems[:4]})


# ====================================================================== C14
def c14_rules(ctx: Ctx, m: DecodeModel, enc2: bool, C: dict[str, int]) \
        -> None:
    dec = m.dec
    name = dec.module.name.split(".")[-1]
    if not model_ok(ctx, m, "D14.4"):
        return
    item = Item(ctx, m, None)
    sp = m.sp
    L, B, R, T = (C["IDX_LEFT_X"], C["IDX_BOTTOM_Y"], C["IDX_RIGHT_X"],
                  C["IDX_TOP_Y"])
    # ---- orientation rule + drop / reset positions
    bad_drop = bad_reset = bad_or = None
    n = 0
    for kind, node, cs, facts, trail in placements(m):
        if any(v is None or m.is_garbage(v) for v in cs.values()):
            msg = f"incomplete: { {k: _sh(v) for k, v in cs.items()} }"
            if kind == "drop":
                bad_drop = bad_drop or msg
            else:
                bad_reset = bad_reset or msg
            continue
        for negative in (True, False):
            cw, ch = item.dims(negative)
            sign = item.neg if negative else ("not", item.neg)
            w0, h0 = (ch, cw) if negative else (cw, ch)
            forced = ("or", ("lt", W, w0), ("lt", H, h0))
            try:
                for fs, (l_, b_, r_, t_, f_), tr in _cases(
                        sp, (cs[L], cs[B], cs[R], cs[T], forced), facts,
                        [sign]):
                    n += 1
                    w, h = (h0, w0) if f_ == ("true",) else (w0, h0)
                    want = (W - w, H, W, H + h) if kind == "drop" else (
                        ZERO, ZERO, w, h)
                    got = (l_, b_, r_, t_)
                    if all(sp.equal(g, x, fs) for g, x in zip(got, want)):
                        continue
                    where = f"[{describe(trail + tr)[:200]}]"
                    size_ok = sp.equal(r_ - l_, w, fs) and sp.equal(
                        t_ - b_, h, fs)
                    if not size_ok and bad_or is None:
                        bad_or = (f"{where} the item is placed as "
                                  f"{show(r_ - l_)} x {show(t_ - b_)}; the "
                                  "rule (rotate iff x[i] < 0, then rotate "
                                  "again iff it does not fit) gives "
                                  f"{show(w)} x {show(h)}")
                    elif kind == "drop" and bad_drop is None:
                        bad_drop = (f"{where} drop position is "
                                    f"{[show(g) for g in got]}")
                    elif kind == "reset" and bad_reset is None:
                        bad_reset = (f"{where} new-bin reset is "
                                     f"{[show(g) for g in got]}")
            except Unsupported as u:
                bad_or = bad_or or f"case analysis failed: {u}"
    ctx.count(f"placement_cases_{name[-1]}", n)
    ctx.ob("D14.4", dec, m.loop, bad_or is None and n > 0,
           "items are rotated iff x[i] < 0 and once more iff they then do "
           "not fit the bin" if bad_or is None else bad_or,
           construct="item orientation")
    ctx.ob("D14.4", dec, m.loop, bad_drop is None,
           "drop position is (W-w, H, W, H+h): the item starts on top of "
           "the bin, flush right" if bad_drop is None else bad_drop,
           construct="drop position")
    ctx.ob("D14.4", dec, m.loop, bad_reset is None,
           "a new bin places the item at (0, 0, w, h)" if bad_reset is None
           else bad_reset, construct="new-bin reset")
    # ---- counter
    cn = counter_of(m)
    c_in = m.carried_sym.get(cn) if cn else None
    bad_inc = None
    for st in m.finals:
        kind, _ = classify(m, st)
        if cn is None:
            bad_inc = "no bin counter is returned"
            break
        c_out = st.env.vars.get(cn)
        want = c_in + ONE if kind == "reset" else c_in
        if not (isinstance(c_out, Poly) and sp.equal(c_out, want,
                                                     st.facts)):
            bad_inc = bad_inc or (
                f"the counter becomes {_sh(c_out)} on a path that "
                f"{'opens a new bin' if kind == 'reset' else 'keeps the item'}")
    ctx.ob("D14.4", dec, m.loop, bad_inc is None,
           "a new bin increments the bin counter by one" if bad_inc is None
           else bad_inc, construct="bin counter increment")
    if cn is None:
        return
    if enc2:
        _c14_first_fit(ctx, m, C, cn)
    else:
        _c14_next_fit(ctx, m, C, cn)


def _fit(m: DecodeModel, mv: Move, C: dict[str, int]) -> list[tuple]:
    return [("le", mv.sym[C["IDX_RIGHT_X"]], W),
            ("le", mv.sym[C["IDX_TOP_Y"]], H)]


def _fits_possible(m: DecodeModel, facts: list[Lin], mv: Move,
                   C: dict[str, int]) -> bool:
    fs = list(facts)
    for c in _fit(m, mv, C):
        fs += m.sp.facts_of(c, True)[0]
    return consistent(fs)


def _kernel_args(m: DecodeModel, mv: Move, want: list[Any]) -> str | None:
    if not mv.calls:
        return "no kernel call"
    for k, args, c in mv.calls:
        got = [a for a in args]
        if len(got) != len(want):
            return f"{k.name} is called with {len(got)} arguments"
        for g, w_, p in zip(got, want, k.params):
            if isinstance(w_, str):
                okk = g == Poly.var(w_) or (isinstance(g, tuple)
                                            and g == ("array", w_))
            else:
                okk = isinstance(g, Poly) and m.sp.equal(g, w_, mv.facts)
            if not okk:
                return (f"{k.name}: parameter `{p}` receives {_sh(g)} "
                        f"instead of {_sh(w_) if not isinstance(w_, str) else w_}")
    return None


def _c14_next_fit(ctx: Ctx, m: DecodeModel, C: dict[str, int], cn: str) \
        -> None:
    dec = m.dec
    sp = m.sp
    # the window variable: the carried variable passed as window start
    wins = set()
    for mv in m.moves:
        for k, args, c in mv.calls:
            if len(args) == 3 and isinstance(args[1], Poly):
                for v, s in m.carried_sym.items():
                    if args[1] == s:
                        wins.add(v)
    bad = None
    okb = len(wins) == 1
    wv = next(iter(wins)) if okb else None
    if not okb:
        bad = ("the move kernels do not receive one loop-carried window "
               f"start (found {sorted(wins)})")
    else:
        for st in m.finals:
            kind, mv = classify(m, st)
            out = st.env.vars.get(wv)
            if kind == "reset":
                # opened exactly when the settled item sticks out
                last = st.moves[-1] if st.moves else None
                if last is None or _fits_possible(m, st.facts, last, C):
                    bad = bad or ("a new bin is opened although the settled "
                                  "item may lie inside the bin "
                                  f"[{describe(st.trail)[-160:]}]")
                if not (isinstance(out, Poly) and sp.equal(out, m.i,
                                                           st.facts)):
                    bad = bad or ("opening a bin must move the window start "
                                  f"to the new item; it becomes {_sh(out)}")
            elif kind == "kept":
                if not all(sp.decide(c, st.facts) is True
                           for c in _fit(m, mv, C)):
                    bad = bad or ("the item is kept in the bin although it "
                                  "may stick out "
                                  f"[{describe(st.trail)[-160:]}]")
                if out != m.carried_sym[wv]:
                    bad = bad or ("the window start changes although no bin "
                                  f"is opened: {_sh(out)}")
    ctx.ob("D14.4", dec, m.loop, bad is None,
           "next-fit: a new bin is opened iff the settled item sticks out "
           "(right > W or top > H); later items only see the new bin"
           if bad is None else f"next-fit broken: {bad}",
           construct="next-fit policy")
    ok0 = wv is not None and m.pre.vars.get(wv) == ZERO
    ctx.ob("D14.4", dec, dec.node, ok0,
           "the window start is 0 initially and moves only when a bin is "
           "opened: the window [start, i) holds exactly the boxes of the "
           "current bin" if ok0 else
           "the window of the current bin does not start at the first box "
           f"(initial value {_sh(m.pre.vars.get(wv)) if wv else '?'})",
           construct="bin_start assignments")
    if wv is None:
        return
    for kn in ("__move_down", "__move_left"):
        bad_a = None
        n = 0
        for mv in m.moves:
            sub = Move(mv.node, mv.coords, [c for c in mv.calls
                                            if c[0].name == kn], mv.facts,
                       mv.trail, mv.sym, mv.serial)
            n += len(sub.calls)
            bad_a = bad_a or _kernel_args(m, sub, ["y", m.carried_sym[wv],
                                                   m.i])
        ctx.ob("D14.4", dec, m.loop, bad_a is None and n > 0,
               f"{kn}(packing, bin_start, i): the item just placed is "
               "moved against the boxes of its bin" if bad_a is None else
               f"{kn} is not called as (packing, bin_start, current index): "
               f"{bad_a}", construct=f"arguments of {kn}")


def _c14_first_fit(ctx: Ctx, m: DecodeModel, C: dict[str, int], cn: str) \
        -> None:
    dec = m.dec
    sp = m.sp
    c_in = m.carried_sym[cn]
    nodes = {id(S["node"]) for S in m.searches}
    ok_s = len(nodes) == 1
    ctx.ob("D14.4", dec, m.loop, ok_s,
           "one search loop over the open bins per item" if ok_s else
           f"{len(nodes)} search loops over the bins",
           construct="bin search loop", nontrivial=False)
    if not ok_s:
        return
    snode = m.searches[0]["node"]
    bad_r = bad_f = bad_w = None
    n_calls = {"__move_down": 0, "__move_left": 0}
    for S in m.searches:
        b = S["var"]
        mvs = [mv for mv in m.moves if mv.search == S["tag"]]
        # the bin id tried in an iteration: the kernels' bin argument
        ids = set()
        for mv in mvs:
            for k, args, c in mv.calls:
                n_calls[k.name] = n_calls.get(k.name, 0) + 1
                if len(args) == 5 and isinstance(args[1], Poly):
                    ids.add(args[1])
        if len(ids) != 1:
            bad_r = bad_r or ("the kernels do not receive one bin id per "
                              "iteration of the search")
            continue
        bid = next(iter(ids))
        k0 = (bid - b).const_value()
        lo, hi = S["lo"], S["hi"]
        if k0 is None:
            bad_r = bad_r or (f"bin id {show(bid)} is not loop index + "
                              "constant")
            continue
        if not ((lo + Poly.const(k0)) == ONE and (
                hi - ONE + Poly.const(k0)) == c_in):
            bad_r = bad_r or (f"bins {show(lo + Poly.const(k0))}.."
                              f"{show(hi - ONE + Poly.const(k0))} are "
                              "tried instead of 1..bin_id")
        # ---- first fit: stop at the first bin that fits, go on otherwise
        for o in S["continuing"]:
            last = o.moves[-1] if o.moves else None
            if last is None or last.search != S["tag"] or _fits_possible(
                    m, o.facts, last, C):
                bad_f = bad_f or (
                    "the search goes on to the next bin although the "
                    "settled item may lie inside the current one "
                    f"[{describe(o.trail)[-160:]}]")
        for o in S["breaking"]:
            last = o.moves[-1] if o.moves else None
            okk = last is not None and last.search == S["tag"] and all(
                sp.decide(c, o.facts) is True for c in _fit(m, last, C))
            if not okk:
                bad_f = bad_f or (
                    "the search stops in a bin in which the item may stick "
                    f"out [{describe(o.trail)[-160:]}]")
        if not S["breaking"]:
            bad_f = bad_f or "the search never stops at a fitting bin"
        # ---- windows from the tables, indexed by bin - 1
        for mv in mvs:
            bad_w = bad_w or _kernel_args(m, mv, [
                "y", bid,
                Poly.atom(("cell", "bin_starts", (bid - ONE,))),
                Poly.atom(("cell", "bin_ends", (bid - ONE,))), m.i])
    ctx.ob("D14.4", dec, snode, bad_r is None,
           "first fit: bins 1..bin_id are tried in ascending order"
           if bad_r is None else f"first fit broken: {bad_r}",
           construct="first-fit bin order")
    ctx.ob("D14.4", dec, snode, bad_f is None,
           "the search stops (`break`) at the first bin in which the "
           "settled item lies inside the bin" if bad_f is None else bad_f,
           construct="first fit")
    ctx.ob("D14.4", dec, snode, bad_w is None,
           "each bin's window is [bin_starts[b-1], bin_ends[b-1]) and the "
           "kernels are called as (packing, bin, window start, window end, "
           "i)" if bad_w is None else bad_w, construct="bin windows")
    for kn in ("__move_down", "__move_left"):
        ctx.ob("D14.4", dec, snode, bad_w is None and n_calls.get(kn, 0) > 0,
               f"{kn}(packing, bin, window start, window end, i)"
               if bad_w is None else f"{kn} is not called as (packing, bin, "
               "window start, window end, current index)",
               construct=f"arguments of {kn}")
    # ---- window tables follow the boxes
    t_problems: list[str] = []
    if m.pre.stores.get(("bin_starts", (ZERO,))) != ZERO:
        t_problems.append("bin 1's window does not start at box 0")
    e0 = m.pre.stores.get(("bin_ends", (ZERO,)))
    if e0 is None or e0.const_value() is None or e0.const_value() > 0:
        t_problems.append("bin 1's window is not initially empty")
    for st in m.finals:
        kind, mv = classify(m, st)
        tabs = {k: v for k, v in st.env.stores.items()
                if k[0] in ("bin_starts", "bin_ends")}
        where = f"[{describe(st.trail)[-120:]}]"
        if kind == "kept":
            kb = st.env.stores.get(("y", (m.i, Poly.const(C["IDX_BIN"]))))
            want = {("bin_ends", (kb - ONE,)): m.i + ONE} if isinstance(
                kb, Poly) else {}
            if not _same_tables(sp, tabs, want, st.facts):
                t_problems.append(
                    "placing item i in bin b must extend the window: "
                    f"bin_ends[b-1] = i + 1 (found {_tab(tabs)}) {where}")
        elif kind == "reset":
            want = {("bin_starts", (c_in,)): m.i,
                    ("bin_ends", (c_in,)): m.i + ONE}
            if not _same_tables(sp, tabs, want, st.facts):
                t_problems.append(
                    "opening bin B+1 must set its window to [i, i+1): "
                    "bin_starts[B] = i, bin_ends[B] = i + 1 (found "
                    f"{_tab(tabs)}) {where}")
    ctx.ob("D14.4", dec, m.loop, not t_problems,
           "the window tables follow the boxes: bin 1 starts as [0, 0), "
           "placing item i in bin b sets bin_ends[b-1] = i + 1, opening "
           "a bin records [i, i+1) - every box of a bin lies inside its "
           "window" if not t_problems else "; ".join(t_problems[:2]),
           construct="window tables updated")
    # ---- a new bin only when no open bin fits (exhausted search)
    bad_n = None
    for st in m.finals:
        kind, mv = classify(m, st)
        if kind == "reset" and st.found_in is not None:
            bad_n = "a new bin is opened although the search found a bin"
        if kind == "kept" and st.found_in is None:
            bad_n = "an item is kept without a successful search"
    ctx.ob("D14.4", dec, m.loop, bad_n is None,
           "a new bin is opened exactly when the search over the open bins "
           "is exhausted" if bad_n is None else bad_n,
           construct="new bin iff no open bin fits")


def _same_tables(sp: Splitter, got: dict, want: dict, facts: list[Lin]) \
        -> bool:
    if len(got) != len(want):
        return False
    for (arr, idx), v in want.items():
        hit = [gv for (ga, gi), gv in got.items() if ga == arr and len(
            gi) == 1 and sp.equal(gi[0], idx[0], facts)]
        if len(hit) != 1 or not sp.equal(hit[0], v, facts):
            return False
    return True


def _tab(t: dict) -> str:
    return str({f"{k[0]}[{show(k[1][0])}]": show(v) for k, v in t.items()})


__all__ = ["build_model", "c01_rules", "c14_rules", "FuncInfo", "_eq"]
