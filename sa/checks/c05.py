"""C05 - tour length equals the cyclic edge sum and respects the bounds."""
from __future__ import annotations

import ast
from typing import Any

from sa.cfg import CFG, calls_in
from sa.guards import opaque_note, GuardWalk, is_opaque
from sa.kern import eval_kernel, make_evaluator, py_calls
from sa.loopsum import (LoopSummariser, has_opaque, kvar, length_of, r_cell,
                        r_red, r_sum)
from sa.report import Ctx
from sa.srcmodel import FuncInfo, func_body, inline_locals
from sa.symterm import Env, Poly, Unsupported, all_atoms, c_not, show, \
    show_cond

TL = "moptipyapps.tsp.tour_length"
INST = "moptipyapps.tsp.instance"
NARROW = {"int8", "int16", "int32", "uint8", "uint16", "uint32", "intc",
          "short", "byte", "astype", "view", "float32", "float16"}


def run(ctx: Ctx) -> None:
    repo = ctx.repo
    ctx.explanation = (
        "D5.1: the njit kernel tour_length is summarised into a closed form "
        "and must equal SUM_{k<n} M[x[k-1], x[k]] (x[-1] = x[n-1]: the "
        "cyclic edge sum) for symbolic M, x, n. D5.2: the accumulator is a "
        "64-bit kernel scalar (no narrowing construct in the kernel) and the "
        "constructor caps the upper bound below 2^63. D5.3: the unsafe copy "
        "is followed on every path to the return by a complete double loop "
        "raising on any unequal entry; the dtype request covers "
        "+-multiplier*max(upper_bound, n). D5.4: the stored upper (lower) "
        "bound is SUM_i max_{j!=i} (min) of the matrix entries, the "
        "objective returns exactly these attributes, and the symmetry flag "
        "starts True and is cleared exactly when M[i,j] != M[j,i] for some "
        "i != j.")
    ctx.rule("D5.1", "tour_length == sum_k M[x[(k-1) mod n], x[k]]")
    ctx.rule("D5.2", "64-bit accumulation, capped bound")
    ctx.rule("D5.3", "unsafe copy verified entry by entry before return")
    ctx.rule("D5.4", "bounds = sums of row extrema; symmetry flag monotone "
             "and complete; objective returns the attributes")
    _d51(ctx)
    _constructor(ctx)
    _objective(ctx)
    ctx.assumptions += [
        "N1: integer scalars inside njit kernels are 64 bit",
        "N3: index -1 addresses the last element",
        "P1: x is a permutation of 0..n-1 (so len(x) = n)",
        "matrix entries are non-negative (property domain)",
    ]


def _d51(ctx: Ctx) -> None:
    repo = ctx.repo
    k = repo.func(TL, "tour_length")
    ctx.need(k.njit is not None, "tour_length is an njit kernel")
    inst, x = k.params
    ls = LoopSummariser()
    try:
        env = eval_kernel(repo, k, loop_hook=ls.hook)
        got = env.returned
    except Unsupported as u:
        # the loop form is not summarised; a transposed closing edge is
        # still visible in the orientation of the matrix reads: inside the
        # loop instance[previous, current], after it instance[last, first]
        from sa.srcmodel import inline_locals as _il
        loop_ = next((s_ for s_ in ast.walk(k.node) if isinstance(
            s_, ast.For)), None)
        xs_ = k.params[1] if len(k.params) > 1 else "x"
        mat_ = k.params[0]
        rev_ = None
        if loop_ is not None and isinstance(loop_.target, ast.Name):
            cur_ = loop_.target.id
            carried = {st.targets[0].id for st in loop_.body if isinstance(
                st, ast.Assign) and isinstance(st.targets[0], ast.Name)
                and isinstance(st.value, ast.Name) and st.value.id == cur_}
            inside_ = {id(n_) for n_ in ast.walk(loop_)}
            for sb in ast.walk(k.node):
                if isinstance(sb, ast.Subscript) and isinstance(
                        sb.value, ast.Name) and sb.value.id == mat_ and \
                        isinstance(sb.slice, ast.Tuple) and len(
                        sb.slice.elts) == 2 and id(sb) not in inside_:
                    a_, b_ = sb.slice.elts
                    a_src = ast.unparse(_il(k.node, a_)).replace(" ", "")
                    if a_src == f"{xs_}[0]" and isinstance(
                            b_, ast.Name) and b_.id in carried:
                        rev_ = sb
        if rev_ is not None:
            ctx.ob("D5.1", k, rev_, False,
                   f"the closing edge is read as `{ast.unparse(rev_)}`: "
                   "from the first city to the last one - the tour returns "
                   "from the last city to the first, which is another cell "
                   "of an asymmetric matrix", construct="closing edge")
        ctx.ob("D5.1", k, u.node or k.node, False,
               f"cannot normalise the kernel: {u}", construct="closed form")
        return
    k0 = kvar(0)
    want = r_sum(0, 0, length_of(x), r_cell(
        inst, r_cell(x, k0 - Poly.const(1)), r_cell(x, k0)))
    ok = isinstance(got, Poly) and got == want
    if isinstance(got, Poly) and not ok:
        a = got.as_atom()
        if a is not None and a[0] == "app" and a[1] == "int":
            ok = a[2][0] == want
    ctx.ob("D5.1", k, k.node, ok,
           f"kernel returns {show(got)[:200]}" + (
               "" if ok else f"; expected {show(want)}"),
           construct="closed form of tour_length")
    # D5.2 (kernel part)
    bad = []
    for n in ast.walk(k.node):
        if isinstance(n, ast.Attribute) and n.attr in NARROW:
            bad.append(n)
        if isinstance(n, ast.Name) and n.id in NARROW:
            bad.append(n)
        if isinstance(n, (ast.Assign, ast.AugAssign)) and any(
                isinstance(t, ast.Subscript) for t in (
                    n.targets if isinstance(n, ast.Assign)
                    else [n.target])):
            bad.append(n)
    ctx.ob("D5.2", k, bad[0] if bad else k.node, not bad,
           "no narrowing construct (np.intN/astype/array-element "
           "accumulator) in the kernel: the sum is a 64-bit scalar"
           if not bad else f"narrowing construct `{ast.unparse(bad[0])}`",
           construct="64-bit accumulator")


def _constructor(ctx: Ctx) -> None:
    repo = ctx.repo
    new = repo.func(INST, "Instance.__new__")
    ls = LoopSummariser()
    ev = make_evaluator(repo, new, extra_call=py_calls, loop_hook=ls.hook)
    ev.int_transparent = True
    # the local flag that is stored as the `is_symmetric` attribute
    watch = {next((s_.value.id for s_ in ast.walk(new.node) if isinstance(
        s_, ast.Assign) and len(s_.targets) == 1 and isinstance(
        s_.targets[0], ast.Attribute) and s_.targets[0].attr ==
        "is_symmetric" and isinstance(s_.value, ast.Name)), "is_symmetric")}
    gw = GuardWalk(ev, ls, watch)
    env0 = Env()
    for p_ in new.params:
        # scalar parameters may be re-bound under a condition
        if p_ not in ("cls", "matrix"):
            env0.vars[p_] = Poly.var(p_)
    env = gw.walk(env0, func_body(new))
    mat = "matrix"
    ctx.need(mat in new.params, "Instance.__new__(..., matrix, ...)")
    n = length_of(mat)
    k0, k1 = kvar(0), kvar(1)
    from sa.symterm import _eq
    neq = ("not", _eq(k0, k1))

    def obj_attr(name: str) -> Any:
        for key, v in env.vars.items():
            if key.endswith("." + name):
                return v
        return None

    # ---------------- D5.4 upper bound
    ub = obj_attr("tour_length_upper_bound")
    ctx.need(ub is not None, "assignment of tour_length_upper_bound")
    oks = False
    detail = f"stored upper bound = {show(ub)[:220]}"
    if isinstance(ub, Poly) and not has_opaque(ub):
        for cellidx in ((k0, k1), (k1, k0)):
            for init in (-1, 0):
                want = r_sum(0, 0, n, r_red("maxred", 1, 0, n, r_cell(
                    mat, *cellidx), init, neq))
                if ub == want:
                    oks = True
    ctx.ob("D5.4", new, new.node, oks,
           detail + ("" if oks else "; expected sum_i max_{j != i} "
                     "matrix[i, j] (or the column form)"),
           construct="tour_length_upper_bound")
    # ---------------- D5.4 lower bound
    lb = obj_attr("tour_length_lower_bound")
    ctx.need(lb is not None, "assignment of tour_length_lower_bound")
    okl = False
    if isinstance(lb, Poly):
        args = [lb]
        a = lb.as_atom()
        if a is not None and a[0] == "app" and a[1] == "max":
            args = list(a[2])
        elif a is not None and a[0] == "ite" and a[1][0] in ("lt", "le") \
                and isinstance(a[2], Poly) and isinstance(a[3], Poly) and \
                {a[1][1], a[1][2]} == {a[2], a[3]} and a[1][2] == a[2]:
            # `x if y < x else y` (the taken value is the larger one)
            args = [a[2], a[3]]
        given = Poly.var("tour_length_lower_bound")
        rest = [p for p in args if p != given]
        if len(rest) == 1 and not has_opaque(rest[0]):
            a2 = rest[0].as_atom()
            if a2 is not None and a2[0] == "sum":
                inner = a2[4].as_atom()
                if inner is not None and inner[0] == "minred" and \
                        a2[2] == Poly.const(0) and a2[3] == n and \
                        inner[2] == Poly.const(0) and inner[3] == n and \
                        inner[4] in (r_cell(mat, k0, k1),
                                     r_cell(mat, k1, k0)) and \
                        inner[6] == neq:
                    iv = inner[5].const_value()
                    okl = iv is not None and iv >= 10**15
    ctx.ob("D5.4", new, new.node, okl,
           f"stored lower bound = {show(lb)[:220]}" + (
               "" if okl else "; expected max(given, sum_i min_{j != i} "
               "matrix[i, j]) with an initial value above every entry"),
           construct="tour_length_lower_bound")
    # the locals that end up in the attributes (by use, not by spelling)
    def local_of_attr(attr: str) -> str | None:
        for s_ in ast.walk(new.node):
            if isinstance(s_, ast.Assign) and len(s_.targets) == 1 and \
                    isinstance(s_.targets[0], ast.Attribute) and \
                    s_.targets[0].attr == attr and isinstance(
                    s_.value, ast.Name):
                return s_.value.id
        return None
    ub_local = local_of_attr("tour_length_upper_bound") or "upper_bound"
    sym_local = local_of_attr("is_symmetric") or "is_symmetric"
    # ---------------- D5.2 cap
    cap_ok = False
    cap_node: ast.AST = new.node
    for c in ast.walk(new.node):
        if isinstance(c, ast.Call) and isinstance(c.func, ast.Name) and \
                c.func.id == "check_int_range" and len(c.args) >= 4 and \
                isinstance(c.args[0], ast.Name) and \
                c.args[0].id == ub_local:
            hi = repo.const(new.module, c.args[3])
            if isinstance(hi, int) and hi < 2**62:
                cap_ok = True
                cap_node = c
    ctx.ob("D5.2", new, cap_node, cap_ok,
           "constructor rejects upper bounds above a constant < 2^62, so "
           "every partial sum of a tour fits a signed 64-bit scalar"
           if cap_ok else "no constant cap on upper_bound found",
           construct="upper bound cap")
    # ---------------- D5.4 farthest <= 0 rejected
    from sa.casesplit import equivalent
    rej = []
    for e in gw.exits:
        if e.kind == "raise" and len(e.loops) == 1 and not is_opaque(
                e.cond) and e.cond[0] in ("le", "lt", "not"):
            # `x <= 0`, `x < 1`, `not x > 0` ... over the integers
            for a in sorted({a for a in all_atoms(e.cond)
                             if a[0] in ("var", "app", "maxred", "minred",
                                         "cell")}, key=repr):
                if equivalent(e.cond, ("le", Poly.atom(a),
                                       Poly.const(0)))[0]:
                    rej.append(e)
                    break
    ctx.ob("D5.4", new, rej[0].node if rej else new.node, bool(rej),
           "rows without a positive off-diagonal entry are rejected"
           if rej else opaque_note(gw.exits, lambda e: len(e.loops) == 1)
           + "no rejection of `farthest_neighbor <= 0`",
           construct="positive entry per row", nontrivial=False)
    # ---------------- symmetry flag
    marks = [m for m in gw.marks if m.name == sym_local]
    init = [m for m in marks if not m.loops]
    clears = [m for m in marks if m.loops]
    ok_init = len(init) == 1 and init[0].value == ("true",)
    ok_only_false = all(m.value == ("false",) for m in clears) and clears
    ok_guard = False
    gdetail = ""
    for m in clears:
        if len(m.loops) != 2 or is_opaque(m.path):
            continue
        lv = [lp.target.id for lp in m.loops
              if isinstance(lp.target, ast.Name)]
        if len(lv) != 2:
            continue
        i, j = Poly.var(lv[0]), Poly.var(lv[1])
        from sa.symterm import c_and
        want1 = c_and(("not", _eq(i, j)), ("not", _eq(
            r_cell(mat, i, j), r_cell(mat, j, i))))
        want2 = c_and(("not", _eq(r_cell(mat, i, j), r_cell(mat, j, i))),
                      ("not", _eq(i, j)))
        gdetail = show_cond(m.path)
        full = all(_full_range(ev, gw, lp, n) for lp in m.loops)
        if _same_cond(m.path, want1) or _same_cond(m.path, want2):
            ok_guard = full
        else:
            # the same condition in another spelling (e.g. with conjuncts
            # that an earlier rejection on the same path already implies)
            try:
                if equivalent(m.path, want1)[0]:
                    ok_guard = full
            except Unsupported:
                pass
    ctx.ob("D5.4", new, (clears[0].node if clears else new.node),
           bool(ok_init and ok_only_false and ok_guard),
           "is_symmetric starts True, is only ever assigned False, exactly "
           f"under [{gdetail}] inside complete loops over all (i, j)"
           if ok_init and ok_only_false and ok_guard else
           f"symmetry flag protocol broken: init_ok={ok_init} "
           f"only_false={bool(ok_only_false)} guard=[{gdetail}] "
           f"complete={ok_guard}",
           construct="symmetry flag")
    sym = obj_attr("is_symmetric")
    ctx.ob("D5.4", new, new.node, sym is not None,
           "the flag is stored in the instance", construct="flag stored",
           nontrivial=False)
    _copy_check(ctx, new, gw, ev, n)


def _arr_name(env: Env, e: ast.expr) -> str:
    if isinstance(e, ast.Name):
        b = env.vars.get(e.id)
        if isinstance(b, Poly) and b.as_atom() and b.as_atom()[0] == "var":
            return b.as_atom()[1]
    return ast.unparse(e)


def _same_cond(a: tuple, b: tuple) -> bool:
    def norm(c: tuple) -> Any:
        if c[0] == "and":
            return ("and", frozenset(norm(x) for x in c[1:]))
        if c[0] == "not":
            return ("not", norm(c[1]))
        if c[0] == "eq":
            return ("eq", frozenset((c[1], c[2])))
        return c
    return norm(a) == norm(b)


def _full_range(ev: Any, gw: GuardWalk, lp: ast.For, n: Poly) -> bool:
    it = lp.iter
    if not (isinstance(it, ast.Call) and isinstance(it.func, ast.Name)
            and it.func.id == "range" and len(it.args) == 1):
        return False
    try:
        return ev.num(gw.loop_envs[id(lp)], it.args[0]) == n
    except Unsupported:
        return False


#: conversions of an array that always return new storage / that return the
#: argument itself when nothing has to be converted
_FRESH_FUNCS = {"array", "copy"}
_ALIAS_FUNCS = {"asarray", "asanyarray", "ascontiguousarray",
                "asfortranarray", "require"}


def _conversion(val: ast.Call, cls_name: str) \
        -> tuple[ast.Call, ast.expr, bool] | None:
    """`<conversion of src>.view(cls)` -> (conversion call, src, fresh?)."""
    if not (isinstance(val.func, ast.Attribute) and val.func.attr == "view"
            and len(val.args) == 1 and isinstance(val.args[0], ast.Name)
            and val.args[0].id == cls_name):
        return None
    inner = val.func.value
    if isinstance(inner, ast.Name):
        return val, inner, False     # a plain view of the argument
    if not (isinstance(inner, ast.Call)
            and isinstance(inner.func, ast.Attribute)):
        return None
    kws = {k.arg: k.value for k in inner.keywords}
    no_copy = "copy" in kws and not (isinstance(
        kws["copy"], ast.Constant) and kws["copy"].value is True)
    np_ = isinstance(inner.func.value, ast.Name) and inner.func.value.id in (
        "np", "numpy")
    fn = inner.func.attr
    if np_ and inner.args:
        if fn in _FRESH_FUNCS:
            return inner, inner.args[0], not no_copy
        if fn in _ALIAS_FUNCS:
            return inner, inner.args[0], False
        return None
    if not np_ and fn in ("astype", "copy"):
        return inner, inner.func.value, not no_copy
    return None


def _copy_check(ctx: Ctx, new: FuncInfo, gw: GuardWalk, ev: Any,
                n: Poly) -> None:
    cfg = CFG(new.node)
    copies: list[tuple[Any, ast.Call, ast.expr, ast.expr, bool]] = []
    for node in cfg.nodes:
        for c in calls_in(node.ast) if node.kind == "stmt" else []:
            if isinstance(c.func, ast.Attribute) and \
                    c.func.attr == "copyto" and len(c.args) >= 2:
                uns = any(isinstance(a, ast.Constant) and a.value == "unsafe"
                          for a in c.args[2:]) or any(
                    kw.arg == "casting" and isinstance(kw.value, ast.Constant)
                    and kw.value.value == "unsafe" for kw in c.keywords)
                copies.append((node, c, c.args[0], c.args[1], uns))
    if not copies:
        # the instance is made by converting the given matrix and viewing
        # the result as the class: `np.array(m, dtype).view(cls)` etc.
        ret_names = {r.value.id for r in ast.walk(new.node)
                     if isinstance(r, ast.Return)
                     and isinstance(r.value, ast.Name)}
        for node in cfg.nodes:
            st = node.ast if node.kind == "stmt" else None
            tgt = val = None
            if isinstance(st, ast.AnnAssign) and st.value is not None:
                tgt, val = st.target, st.value
            elif isinstance(st, ast.Assign) and len(st.targets) == 1:
                tgt, val = st.targets[0], st.value
            if not (isinstance(tgt, ast.Name) and tgt.id in ret_names
                    and isinstance(val, ast.Call)):
                continue
            conv = _conversion(val, new.params[0])
            if conv is None:
                continue
            call, src, fresh = conv
            if not fresh:
                ctx.ob("D5.3", new, call, False,
                       f"the instance is `{ast.unparse(val)[:90]}`: this "
                       "conversion returns its argument itself whenever no "
                       "type change is needed, so the instance shares its "
                       f"storage with the caller's `{ast.unparse(src)}` "
                       "instead of holding a copy (\"will be copied\"): "
                       "the stored matrix, and with it every tour length, "
                       "changes when the caller re-uses its array while the "
                       "bounds do not", construct="private copy")
                return
            copies.append((node, call, tgt, src, True))
    ctx.need(copies, "np.copyto in Instance.__new__")
    rets = cfg.find(lambda x: x.kind == "stmt" and isinstance(
        x.ast, ast.Return))
    for node, c, dst, src, unsafe in copies:
        if not unsafe:
            ctx.ob("D5.3", new, c, True, "copy is not 'unsafe': numpy "
                   "itself rejects lossy casts", construct="copy verified",
                   nontrivial=False)
            continue
        # the verifying raise: inside two complete loops, guard
        # dst[i,j] != src[i,j]
        ver = None
        for e in gw.exits:
            if e.kind != "raise" or len(e.loops) != 2 or is_opaque(e.cond):
                continue
            lv = [lp.target.id for lp in e.loops
                  if isinstance(lp.target, ast.Name)]
            if len(lv) != 2:
                continue
            i, j = Poly.var(lv[0]), Poly.var(lv[1])
            d = _arr_name(e.env, dst)
            s = _arr_name(e.env, src)
            from sa.symterm import _eq
            want = ("not", _eq(r_cell(d, i, j), r_cell(s, i, j)))
            if _same_cond(e.cond, want) and all(
                    _full_range(ev, gw, lp, n) for lp in e.loops):
                inner_exits = [x for x in gw.exits
                               if e.loops[0] in x.loops
                               and x.kind in ("break", "continue",
                                              "return")]
                if not inner_exits:
                    ver = e
        if ver is None:
            ctx.ob("D5.3", new, c, False,
                   opaque_note(gw.exits, lambda e: len(e.loops) == 2) +
                   "no complete entry-by-entry comparison of the unsafe "
                   "copy with its source was found",
                   construct="copy verified")
            continue
        outer = ver.loops[0]
        head = next(x for x in cfg.nodes if x.ast is outer)
        ok = all(cfg.dominated_by(r, lambda x: x is head) and
                 cfg.dominated_by(head, lambda x: x is node)
                 for r in rets)
        ctx.ob("D5.3", new, c, ok,
               "unsafe copy -> complete verifying double loop -> return on "
               "every path" if ok else "a path reaches the return without "
               "passing the verification loop after the copy",
               construct="copy verified")
    # dtype request
    okd = False
    mult_detail = ""
    dnode: ast.AST = new.node
    for c in ast.walk(new.node):
        if isinstance(c, ast.Call) and isinstance(c.func, ast.Name) and \
                c.func.id == "int_range_to_dtype":
            dnode = c
            kws = {kw.arg: kw.value for kw in c.keywords}
            envd = None
            for e in gw.exits:
                if e.kind == "return":
                    envd = e.env
            if envd is None or "max_value" not in kws:
                continue
            try:
                mx = ev.num(envd, kws["max_value"])
                mn = ev.num(envd, kws["min_value"]) if "min_value" in kws \
                    else Poly.const(0)
            except Unsupported:
                continue
            # max_value = mult * max(upper_bound_term, n) ; min = -max or 0
            facs = [a[2] for a in all_atoms(mx)
                    if a[0] == "app" and a[1] == "max"]
            # `x if y < x else y`: the larger of the two, too
            facs += [(a[2], a[3]) for a in all_atoms(mx)
                     if a[0] == "ite" and a[1][0] in ("lt", "le")
                     and isinstance(a[2], Poly) and isinstance(a[3], Poly)
                     and {a[1][1], a[1][2]} == {a[2], a[3]}
                     and a[1][2] == a[2]]
            has_ub = any(any("maxred" in repr(x.key()) for x in args_)
                         for args_ in facs)
            okd = has_ub and (mn == -mx or mn == Poly.const(0))
            # the multiplier scales the whole max(upper_bound, n): it is a
            # factor of the requested limit outside of the max
            mname = next((p_ for p_ in new.params if "multiplier" in p_),
                         None)
            if okd and mname is not None and isinstance(mx, Poly):
                def mentions(q: Any) -> bool:
                    return mname in repr(q.key() if hasattr(q, "key") else q)
                outside = False
                inside = False
                for mono, _c in mx.terms.items():
                    for a_, _e in mono:
                        is_max = (a_[0] == "app" and a_[1] == "max") or \
                            a_[0] == "ite"
                        if is_max and mentions(Poly.atom(a_)):
                            inside = True
                        elif not is_max and mentions(Poly.atom(a_)):
                            outside = True
                if inside and not outside:
                    okd = False
                    mult_detail = (
                        f"the requested limit is {show(mx)[:120]}: "
                        f"`{mname}` scales only one argument of the max, "
                        "not max(upper_bound, n) as a whole - the storage "
                        "type need not hold multiplier * upper_bound")
    ctx.ob("D5.3", new, dnode, okd,
           "dtype is requested for [-limit, limit] with limit = multiplier * "
           "max(upper_bound, n) and upper_bound >= every entry" if okd else
           (mult_detail or
            "dtype request does not cover the computed upper bound"),
           construct="dtype request")


def _objective(ctx: Ctx) -> None:
    repo = ctx.repo
    cls = repo.cls(TL, "TourLength")
    for meth, attr in (("lower_bound", "tour_length_lower_bound"),
                       ("upper_bound", "tour_length_upper_bound")):
        fi = ctx.need(cls.methods.get(meth), f"TourLength.{meth}")
        rets = [n for n in ast.walk(fi.node) if isinstance(n, ast.Return)]
        rv0 = inline_locals(fi.node, rets[0].value) if len(
            rets) == 1 and rets[0].value is not None else None
        ok = isinstance(rv0, ast.Attribute) \
            and rv0.attr == attr and \
            ast.unparse(rv0.value) == "self.instance"
        ctx.ob("D5.4", fi, rets[0] if rets else fi.node, ok,
               f"returns self.instance.{attr}" if ok else
               f"does not return the instance's {attr}",
               construct=f"{meth} returns attribute", nontrivial=False)
    evm = ctx.need(cls.methods.get("evaluate"), "TourLength.evaluate")
    rets = [n for n in ast.walk(evm.node) if isinstance(n, ast.Return)]
    ok = False
    rv1 = inline_locals(evm.node, rets[0].value) if len(
        rets) == 1 and rets[0].value is not None else None
    if isinstance(rv1, ast.Call):
        c = rv1
        tgt = repo.resolve_expr(evm.module, c.func)
        ok = tgt is repo.func(TL, "tour_length") and len(c.args) == 2 and \
            ast.unparse(c.args[0]) == "self.instance" and isinstance(
            c.args[1], ast.Name) and c.args[1].id == evm.params[1]
    ctx.ob("D5.1", evm, rets[0] if rets else evm.node, ok,
           "evaluate(x) returns tour_length(self.instance, x)" if ok else
           "evaluate does not pass (instance, x) to the kernel",
           construct="evaluate wiring")
