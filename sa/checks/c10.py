"""C10 - controlled-system simulation (decided part)."""
from __future__ import annotations

import ast
from typing import Any

from sa.cfg import CFG
from sa.report import Ctx
from sa.srcmodel import (FuncInfo, fold_consts, func_body,
                         inline_locals)

MOD = "moptipyapps.dynamic_control.ode"


def run(ctx: Ctx) -> None:
    ctx.explanation = (
        "Decided clauses of the simulation contract. run_ode is normalised "
        "(locals bound once to a value that cannot have changed at their "
        "uses are inlined) and then analysed as a boolean program: a "
        "relational fixpoint over partial valuations of its flags, of "
        "order atoms (every spelling of a comparison of two operands is a "
        "formula over the same lt / le atoms) and of the ghosts of a "
        "typestate monitor; each clause is a requirement at an event that "
        "must hold on every valuation reaching it. D10.1 the retry loop "
        "increments its cycle counter exactly once per round before the "
        "exit test and repeats only through its False outcome: at most 5 "
        "integration cycles; D10.2 the multi-row result is returned only if "
        "row 0 and every later row passed _is_ok as a WHOLE row after its "
        "state and control cells were written, never after a failed test; "
        "rows are built only after a finished integration that stayed in "
        "bounds; the row loop visits result[1:]; _is_ok accepts exactly "
        "values strictly inside (-1e10, 1e10) (NaN fails); D10.3 before a "
        "row is tested the controller has been called for it on every path, "
        "as controller(<state of that row>, <time of that row>, parameters, "
        "<control slots of that row>), after the state was put in place; "
        "control cells are never written otherwise; D10.4 the failure row "
        "and the time column linspace(0, max_time, steps); D10.5 j_from_ode "
        "allocates exactly as many cells as the kernel stores (per path of "
        "j_from_ode, in terms of the arguments actually passed); D10.6 the "
        "cells of dest are the documented terms of J: v^2 * (t_i - "
        "t_{i-1}) * gamma for the control columns and v^2 * (t_i - t_{i-1}) "
        "for the first use_state_dims state columns of the PREVIOUS row "
        "(1e100 when |v| >= 1e100), states left out for the first pair "
        "only, written to dest[0], dest[1], ...; J = fsum(dest) / ode[-1, "
        "-1]; a single-row result scores 1e200; the kernel receives (ode, "
        "state_dim, use_state_dims or state_dim when that is <= 0, gamma, "
        "dest); D10.7 a row's state is interpolator(t) only where t_min <= "
        "t <= t_max is known to hold for that interpolator and the row's "
        "own time; the search starts at interpolator 0, moves on only while "
        "the current one does not cover t, advances the index by one per "
        "round, compares it with the list length before using it and is "
        "left when the list is exhausted; D10.8 every cycle resets the "
        "bound tracker and empties the interpolator list before building "
        "the integrator (t0 = 0, y0 = start, t_bound = max_time, over the "
        "tracker's f), each step's interpolator is collected before the "
        "next step unless the step left the bounds, a finished or failed "
        "solver is not stepped again, a running one is, rows are built only "
        "when the status is 'finished'. NOT decided: termination and "
        "accuracy inside scipy's RK45, strict monotonicity of float times, "
        "agreement with analytic solutions, the numeric heuristics by which "
        "a failed cycle shortens the time frame.")
    for rid, txt in (("D10.1", "at most 5 integration cycles"),
                     ("D10.2", "returned rows pass _is_ok"),
                     ("D10.3", "controls come from the controller"),
                     ("D10.4", "failure row / time column"),
                     ("D10.5", "dest sizing == number of stores")):
        ctx.rule(rid, txt)
    for rid, txt in ():
        ctx.rule(rid, txt)
    repo = ctx.repo
    ro = repo.func(MOD, "run_ode")
    _retry(ctx, ro)
    _is_ok_rule(ctx)
    ctx.rule("D10.7", "state of a row comes from an interpolator covering "
             "its time; the search terminates and stays in range")
    ctx.rule("D10.8", "integration cycle protocol")
    from sa.checks import c10_runode
    c10_runode.check(ctx, ro)
    _failure_row(ctx, ro)
    from sa.checks import c10_jkernel
    c10_jkernel.dest(ctx)
    ctx.rule("D10.6", "the cells of dest are the documented terms of J; "
             "J = sum / simulated time")
    c10_jkernel.j_terms(ctx)
    ctx.rule("D10.9", "callers hand the simulation its own settings: a "
             "setting named like a parameter of run_ode / multi_run_ode is "
             "passed as that parameter, and test / training settings are "
             "not mixed in one call")
    _callers(ctx, ro)
    # the model of run_ode follows rows and columns that are addressed on
    # the result matrix or on one row view of it, with the constant column
    # positions 0:n, n:-1 and -1.  A function that addresses them otherwise
    # is outside of what the model recognises: its protocol obligations are
    # then undecided, not refuted.
    why = _unfamiliar(ro)
    if why:
        for o in ctx.obligations:
            if not o.ok and o.function == ro.qualname and \
                    "not recognised" not in (o.detail or ""):
                o.detail = ((o.detail or "") + " - not recognised: " + why)



# ------------------------------------------------------------------ D10.9
def _callers(ctx: Ctx, ro: FuncInfo) -> None:
    """Wiring of the simulation's callers (the time limit and step count a
    run obeys are the ones its caller hands over)."""
    from sa.srcmodel import inline_locals
    repo = ctx.repo
    targets = {ro}
    mro = repo.module(ro.module.name).funcs.get("multi_run_ode")
    if mro is not None:
        targets.add(mro)
    n_calls = 0
    for fi in repo.all_funcs():
        if not fi.module.name.startswith("moptipyapps.dynamic_control"):
            continue
        loops: list[tuple[ast.For, set[int]]] = [
            (lp, {id(x) for x in ast.walk(lp)}) for lp in ast.walk(fi.node)
            if isinstance(lp, ast.For)]
        for c in ast.walk(fi.node):
            if not isinstance(c, ast.Call):
                continue
            callee = repo.resolve_expr(fi.module, c.func)
            if callee not in targets:
                continue
            n_calls += 1
            params = list(callee.params)
            bound: list[tuple[str, ast.expr]] = list(zip(params, c.args))
            bound += [(k.arg, k.value) for k in c.keywords if k.arg]
            problems: list[str] = []

            def leaf(e: ast.expr) -> str | None:
                e = inline_locals(fi.node, e)
                if isinstance(e, ast.Attribute):
                    return e.attr
                if isinstance(e, ast.Name):
                    return e.id
                return None
            kinds: dict[str, str] = {}
            for p_, a in bound:
                nm = leaf(a)
                if nm is None:
                    continue
                if nm != p_ and nm in params:
                    problems.append(
                        f"`{ast.unparse(a)}` is passed as the parameter "
                        f"`{p_}` of {callee.name} although {callee.name} "
                        f"has a parameter `{nm}`")
                for pre in ("test", "training"):
                    if nm.startswith(pre + "_"):
                        kinds[pre] = ast.unparse(a)
            for lp, inside in loops:
                if id(c) in inside:
                    nm = leaf(lp.iter)
                    for pre in ("test", "training"):
                        if nm is not None and nm.startswith(pre + "_"):
                            kinds.setdefault(pre, ast.unparse(lp.iter))
            if callee is ro and len(kinds) > 1:
                problems.append(
                    "one simulation is given test and training settings at "
                    f"once: {sorted(kinds.values())}")
            ctx.ob("D10.9", fi, c, not problems,
                   f"{fi.qualname}: {callee.name}(...) receives every "
                   "setting under the parameter of its name"
                   if not problems else f"{fi.qualname}: "
                   + "; ".join(problems),
                   construct=f"{callee.name} call in {fi.qualname}")
    # the refactored form: one loop over (states, steps, time) tuples
    if mro is not None:
        for lp in ast.walk(mro.node):
            if isinstance(lp, ast.For) and isinstance(
                    lp.iter, (ast.Tuple, ast.List)):
                for el in lp.iter.elts:
                    if not isinstance(el, (ast.Tuple, ast.List)):
                        continue
                    pre = set()
                    for x in el.elts:
                        nm = x.id if isinstance(x, ast.Name) else (
                            x.attr if isinstance(x, ast.Attribute) else "")
                        for q in ("test", "training"):
                            if nm.startswith(q + "_"):
                                pre.add(q)
                    if len(pre) > 1:
                        ctx.ob("D10.9", mro, el, False,
                               f"`{ast.unparse(el)}` groups test and "
                               "training settings for one kind of run",
                               construct="settings grouped per run kind")
    # ---- a setting the caller holds is not left to the callee's default
    odem = repo.module(ro.module.name)
    helpers = [odem.funcs.get(nm) for nm in (
        "run_ode", "multi_run_ode", "j_from_ode", "diff_from_ode",
        "t_from_ode")]
    helpers = [h for h in helpers if h is not None]
    n_def = 0
    from sa.srcmodel import bound_args
    for fi in repo.all_funcs():
        if not fi.module.name.startswith("moptipyapps.dynamic_control"):
            continue
        held = set(fi.params)
        for st in ast.walk(fi.node):
            if isinstance(st, ast.Name) and isinstance(st.ctx, ast.Store):
                held.add(st.id)
        fields: set[str] = set()
        if fi.cls is not None:
            init = repo.lookup_method(fi.cls, "__init__")
            for st in ast.walk(init.node) if init else []:
                if isinstance(st, ast.Attribute) and isinstance(
                        st.ctx, ast.Store) and isinstance(
                        st.value, ast.Name) and st.value.id == "self":
                    fields.add(st.attr.lstrip("_").split("__")[-1])
        for c in ast.walk(fi.node):
            if not isinstance(c, ast.Call):
                continue
            callee = repo.resolve_expr(fi.module, c.func)
            if callee not in helpers or callee is fi:
                continue
            a_ = callee.node.args
            n_pos = len(a_.posonlyargs) + len(a_.args)
            defaulted = [x.arg for x in (a_.posonlyargs + a_.args)[
                n_pos - len(a_.defaults):]]
            got = bound_args(c, list(callee.params))
            for p_ in defaulted:
                if p_ in got:
                    continue
                n_def += 1
                has = p_ in held or p_ in fields
                ctx.ob("D10.9", fi, c, not has,
                       f"{fi.qualname}: {callee.name}(...) leaves `{p_}` "
                       "to its default; the caller holds no setting of "
                       "that name" if not has else
                       f"{fi.qualname} holds a setting `{p_}` but calls "
                       f"{callee.name}(...) without it: the run uses the "
                       f"default {p_} of {callee.name}, not the caller's",
                       construct=f"{callee.name} default {p_} in "
                                 f"{fi.qualname}", nontrivial=False)
    ctx.count("defaulted_settings", n_def)
    # ---- the System constructor keeps each setting under its own name
    sysm = repo.modules.get("moptipyapps.dynamic_control.system")
    scls = sysm.classes.get("System") if sysm else None
    sinit = scls.methods.get("__init__") if scls else None
    n_fld = 0
    if sinit is not None:
        sparams = set(sinit.params[1:])

        def value_names(e: ast.expr) -> set[str]:
            """Names whose VALUE can become the value of e (tests of
            conditional expressions and validation labels do not count)."""
            if isinstance(e, ast.IfExp):
                return value_names(e.body) | value_names(e.orelse)
            if isinstance(e, ast.Call) and e.args and ast.unparse(
                    e.func).split(".")[-1].startswith("check_"):
                return value_names(e.args[0])
            return {x.id for x in ast.walk(e) if isinstance(x, ast.Name)}
        for st in ast.walk(sinit.node):
            if not isinstance(st, (ast.Assign, ast.AnnAssign)) or getattr(
                    st, "value", None) is None:
                continue
            tg = st.targets[0] if isinstance(st, ast.Assign) else st.target
            if not (isinstance(tg, ast.Attribute) and isinstance(
                    tg.value, ast.Name) and tg.value.id == "self"
                    and tg.attr in sparams):
                continue
            v = inline_locals(sinit.node, st.value)
            vn = value_names(v) & sparams
            if not vn:
                continue
            n_fld += 1
            ok = tg.attr in vn
            ctx.ob("D10.9", sinit, st, ok,
                   f"System.{tg.attr} stores the constructor argument of "
                   "that name" if ok else
                   f"System.{tg.attr} can only take the values of "
                   f"{sorted(vn)}, never of the argument `{tg.attr}` "
                   "itself: simulations and J use another setting than the "
                   "one the system was created with",
                   construct=f"System field {tg.attr}", nontrivial=False)
    ctx.count("system_fields", n_fld)
    ctx.count("simulation_call_sites", n_calls)
    ctx.ob("D10.9", ro, ro.node, n_calls >= 3,
           f"{n_calls} call sites of run_ode / multi_run_ode inspected "
           "(4 on the reference tree, at least 3 expected: the objective, "
           "the system description and the multi-run loop)",
           construct="call sites found",
           nontrivial=False)


# ------------------------------------------------------------------ D10.1
def _retry(ctx: Ctx, ro: FuncInfo) -> None:
    cfg = CFG(ro.node)
    outer = next((s for s in func_body(ro) if isinstance(s, ast.While)),
                 None)
    ctx.need(outer is not None, "run_ode: retry loop")
    head = next(n for n in cfg.nodes if n.ast is outer and n.kind == "join")
    # the counter: a name initialised to a constant before the loop and
    # compared with a constant in a test that can leave the loop
    repo = ctx.repo

    def exceeds(e: ast.AST) -> tuple[str, int] | None:
        """`name > k` in any spelling -> (name, k): True iff name > k."""
        if not (isinstance(e, ast.Compare) and len(e.ops) == 1):
            return None
        l_, r_, op = e.left, e.comparators[0], e.ops[0]
        if isinstance(l_, ast.Name) and isinstance(
                repo.const(ro.module, r_), int):
            k_ = repo.const(ro.module, r_)
            if isinstance(op, ast.Gt):
                return l_.id, k_
            if isinstance(op, ast.GtE):
                return l_.id, k_ - 1
        if isinstance(r_, ast.Name) and isinstance(
                repo.const(ro.module, l_), int):
            k_ = repo.const(ro.module, l_)
            if isinstance(op, ast.Lt):
                return r_.id, k_
            if isinstance(op, ast.LtE):
                return r_.id, k_ - 1
        return None

    def plus_one(n: Any, nm: str) -> bool:
        a_ = n.ast
        if isinstance(a_, ast.AugAssign):
            return isinstance(a_.target, ast.Name) and a_.target.id == nm \
                and isinstance(a_.op, ast.Add) and repo.const(
                    ro.module, a_.value) == 1
        if isinstance(a_, ast.Assign) and len(a_.targets) == 1 and \
                isinstance(a_.targets[0], ast.Name) and \
                a_.targets[0].id == nm and isinstance(
                a_.value, ast.BinOp) and isinstance(a_.value.op, ast.Add):
            l_, r_ = a_.value.left, a_.value.right
            return (isinstance(l_, ast.Name) and l_.id == nm and repo.const(
                ro.module, r_) == 1) or (isinstance(
                    r_, ast.Name) and r_.id == nm and repo.const(
                    ro.module, l_) == 1)
        return False
    tests = [n for n in cfg.nodes if n.kind == "test"
             and exceeds(n.ast) is not None]
    cand = None
    for t in tests:
        nm, k = exceeds(t.ast)
        writes = [n for n in cfg.nodes if n.kind == "stmt" and isinstance(
            n.ast, (ast.Assign, ast.AnnAssign, ast.AugAssign)) and any(
            isinstance(x, ast.Name) and x.id == nm for x in (
                n.ast.targets if isinstance(n.ast, ast.Assign)
                else [n.ast.target]))]
        incs = [n for n in writes if plus_one(n, nm)]
        others = [n for n in writes if n not in incs]
        if len(incs) == 1 and len(others) == 1 and isinstance(
                repo.const(ro.module, others[0].ast.value), int):
            cand = (t, nm, incs[0], others[0], k)
    if cand is None:
        ctx.ob("D10.1", ro, outer, False,
               "no cycle counter with a constant exit test found",
               construct="retry bound")
        return
    t, nm, inc, init, k = cand
    i0 = ctx.repo.const(ro.module, init.ast.value)
    step_ok = True
    # the increment sits on every path head -> exit test (counted before
    # the test) or on every path from the test's False outcome back to the
    # head (counted after it)
    before = not cfg.can_reach_avoiding(head, t, lambda n: n is inc)
    back = [p for p, _ in head.pred if head in cfg.reachable(head)
            and p in cfg.reachable(head)]
    false_succ = [m for m, lb in t.succ if lb is False]
    after = bool(false_succ) and all(
        not cfg.can_reach_avoiding(m, head, lambda n: n is inc)
        or m is inc for m in false_succ) and \
        not cfg.can_reach_avoiding(head, inc, lambda n: n is t)
    a_ok = before or after
    # (b) every path head -> head (next round) passes the test ...
    b_ok = bool(back) and all(
        not cfg.can_reach_avoiding(head, p, lambda n: n is t)
        or p is t for p in back)
    # ... and only through its False outcome
    true_succ = [m for m, lb in t.succ if lb is True]
    c_ok = all(not any(cfg.can_reach_avoiding(m, p, lambda n: n is head)
                       for p in back) for m in true_succ)
    # rounds: the r-th test sees i0 + r (counted before) or i0 + r - 1
    # (counted after); the loop is left as soon as that exceeds k
    bound = None
    if isinstance(k, int) and isinstance(i0, int):
        bound = (k - i0 + 1) if before else ((k - i0 + 2) if after else None)
    ok = step_ok and a_ok and b_ok and c_ok and bound is not None and \
        bound <= 5
    ctx.ob("D10.1", ro, t.ast, ok,
           f"`{nm}` starts at {i0}, is incremented by 1 exactly once per "
           f"round {'before' if before else 'after'} "
           f"`{ast.unparse(t.ast)}`, and a new round starts "
           f"only when that test is False: at most {bound} integration "
           "cycles" if ok else
           f"the number of integration cycles is not bounded by 5: "
           f"step_ok={step_ok}, increment-once-per-round={a_ok}, "
           f"repeat-only-through-test={b_ok and c_ok}, bound={bound}",
           construct="retry bound")


# ------------------------------------------------------------------ D10.2
def _is_ok_rule(ctx: Ctx) -> None:
    """_is_ok(x) is True iff every value lies strictly inside (-1e10,
    1e10); NaN fails.  Decided on the paths through one round of the loop
    over the values (locals inlined): the outcome for sample values at,
    next to and between the limits and for NaN (all of whose comparisons
    are False) must be `return False` exactly outside the open interval."""
    from sa.checks.c20 import _truth
    from sa.pathinline import paths
    repo = ctx.repo
    from sa.srcmodel import elementwise
    fi = elementwise(repo.func(MOD, "_is_ok"))
    body = func_body(fi)
    loop = next((s for s in body if isinstance(s, ast.For)), None)
    ok = False
    why = "no loop over the values of the vector"
    if loop is not None and isinstance(loop.target, ast.Name) and \
            ast.unparse(loop.iter) == fi.params[0] and not loop.orelse:
        v = loop.target.id
        why = ""
        try:
            ps = paths(list(loop.body))
        except ValueError:
            ps = []
            why = "loop body not understood"
        big = 1e10
        samples = [(-2 * big, False), (-big, False),
                   (-big * (1 - 1e-12), True), (0.0, True), (1.5, True),
                   (big * (1 - 1e-12), True), (big, False), (2 * big, False),
                   (float("nan"), False), (float("inf"), False),
                   (float("-inf"), False)]
        for val, want in samples:
            taken = []
            for p_ in ps:
                tv = [(_truth(fold_consts(repo, fi.module, inline_locals(
                    fi.node, t)), v, val), truth)
                    for t, truth in p_.guards]
                if any(x is None for x, _ in tv):
                    why = why or "a test on the value is not understood"
                    taken = None
                    break
                if all(x == truth for x, truth in tv):
                    taken.append(p_)
            if taken is None:
                break
            if len(taken) != 1:
                why = why or "the tests on a value are not exhaustive"
                break
            p_ = taken[0]
            rejects = p_.ended == "return" and any(
                e.kind == "return" and e.value is not None and repo.const(
                    fi.module, e.value) is False for e in p_.events)
            passes = p_.ended in (None, "continue") and not any(
                e.kind in ("return", "raise") for e in p_.events)
            if want and not passes:
                why = why or f"the value {val!r} is rejected"
                break
            if not want and not rejects:
                why = why or f"the value {val!r} is accepted"
                break
        last = body[-1]
        if not why and not (isinstance(last, ast.Return) and repo.const(
                fi.module, last.value) is True and body.index(
                loop) == len(body) - 2):
            why = "a vector of acceptable values is not reported as ok"
        ok = not why
    ctx.ob("D10.2", fi, fi.node, ok,
           "_is_ok(x) is True iff every value satisfies -1e10 < v < 1e10 "
           "(NaN and +-inf fail; decided on sample values at and around the "
           "limits)" if ok else
           f"_is_ok does not test -1e10 < v < 1e10 for every value: {why}",
           construct="_is_ok definition")


# ------------------------------------------------------------------ D10.4
def _failure_row(ctx: Ctx, ro: FuncInfo) -> None:
    """After the retry loop: one row (start state, controls 1e100, time 0).

    The statements behind the loop are expanded with all locals inlined and
    the stores are compared as (row, column range) -> value, whatever views
    or temporaries are used to write them."""
    from sa.kern import make_evaluator, py_calls
    from sa.pathinline import paths
    from sa.symterm import Env, Poly, Unsupported
    body = func_body(ro)
    start_nm = ro.params[0]
    cd_nm = ro.params[4]
    ev = make_evaluator(ctx.repo, ro, extra_call=py_calls)
    env = Env()
    n_ = Poly.atom(("app", "len", (Poly.var(start_nm),)))
    cd_ = Poly.var(cd_nm)
    outer = next((s_ for s_ in body if isinstance(s_, ast.While)), None)
    tail = body[body.index(outer) + 1:] if outer is not None else body[-5:]
    pre = paths(body[:body.index(outer)]) if outer is not None else []
    from sa.pathinline import Path
    start = Path(env=dict(pre[0].env)) if len(pre) == 1 else Path()
    assigned = {n.id for n in ast.walk(outer) if isinstance(n, ast.Name)
                and isinstance(n.ctx, ast.Store)} if outer is not None \
        else set()
    for k_ in list(start.env):
        if k_ in assigned:
            del start.env[k_]
    ps = paths(tail, start)
    ok = False
    src: list[str] = []
    res = "result"
    if len(ps) == 1:
        q = ps[0]
        ret = next((e for e in q.events if e.kind == "return"), None)
        res = ret.value.id if ret is not None and isinstance(
            ret.value, ast.Name) else "?"
        alloc = q.objs.get(res)

        def num(e: ast.expr | None, default: Poly) -> Poly | None:
            if e is None:
                return default
            try:
                return ev.num(env, e)
            except Unsupported:
                return None

        def where(t: ast.expr) -> tuple | None:
            """res[0, a:b] / res[0][a:b] / res[0, k] -> (lo, hi|None)."""
            parts: list[ast.expr] = []
            cur = t
            while isinstance(cur, ast.Subscript):
                sl = cur.slice
                parts = (list(sl.elts) if isinstance(sl, ast.Tuple)
                         else [sl]) + parts
                cur = cur.value
            if not (isinstance(cur, ast.Name) and cur.id == res) or len(
                    parts) != 2 or ctx.repo.const(
                    ro.module, parts[0]) != 0:
                return None
            c = parts[1]
            if isinstance(c, ast.Slice):
                if c.step is not None:
                    return None
                return ("slice", num(c.lower, Poly.const(0)),
                        num(c.upper, Poly.var("END")))
            return ("cell", num(c, Poly.const(0)), None)
        stores = {}
        for e in q.events:
            if e.kind == "store":
                w = where(e.value)
                src.append(ast.unparse(e.node).replace(" ", ""))
                if w is None:
                    stores["?"] = None
                else:
                    stores[w] = e.extra
        shape_ok = isinstance(alloc, ast.Call) and ast.unparse(
            alloc.func) == "np.zeros" and len(alloc.args) == 1 and \
            isinstance(alloc.args[0], ast.Tuple) and len(
            alloc.args[0].elts) == 2 and ctx.repo.const(
            ro.module, alloc.args[0].elts[0]) == 1 and num(
            alloc.args[0].elts[1], Poly.const(0)) == n_ + cd_ + \
            Poly.const(1)
        m1 = Poly.const(-1)
        want = {("slice", Poly.const(0), n_): start_nm,
                ("slice", n_, m1): 1e100, ("cell", m1, None): 0.0}
        vals_ok = set(stores) == set(want)
        if vals_ok:
            for k_, w_ in want.items():
                v = stores[k_]
                if isinstance(w_, str):
                    vals_ok = vals_ok and isinstance(
                        v, ast.Name) and v.id == w_
                else:
                    vals_ok = vals_ok and ctx.repo.const(
                        ro.module, v) == w_
        ok = shape_ok and vals_ok and not [
            e for e in q.events if e.kind in ("loop", "other", "expr")]
    ctx.ob("D10.4", ro, tail[0] if tail else ro.node, ok,
           "failure result: one row (start state, controls 1e100, time 0)"
           if ok else f"failure row is built as {src}",
           construct="failure row")
    # ---- the multi-row result: np.zeros((steps, n + controller_dim + 1))
    # with the time column linspace(0, max_time, steps) - by value
    steps_nm, mt_nm = ro.params[5], ro.params[6]
    want_w = n_ + cd_ + Poly.const(1)
    allocs = []
    for s_ in ast.walk(ro.node):
        if isinstance(s_, (ast.Assign, ast.AnnAssign)) and isinstance(
                getattr(s_, "value", None), ast.Call) and ast.unparse(
                s_.value.func) == "np.zeros" and len(
                s_.value.args) == 1 and isinstance(
                s_.value.args[0], ast.Tuple) and len(
                s_.value.args[0].elts) == 2:
            r_, c_ = s_.value.args[0].elts
            tg = s_.targets[0] if isinstance(s_, ast.Assign) else s_.target
            try:
                wv = ev.num(env, ast.parse(ast.unparse(inline_locals(
                    ro.node, c_)), mode="eval").body)
            except Unsupported:
                continue
            if isinstance(tg, ast.Name) and isinstance(
                    r_, ast.Name) and r_.id == steps_nm and wv == want_w:
                allocs.append(tg.id)
    lin = [s for s in ast.walk(ro.node) if isinstance(s, ast.Assign)
           and len(allocs) == 1
           and ast.unparse(s.targets[0]).replace(" ", "") ==
           f"{allocs[0]}[:,-1]"]
    ok_l = len(lin) == 1 and isinstance(
        lin[0].value, ast.Call) and ast.unparse(
        lin[0].value.func) == "np.linspace" and len(
        lin[0].value.args) == 3 and not lin[0].value.keywords and \
        ctx.repo.const(ro.module, lin[0].value.args[0]) == 0 and \
        ast.unparse(lin[0].value.args[1]) == mt_nm and ast.unparse(
            lin[0].value.args[2]) == steps_nm
    ctx.ob("D10.4", ro, lin[0] if lin else ro.node,
           bool(ok_l and len(allocs) == 1),
           "a successful result has `steps` rows of n + controller_dim + 1 "
           "cells, the last column being linspace(0, max_time, steps)",
           construct="time column and shape")



def _unfamiliar(ro: FuncInfo) -> str:
    """Why the row / column addressing of run_ode is outside the model."""
    binds: dict[str, list[ast.expr]] = {}
    for st in ast.walk(ro.node):
        if isinstance(st, (ast.Assign, ast.AnnAssign)) and getattr(
                st, "value", None) is not None:
            for tg in (st.targets if isinstance(st, ast.Assign)
                       else [st.target]):
                if isinstance(tg, ast.Name):
                    binds.setdefault(tg.id, []).append(st.value)
    views = {k for k, vs in binds.items()
             if any(isinstance(v, ast.Subscript) for v in vs)}
    for k, vs in binds.items():
        for v in vs:
            if isinstance(v, ast.Subscript) and isinstance(
                    v.value, ast.Name) and v.value.id in views and \
                    isinstance(v.slice, ast.Slice):
                return (f"`{k} = {ast.unparse(v)}` is a view of the view "
                        f"`{v.value.id}`")
    for sb in ast.walk(ro.node):
        if isinstance(sb, ast.Subscript) and isinstance(
                sb.value, ast.Name) and sb.value.id in views:
            idx = sb.slice.elts[-1] if isinstance(
                sb.slice, ast.Tuple) else sb.slice
            if isinstance(idx, ast.Name) and idx.id in binds and any(
                    isinstance(b, ast.BinOp) for b in binds[idx.id]):
                return (f"`{ast.unparse(sb)}` addresses a column through "
                        f"the computed index `{idx.id}`")
    for lp in ast.walk(ro.node):
        if isinstance(lp, ast.For) and isinstance(
                lp.iter, ast.Call) and ast.unparse(
                lp.iter.func) == "range" and any(
                isinstance(b, ast.Assign) and isinstance(
                    b.value, ast.Subscript) and isinstance(
                    b.value.slice, ast.Name) and isinstance(
                    lp.target, ast.Name)
                and b.value.slice.id == lp.target.id for b in lp.body):
            return "the rows are visited through an index loop"
    return ""
