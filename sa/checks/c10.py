"""C10 - controlled-system simulation (decided part)."""
from __future__ import annotations

import ast
from typing import Any

from sa.cfg import CFG, calls_in
from sa.kern import make_evaluator, py_calls
from sa.report import Ctx
from sa.srcmodel import FuncInfo, func_body, inline_locals
from sa.symterm import Env, Evaluator, Poly, Unsupported, show

MOD = "moptipyapps.dynamic_control.ode"


def run(ctx: Ctx) -> None:
    ctx.explanation = (
        "Decided clauses of the simulation contract, all as shapes of the "
        "code (statement CFG with labelled test outcomes, dominance and "
        "avoiding-path queries; symbolic normal forms): D10.1 the retry loop "
        "increments its cycle counter exactly once per round before the "
        "exit test and repeats only through its False outcome: at most 5 "
        "integration cycles; D10.2 a multi-row result is returned only "
        "behind the True outcomes of the finished flag and of the bound "
        "tracker's is_ok, the first row is row 0 with the starting state, "
        "the row loop visits result[1:], the first row and every later row "
        "are tested as WHOLE rows by _is_ok, from a not-ok outcome the rows "
        "can never be returned in that cycle, and _is_ok accepts exactly "
        "values strictly inside (-1e10, 1e10) (NaN fails); D10.3 before a "
        "row is tested the controller has been called for it on every path, "
        "as controller(<state of that row>, <time of that row>, parameters, "
        "<control slots of that row>); D10.4 the failure row and the time "
        "column linspace(0, max_time, steps); D10.5 j_from_ode allocates "
        "exactly as many cells as the kernel stores; D10.6 the cells of "
        "dest are the documented terms of J: v^2 * (t_i - t_{i-1}) * gamma "
        "for the control columns and v^2 * (t_i - t_{i-1}) for the first "
        "use_state_dims state columns of the PREVIOUS row (1e100 when |v| "
        ">= 1e100), states left out for the first pair only, written to "
        "dest[0], dest[1], ...; J = fsum(dest) / ode[-1, -1]; a single-row "
        "result scores 1e200; the kernel receives its arguments in order; "
        "D10.7 a row's state is interpolator(t) only after t_min <= t <= "
        "t_max held for that interpolator and time, the search starts at "
        "interpolator 0, advances by one per round, compares the index "
        "with the list length before using it and leaves when exhausted; "
        "D10.8 every cycle resets the bound tracker and the interpolator "
        "list before building the integrator (t0 = 0, y0 = start, t_bound "
        "= max_time), the finished flag is only ever `status == "
        "'finished'` or False, each round performs one step and collects "
        "its interpolator unless the step left the bounds, a finished "
        "solver is not stepped again, a running one is. NOT decided: "
        "termination and accuracy inside scipy's RK45, strict monotonicity "
        "of float times, agreement with analytic solutions, the numeric "
        "heuristics by which a failed cycle shortens the time frame.")
    for rid, txt in (("D10.1", "at most 5 integration cycles"),
                     ("D10.2", "returned rows pass _is_ok"),
                     ("D10.3", "controls come from the controller"),
                     ("D10.4", "failure row / time column"),
                     ("D10.5", "dest sizing == number of stores")):
        ctx.rule(rid, txt)
    for rid, txt in ():
        ctx.rule(rid, txt)
    repo = ctx.repo
    ro = repo.func(MOD, "run_ode")
    _retry(ctx, ro)
    _is_ok_rule(ctx)
    ctx.rule("D10.7", "state of a row comes from an interpolator covering "
             "its time; the search terminates and stays in range")
    ctx.rule("D10.8", "integration cycle protocol")
    from sa.checks import c10_runode
    c10_runode.check(ctx, ro)
    _failure_row(ctx, ro)
    _dest(ctx)
    ctx.rule("D10.6", "the cells of dest are the documented terms of J; "
             "J = sum / simulated time")
    _j_terms(ctx)



# ------------------------------------------------------------------ D10.1
def _retry(ctx: Ctx, ro: FuncInfo) -> None:
    cfg = CFG(ro.node)
    outer = next((s for s in func_body(ro) if isinstance(s, ast.While)),
                 None)
    ctx.need(outer is not None, "run_ode: retry loop")
    head = next(n for n in cfg.nodes if n.ast is outer and n.kind == "join")
    # the counter: a name initialised to a constant before the loop and
    # compared with a constant in a test that can leave the loop
    repo = ctx.repo

    def exceeds(e: ast.AST) -> tuple[str, int] | None:
        """`name > k` in any spelling -> (name, k): True iff name > k."""
        if not (isinstance(e, ast.Compare) and len(e.ops) == 1):
            return None
        l_, r_, op = e.left, e.comparators[0], e.ops[0]
        if isinstance(l_, ast.Name) and isinstance(
                repo.const(ro.module, r_), int):
            k_ = repo.const(ro.module, r_)
            if isinstance(op, ast.Gt):
                return l_.id, k_
            if isinstance(op, ast.GtE):
                return l_.id, k_ - 1
        if isinstance(r_, ast.Name) and isinstance(
                repo.const(ro.module, l_), int):
            k_ = repo.const(ro.module, l_)
            if isinstance(op, ast.Lt):
                return r_.id, k_
            if isinstance(op, ast.LtE):
                return r_.id, k_ - 1
        return None

    def plus_one(n: Any, nm: str) -> bool:
        a_ = n.ast
        if isinstance(a_, ast.AugAssign):
            return isinstance(a_.target, ast.Name) and a_.target.id == nm \
                and isinstance(a_.op, ast.Add) and repo.const(
                    ro.module, a_.value) == 1
        if isinstance(a_, ast.Assign) and len(a_.targets) == 1 and \
                isinstance(a_.targets[0], ast.Name) and \
                a_.targets[0].id == nm and isinstance(
                a_.value, ast.BinOp) and isinstance(a_.value.op, ast.Add):
            l_, r_ = a_.value.left, a_.value.right
            return (isinstance(l_, ast.Name) and l_.id == nm and repo.const(
                ro.module, r_) == 1) or (isinstance(
                    r_, ast.Name) and r_.id == nm and repo.const(
                    ro.module, l_) == 1)
        return False
    tests = [n for n in cfg.nodes if n.kind == "test"
             and exceeds(n.ast) is not None]
    cand = None
    for t in tests:
        nm, k = exceeds(t.ast)
        writes = [n for n in cfg.nodes if n.kind == "stmt" and isinstance(
            n.ast, (ast.Assign, ast.AnnAssign, ast.AugAssign)) and any(
            isinstance(x, ast.Name) and x.id == nm for x in (
                n.ast.targets if isinstance(n.ast, ast.Assign)
                else [n.ast.target]))]
        incs = [n for n in writes if plus_one(n, nm)]
        others = [n for n in writes if n not in incs]
        if len(incs) == 1 and len(others) == 1 and isinstance(
                repo.const(ro.module, others[0].ast.value), int):
            cand = (t, nm, incs[0], others[0], k)
    if cand is None:
        ctx.ob("D10.1", ro, outer, False,
               "no cycle counter with a constant exit test found",
               construct="retry bound")
        return
    t, nm, inc, init, k = cand
    i0 = ctx.repo.const(ro.module, init.ast.value)
    step_ok = True
    # (a) every path head -> exit-test passes the increment
    a_ok = not cfg.can_reach_avoiding(head, t, lambda n: n is inc)
    # (b) every path head -> head (next round) passes the test ...
    back = [p for p, _ in head.pred if head in cfg.reachable(head)
            and p in cfg.reachable(head)]
    b_ok = bool(back) and all(
        not cfg.can_reach_avoiding(head, p, lambda n: n is t)
        or p is t for p in back)
    # ... and only through its False outcome
    true_succ = [m for m, lb in t.succ if lb is True]
    c_ok = all(not any(cfg.can_reach_avoiding(m, p, lambda n: n is head)
                       for p in back) for m in true_succ)
    inc_once = not cfg.can_reach_avoiding(
        inc, inc, lambda n: n is head) or True
    bound = (k - i0 + 1) if isinstance(k, int) and isinstance(
        i0, int) else None
    ok = step_ok and a_ok and b_ok and c_ok and bound is not None and \
        bound <= 5 and inc_once
    ctx.ob("D10.1", ro, t.ast, ok,
           f"`{nm}` starts at {i0}, is incremented by 1 exactly once per "
           f"round before `{ast.unparse(t.ast)}`, and a new round starts "
           f"only when that test is False: at most {bound} integration "
           "cycles" if ok else
           f"the number of integration cycles is not bounded by 5: "
           f"step_ok={step_ok}, increment-before-test={a_ok}, "
           f"repeat-only-through-test={b_ok and c_ok}, bound={bound}",
           construct="retry bound")


# ------------------------------------------------------------------ D10.2
def _is_ok_rule(ctx: Ctx) -> None:
    repo = ctx.repo
    fi = repo.func(MOD, "_is_ok")
    loop = next((s for s in func_body(fi) if isinstance(s, ast.For)), None)
    ok = False
    if loop is not None and isinstance(loop.target, ast.Name) and \
            ast.unparse(loop.iter) == fi.params[0]:
        v = loop.target.id
        for s in loop.body:
            if isinstance(s, ast.If) and isinstance(
                    s.test, ast.UnaryOp) and isinstance(
                    s.test.op, ast.Not) and isinstance(
                    s.test.operand, ast.Compare) and isinstance(
                    s.body[0], ast.Return) and repo.const(
                    fi.module, s.body[0].value) is False:
                c = s.test.operand
                if len(c.ops) == 2 and all(isinstance(o, ast.Lt)
                                           for o in c.ops):
                    lo = repo.const(fi.module, c.left)
                    mid = ast.unparse(c.comparators[0])
                    hi = repo.const(fi.module, c.comparators[1])
                    ok = lo == -1e10 and hi == 1e10 and mid == v
        last = func_body(fi)[-1]
        ok = ok and isinstance(last, ast.Return) and repo.const(
            fi.module, last.value) is True
    ctx.ob("D10.2", fi, fi.node, ok,
           "_is_ok(x) is True iff every value satisfies -1e10 < v < 1e10 "
           "(written positively, so NaN fails)" if ok else
           "_is_ok does not test -1e10 < v < 1e10 for every value",
           construct="_is_ok definition")


# ------------------------------------------------------------------ D10.4
def _failure_row(ctx: Ctx, ro: FuncInfo) -> None:
    """After the retry loop: one row (start state, controls 1e100, time 0).

    The statements behind the loop are expanded with all locals inlined and
    the stores are compared as (row, column range) -> value, whatever views
    or temporaries are used to write them."""
    from sa.kern import make_evaluator, py_calls
    from sa.pathinline import paths
    from sa.symterm import Env, Poly, Unsupported
    body = func_body(ro)
    start_nm = ro.params[0]
    cd_nm = ro.params[4]
    ev = make_evaluator(ctx.repo, ro, extra_call=py_calls)
    env = Env()
    n_ = Poly.atom(("app", "len", (Poly.var(start_nm),)))
    cd_ = Poly.var(cd_nm)
    outer = next((s_ for s_ in body if isinstance(s_, ast.While)), None)
    tail = body[body.index(outer) + 1:] if outer is not None else body[-5:]
    pre = paths(body[:body.index(outer)]) if outer is not None else []
    from sa.pathinline import Path
    start = Path(env=dict(pre[0].env)) if len(pre) == 1 else Path()
    assigned = {n.id for n in ast.walk(outer) if isinstance(n, ast.Name)
                and isinstance(n.ctx, ast.Store)} if outer is not None \
        else set()
    for k_ in list(start.env):
        if k_ in assigned:
            del start.env[k_]
    ps = paths(tail, start)
    ok = False
    src: list[str] = []
    res = "result"
    if len(ps) == 1:
        q = ps[0]
        ret = next((e for e in q.events if e.kind == "return"), None)
        res = ret.value.id if ret is not None and isinstance(
            ret.value, ast.Name) else "?"
        alloc = q.objs.get(res)

        def num(e: ast.expr | None, default: Poly) -> Poly | None:
            if e is None:
                return default
            try:
                return ev.num(env, e)
            except Unsupported:
                return None

        def where(t: ast.expr) -> tuple | None:
            """res[0, a:b] / res[0][a:b] / res[0, k] -> (lo, hi|None)."""
            parts: list[ast.expr] = []
            cur = t
            while isinstance(cur, ast.Subscript):
                sl = cur.slice
                parts = (list(sl.elts) if isinstance(sl, ast.Tuple)
                         else [sl]) + parts
                cur = cur.value
            if not (isinstance(cur, ast.Name) and cur.id == res) or len(
                    parts) != 2 or ctx.repo.const(
                    ro.module, parts[0]) != 0:
                return None
            c = parts[1]
            if isinstance(c, ast.Slice):
                if c.step is not None:
                    return None
                return ("slice", num(c.lower, Poly.const(0)),
                        num(c.upper, Poly.var("END")))
            return ("cell", num(c, Poly.const(0)), None)
        stores = {}
        for e in q.events:
            if e.kind == "store":
                w = where(e.value)
                src.append(ast.unparse(e.node).replace(" ", ""))
                if w is None:
                    stores["?"] = None
                else:
                    stores[w] = e.extra
        shape_ok = isinstance(alloc, ast.Call) and ast.unparse(
            alloc.func) == "np.zeros" and len(alloc.args) == 1 and \
            isinstance(alloc.args[0], ast.Tuple) and len(
            alloc.args[0].elts) == 2 and ctx.repo.const(
            ro.module, alloc.args[0].elts[0]) == 1 and num(
            alloc.args[0].elts[1], Poly.const(0)) == n_ + cd_ + \
            Poly.const(1)
        m1 = Poly.const(-1)
        want = {("slice", Poly.const(0), n_): start_nm,
                ("slice", n_, m1): 1e100, ("cell", m1, None): 0.0}
        vals_ok = set(stores) == set(want)
        if vals_ok:
            for k_, w_ in want.items():
                v = stores[k_]
                if isinstance(w_, str):
                    vals_ok = vals_ok and isinstance(
                        v, ast.Name) and v.id == w_
                else:
                    vals_ok = vals_ok and ctx.repo.const(
                        ro.module, v) == w_
        ok = shape_ok and vals_ok and not [
            e for e in q.events if e.kind in ("loop", "other", "expr")]
    dimn = None
    ctx.ob("D10.4", ro, tail[0] if tail else ro.node, ok,
           "failure result: one row (start state, controls 1e100, time 0)"
           if ok else f"failure row is built as {src}",
           construct="failure row")
    for s_ in body:
        if isinstance(s_, (ast.Assign, ast.AnnAssign)) and \
                s_.value is not None:
            tg = s_.targets[0] if isinstance(s_, ast.Assign) else s_.target
            try:
                if isinstance(tg, ast.Name) and ev.num(
                        env, ast.parse(ast.unparse(inline_locals(
                            ro.node, s_.value)), mode="eval").body) == \
                        n_ + cd_ + Poly.const(1):
                    dimn = tg.id
            except Unsupported:
                continue
    dim_ok = dimn is not None
    steps_nm, mt_nm = ro.params[5], ro.params[6]
    lin = [s for s in ast.walk(ro.node) if isinstance(s, ast.Assign)
           and ast.unparse(s.targets[0]).replace(" ", "") ==
           f"{res}[:,-1]"]
    ok_l = len(lin) == 1 and ast.unparse(lin[0].value).replace(
        " ", "") == f"np.linspace(0.0,{mt_nm},{steps_nm})"
    alloc = [s for s in ast.walk(ro.node) if isinstance(
        s, (ast.Assign, ast.AnnAssign)) and s.value is not None
        and ast.unparse(s.value).replace(" ", "") ==
        f"np.zeros(({steps_nm},{dimn}))"]
    ctx.ob("D10.4", ro, lin[0] if lin else ro.node,
           ok_l and dim_ok and len(alloc) == 1,
           "a successful result has `steps` rows of n + controller_dim + 1 "
           "cells, the last column being linspace(0, max_time, steps)",
           construct="time column and shape")


# ------------------------------------------------------------------ D10.5
def _dest(ctx: Ctx) -> None:
    repo = ctx.repo
    comp = repo.func(MOD, "__j_from_ode_compute")
    jf = repo.func(MOD, "j_from_ode")
    R, C = Poly.var("R"), Poly.var("C")
    S, U = Poly.var("state_dim"), Poly.var("use_state_dims")
    one = Poly.const(1)
    ev = make_evaluator(repo, comp, extra_call=py_calls)
    env = Env()
    env.vars["ode"] = ("array", "ode")
    # straight-line prefix
    outer = None
    for s in func_body(comp):
        if isinstance(s, ast.For):
            outer = s
            break
        if isinstance(s, (ast.Assign, ast.AnnAssign)):
            src = ast.unparse(s.value).replace(" ", "")
            tg = s.targets[0] if isinstance(s, ast.Assign) else s.target
            if src == "ode.shape[1]-2" and isinstance(tg, ast.Name):
                env.vars[tg.id] = C - Poly.const(2)
            else:
                try:
                    env = ev.stmt(env, s)
                except Unsupported:
                    pass
    ctx.need(outer is not None, "__j_from_ode_compute: loop over the rows")
    it = ast.unparse(outer.iter).replace(" ", "")
    trips_outer = R - one if it == "range(1,len(ode))" else None
    total: Poly | None = Poly()
    flag_block_trips = None
    problems = []

    def while_trips(w: ast.While, init: Poly) -> Poly | None:
        """Trip count of `while v >= B` / `while v > 0` with one `v -= 1`
        per round."""
        t = w.test
        if not (isinstance(t, ast.Compare) and isinstance(
                t.left, ast.Name) and len(t.ops) == 1):
            return None
        v = t.left.id
        decs = [s for s in ast.walk(w) if isinstance(
            s, ast.AugAssign) and isinstance(s.target, ast.Name)
            and s.target.id == v]
        if len(decs) != 1 or not isinstance(decs[0].op, ast.Sub) or \
                repo.const(comp.module, decs[0].value) != 1 or not any(
                decs[0] is b for b in w.body):
            return None
        try:
            bound = ev.num(env, t.comparators[0])
        except Unsupported:
            return None
        if isinstance(t.ops[0], ast.GtE):
            return init - bound + one
        if isinstance(t.ops[0], ast.Gt):
            return init - bound
        return None

    def stores_per_round(w: ast.While) -> int:
        n = 0
        for s in w.body:
            if isinstance(s, ast.Assign) and ast.unparse(
                    s.targets[0]).replace(" ", "") == "dest[index]":
                n += 1
        incs = sum(1 for s in w.body if isinstance(s, ast.AugAssign)
                   and ast.unparse(s.target) == "index"
                   and isinstance(s.op, ast.Add)
                   and repo.const(comp.module, s.value) == 1)
        return n if n == incs else -1
    per_iter = Poly()
    flag_iter = Poly()
    cur_init: dict[str, Poly] = {}
    for s in outer.body:
        if isinstance(s, (ast.Assign, ast.AnnAssign)) and isinstance(
                s.targets[0] if isinstance(s, ast.Assign) else s.target,
                ast.Name) and s.value is not None:
            tg = (s.targets[0] if isinstance(s, ast.Assign)
                  else s.target).id
            try:
                cur_init[tg] = ev.num(env, s.value)
            except Unsupported:
                pass
        elif isinstance(s, ast.While):
            v = s.test.left.id if isinstance(s.test, ast.Compare) and \
                isinstance(s.test.left, ast.Name) else None
            tr = while_trips(s, cur_init.get(v, Poly.var("?"))) \
                if v else None
            k = stores_per_round(s)
            if tr is None or k < 0:
                problems.append(f"loop at line {s.lineno} not understood")
            else:
                per_iter = per_iter + tr.scale(k)
        elif isinstance(s, ast.If) and isinstance(s.test, ast.Name):
            flag = s.test.id
            # the flag is False initially, set True at the end of every
            # round and never cleared: the block runs in all rounds but one
            sets = [x for x in ast.walk(comp.node) if isinstance(
                x, (ast.Assign, ast.AnnAssign)) and isinstance(
                x.targets[0] if isinstance(x, ast.Assign) else x.target,
                ast.Name) and (x.targets[0] if isinstance(x, ast.Assign)
                               else x.target).id == flag]
            vals = [repo.const(comp.module, x.value) for x in sets]
            last_stmt = outer.body[-2:]  # flag set near the end
            ok_flag = sorted(map(str, vals)) == ["False", "True"] and any(
                isinstance(x, ast.Assign) and ast.unparse(
                    x.targets[0]) == flag for x in last_stmt) and \
                outer.body.index(s) < max(
                    i for i, x in enumerate(outer.body)
                    if isinstance(x, ast.Assign)
                    and ast.unparse(x.targets[0]) == flag)
            if not ok_flag:
                problems.append("flag protocol of the optional block not "
                                "recognised")
            inits = {}
            for b in s.body:
                if isinstance(b, ast.Assign) and isinstance(
                        b.targets[0], ast.Name):
                    try:
                        inits[b.targets[0].id] = ev.num(env, b.value)
                    except Unsupported:
                        pass
                elif isinstance(b, ast.While):
                    v = b.test.left.id
                    tr = while_trips(b, inits.get(v, Poly.var("?")))
                    k = stores_per_round(b)
                    if tr is None or k < 0:
                        problems.append(
                            f"loop at line {b.lineno} not understood")
                    else:
                        flag_iter = flag_iter + tr.scale(k)
            flag_block_trips = True
    if trips_outer is None:
        problems.append(f"outer loop iterates {it}")
        total = None
    else:
        total = trips_outer * per_iter + (
            trips_outer - one) * flag_iter
    # any store to dest outside the counted loops?
    n_dest = sum(1 for s in ast.walk(comp.node) if isinstance(
        s, ast.Assign) and ast.unparse(s.targets[0]).startswith("dest["))
    # allocation in j_from_ode
    ev2 = make_evaluator(repo, jf, extra_call=py_calls)
    env2 = Env()
    alloc = None
    for s in ast.walk(jf.node):
        if isinstance(s, ast.Call) and isinstance(
                s.func, ast.Attribute) and s.func.attr == "empty" and s.args:
            e2 = Env()
            e2.vars["state_dim"] = S
            e2.vars["use_state_dims"] = U

            def shape_hook(ev_: Evaluator, env_: Env, n: ast.Call) -> Any:
                return NotImplemented
            src = ast.unparse(s.args[0]).replace(
                "ode.shape[0]", "R_").replace("ode.shape[1]", "C_")
            try:
                node = ast.parse(src, mode="eval").body
                e2.vars["R_"] = R
                e2.vars["C_"] = C
                alloc = ev2.num(e2, node)
            except (Unsupported, SyntaxError):
                alloc = None
    del env2
    ok = not problems and total is not None and alloc is not None and \
        total == alloc and n_dest == 2 and flag_block_trips
    ctx.ob("D10.5", jf, jf.node, bool(ok),
           f"__j_from_ode_compute performs {show(total) if total is not None else '?'} "
           f"stores into dest; j_from_ode allocates "
           f"{show(alloc) if alloc is not None else '?'} cells"
           + (" (identical polynomials)" if ok else " - NOT identical"
              + ("; " + "; ".join(problems) if problems else "")),
           construct="dest sizing")
    src = ast.unparse(jf.node).replace(" ", "")
    ok_r = "returnfsum(dest)/ode[-1,-1]" in src
    guard = "iflen(ode)<=1:" in src and "ifuse_state_dims<=0:" in src
    ctx.ob("D10.5", jf, jf.node, ok_r and guard,
           "J = fsum(dest) / (final time); degenerate results are handled "
           "before the kernel is called", construct="J = fsum/T",
           nontrivial=False)


# ------------------------------------------------------------------ D10.6
def _j_terms(ctx: Ctx) -> None:
    """The cells of `dest` are the documented terms of J."""
    from sa.casesplit import Splitter
    from sa.symterm import ite
    repo = ctx.repo
    comp = repo.func(MOD, "__j_from_ode_compute")
    ode_n, sdim_n, udim_n, gam_n, dest_n = comp.params
    body = func_body(comp)
    outer = next((s for s in body if isinstance(s, ast.For)), None)
    ctx.need(outer is not None, "__j_from_ode_compute: loop over the rows")
    problems: list[str] = []
    iv = outer.target.id if isinstance(outer.target, ast.Name) else "i"
    it_src = ast.unparse(inline_locals(comp.node, outer.iter)).replace(
        " ", "")
    # form (a): for i in range(1, len(ode)): next = ode[i]
    # form (b): for next in ode[1:]
    form_a = it_src in (f"range(1,len({ode_n}))",
                        f"range(1,{ode_n}.shape[0])")
    form_b = it_src == f"{ode_n}[1:]" and isinstance(outer.target, ast.Name)
    ok_it = form_a or form_b
    if not ok_it:
        problems.append("rows are not scanned as i = 1 .. len(ode)-1")
    # last_row / next_row: last_row = ode[0] before, next_row = ode[i]
    # first in the body, last_row = next_row last in the body
    def asg(stmts: list[ast.stmt], nm: str) -> list[ast.stmt]:
        return [s for s in stmts if isinstance(s, (ast.Assign, ast.AnnAssign))
                and isinstance(s.targets[0] if isinstance(s, ast.Assign)
                               else s.target, ast.Name) and (
                    s.targets[0] if isinstance(s, ast.Assign)
                    else s.target).id == nm and s.value is not None]
    nxt = [s for s in outer.body if isinstance(s, (ast.Assign, ast.AnnAssign))
           and s.value is not None and ast.unparse(s.value).replace(
               " ", "") == f"{ode_n}[{iv}]"] if form_a else []
    if form_b:
        next_n = outer.target.id
        iv = "i$"
    else:
        next_n = (nxt[0].targets[0] if isinstance(nxt[0], ast.Assign)
                  else nxt[0].target).id if len(nxt) == 1 and outer.body[
            0] is nxt[0] else None
    last_n = None
    carry = None
    if next_n is not None:
        for k_, st_ in enumerate(outer.body):
            if isinstance(st_, ast.Assign) and isinstance(
                    st_.value, ast.Name) and st_.value.id == next_n and \
                    len(st_.targets) == 1 and isinstance(
                    st_.targets[0], ast.Name):
                cand_ = st_.targets[0].id
                later = {n.id for x in outer.body[k_ + 1:]
                         for n in ast.walk(x) if isinstance(n, ast.Name)}
                if cand_ not in later and next_n not in later:
                    last_n, carry = cand_, st_
    nxt_stmt = nxt[0] if nxt else None
    pre = body[:body.index(outer)]
    init_ok = last_n is not None and any(
        ast.unparse(s.value).replace(" ", "") == f"{ode_n}[0]"
        for s in asg(pre, last_n)) and len(asg(outer.body, last_n)) == 1 \
        and len(asg(outer.body, next_n)) == (0 if form_b else 1)
    if not init_ok:
        problems.append("the previous row is not carried as `last = ode[0]; "
                        "for i: next = ode[i]; ...; last = next`")
    if problems:
        ctx.ob("D10.6", comp, outer, False, "; ".join(problems),
               construct="row pairing")
        return
    ctx.ob("D10.6", comp, outer, True,
           f"row i is paired with row i-1 (`{last_n}` = ode[i-1], "
           f"`{next_n}` = ode[i]) for i = 1 .. len(ode)-1",
           construct="row pairing")
    # ---- symbolic pieces
    ev = make_evaluator(repo, comp, extra_call=py_calls)
    env = Env()
    C = Poly.var("C")
    env.vars[ode_n] = ("array", "ode")
    env.vars[last_n] = ("array", "last")
    env.vars[next_n] = ("array", "next")
    env.vars.update({sdim_n: Poly.var("S"), udim_n: Poly.var("U"),
                     gam_n: Poly.var("gamma"), iv: Poly.var("i")})
    for s in pre:
        if isinstance(s, (ast.Assign, ast.AnnAssign)) and s.value is not \
                None and isinstance(s.targets[0] if isinstance(
                    s, ast.Assign) else s.target, ast.Name):
            tg = (s.targets[0] if isinstance(s, ast.Assign)
                  else s.target).id
            src = ast.unparse(s.value).replace(" ", "")
            if src == f"{ode_n}.shape[1]-2":
                env.vars[tg] = C - Poly.const(2)
            elif tg != last_n:
                try:
                    env = ev.stmt(env, s)
                except Unsupported:
                    pass
    tN = Poly.atom(("cell", "next", (Poly.const(-1),)))
    tL = Poly.atom(("cell", "last", (Poly.const(-1),)))
    W = tN - tL
    big = Poly.const(10) .pow(100) if hasattr(Poly, "pow") else None
    loops: list[dict[str, Any]] = []
    flag_n = None
    cur_env = env.copy()
    def scan(stmts: list[ast.stmt], guarded: str | None, e: Env) -> Env:
        nonlocal flag_n
        for k, s in enumerate(stmts):
            if s is nxt_stmt or s is carry:
                continue
            if isinstance(s, ast.While):
                loops.append(_while_info(
                    ctx, comp, ev, e, s,
                    [b for b in stmts[:k] if b is not nxt_stmt],
                    guarded, last_n, dest_n))
                # havoc the counter afterwards
                continue
            if isinstance(s, ast.If) and isinstance(s.test, ast.Name) \
                    and not s.orelse:
                flag_n = s.test.id
                scan(s.body, s.test.id, e.copy())
                continue
            if isinstance(s, (ast.Assign, ast.AnnAssign, ast.AugAssign)):
                try:
                    e = ev.stmt(e, s)
                except Unsupported:
                    pass
        return e
    scan(outer.body, None, cur_env)
    sp = Splitter(integer=False)
    v = Poly.var("v")
    results = []
    for info in loops:
        if info.get("error"):
            results.append((False, info["error"]))
            continue
        want_w = W * Poly.var("gamma") if info["guard"] is None else W
        # 1e100 is a float literal: compare through its exact value
        # float literals are folded through their shortest decimal form
        hi = Poly.const(10 ** 100)
        ref = ite(("and", ("lt", -hi, v), ("lt", v, hi)), v * v * want_w, hi)
        same = True
        try:
            for facts, (g, r), _t in sp.cases((info["value"], ref)):
                if not sp.equal(g, r, facts):
                    same = False
        except Unsupported:
            same = False
        rng_ok = False
        if info["guard"] is None:
            rng_ok = info["hi"] == C - Poly.const(2) and \
                info["lo"] == Poly.var("S")
            what = "control columns S .. C-2, weight (t_i - t_{i-1}) * gamma"
        else:
            rng_ok = info["hi"] == Poly.var("U") - Poly.const(1) and \
                info["lo"] == Poly.const(0)
            what = "state columns 0 .. U-1, weight (t_i - t_{i-1})"
        ok = same and rng_ok and info["index_ok"]
        results.append((ok, what if ok else
                        f"{what}: value matches: {same} "
                        f"({show(info['value'])[:120]}), columns "
                        f"{show(info['lo'])}..{show(info['hi'])}, one cell "
                        f"per term: {info['index_ok']}"))
    n_ctrl = sum(1 for i_ in loops if i_.get("guard") is None)
    n_state = sum(1 for i_ in loops if i_.get("guard") is not None)
    ok = bool(results) and all(r[0] for r in results) and n_ctrl == 1 \
        and n_state == 1
    ctx.ob("D10.6", comp, outer, ok,
           "every cell of dest is v^2 * weight (1e100 when |v| >= 1e100) "
           "for v = entry of the PREVIOUS row: " + "; ".join(
               r[1] for r in results) if ok else
           "the terms of J deviate from the documented sum: " + "; ".join(
               r[1] for r in results if not r[0])
           + f" (control loops: {n_ctrl}, state loops: {n_state})",
           construct="terms of J")
    # the state terms are skipped for the first pair only
    flag_ok = False
    if flag_n is not None:
        inits = asg(pre, flag_n)
        sets = asg(outer.body, flag_n)
        flag_ok = len(inits) == 1 and repo.const(
            comp.module, inits[0].value) is False and len(sets) == 1 and \
            repo.const(comp.module, sets[0].value) is True and \
            outer.body.index(sets[0]) > max(
                (outer.body.index(s) for s in outer.body
                 if isinstance(s, ast.If) and isinstance(s.test, ast.Name)
                 and s.test.id == flag_n), default=-1)
    ctx.ob("D10.6", comp, outer, flag_ok,
           "the state terms are left out exactly for the first pair of rows "
           "(the common starting state)" if flag_ok else
           "the rule 'starting state is not counted, all later states are' "
           "is not implemented by the flag protocol",
           construct="starting state skipped")
    del big
    # ---- the cell index starts at 0 and is only ever advanced by the loops
    idx_names = {ast.unparse(s.targets[0].slice) for s in ast.walk(comp.node)
                 if isinstance(s, ast.Assign) and isinstance(
                     s.targets[0], ast.Subscript) and ast.unparse(
                     s.targets[0].value) == dest_n}
    ok_idx = len(idx_names) == 1
    if ok_idx:
        ix = next(iter(idx_names))
        defs = asg(pre, ix)
        other = [s for s in ast.walk(outer) if isinstance(
            s, (ast.Assign, ast.AnnAssign)) and isinstance(
            s.targets[0] if isinstance(s, ast.Assign) else s.target,
            ast.Name) and (s.targets[0] if isinstance(s, ast.Assign)
                           else s.target).id == ix]
        ok_idx = len(defs) == 1 and repo.const(
            comp.module, defs[0].value) == 0 and not other
    ctx.ob("D10.6", comp, comp.node, ok_idx,
           "the terms are written to dest[0], dest[1], ... without gaps"
           if ok_idx else "the cell index does not start at 0 / is reset: "
           "cells stay unfilled or are written beyond the buffer",
           construct="cell index starts at zero")
    # ---- j_from_ode: guard, defaults, call binding, division by the time
    jf0 = repo.func(MOD, "j_from_ode")
    g_ok = False
    for s in func_body(jf0):
        if isinstance(s, ast.If) and s.body and isinstance(
                s.body[0], ast.Return) and repo.const(
                jf0.module, s.body[0].value) == 1e200:
            t = s.test
            if isinstance(t, ast.Compare) and len(t.ops) == 1 and \
                    ast.unparse(t.left).replace(" ", "") in (
                    f"len({jf0.params[0]})", f"{jf0.params[0]}.shape[0]"):
                k = repo.const(jf0.module, t.comparators[0])
                g_ok = (isinstance(t.ops[0], ast.LtE) and k == 1) or (
                    isinstance(t.ops[0], ast.Lt) and k == 2)
    ctx.ob("D10.6", jf0, jf0.node, g_ok,
           "a simulation with a single (failure) row scores 1e200, every "
           "longer one is evaluated" if g_ok else
           "the failure value 1e200 is not returned exactly for results "
           "with at most one row", construct="failure row scores 1e200")
    jf = repo.func(MOD, "j_from_ode")
    calls = [n for n in ast.walk(jf.node) if isinstance(n, ast.Call)
             and isinstance(n.func, ast.Name) and repo.resolve(
                 jf.module, n.func.id) is comp]
    p = jf.params
    dest_var = None
    for s in func_body(jf):
        if isinstance(s, (ast.Assign, ast.AnnAssign)) and isinstance(
                s.value, ast.Call) and ast.unparse(s.value.func) in (
                "np.empty", "np.zeros"):
            tg = s.targets[0] if isinstance(s, ast.Assign) else s.target
            dest_var = tg.id if isinstance(tg, ast.Name) else None
    okb = len(calls) == 1 and not calls[0].keywords and [
        ast.unparse(a) for a in calls[0].args] == [
        p[0], p[1], p[2], p[3], dest_var]
    ctx.ob("D10.6", jf, calls[0] if calls else jf.node, okb,
           "j_from_ode passes (ode, state_dim, use_state_dims, gamma, dest) "
           "to the kernel in this order" if okb else
           "the kernel is called with "
           + (", ".join(ast.unparse(a) for a in calls[0].args)
              if calls else "nothing") + " - expected (ode, state_dim, "
           "use_state_dims, gamma, dest)", construct="kernel arguments")
    rets = sorted((r for r in ast.walk(jf.node)
                   if isinstance(r, ast.Return)), key=lambda r: r.lineno)
    last = rets[-1] if rets else None
    okr = last is not None and isinstance(
        last.value, ast.BinOp) and isinstance(
        last.value.op, ast.Div) and ast.unparse(last.value.left) in (
        f"fsum({dest_var})", f"math.fsum({dest_var})",
        f"{dest_var}.sum()", f"np.sum({dest_var})") and ast.unparse(
        last.value.right).replace(" ", "") == f"{p[0]}[-1,-1]"
    ctx.ob("D10.6", jf, last or jf.node, bool(okr),
           "J = sum(dest) / ode[-1, -1] (the simulated time)" if okr else
           "J is not the sum of the terms divided by the simulated time",
           construct="J = sum / time")
    cfg = CFG(jf.node)
    call_node = next((n for n in cfg.nodes if n.kind == "stmt" and calls
                      and any(c is calls[0] for c in calls_in(n.ast))), None)
    ret_node = next((n for n in cfg.nodes if n.ast is last), None)
    okd = call_node is not None and ret_node is not None and \
        cfg.dominated_by(ret_node, lambda n: n is call_node)
    ctx.ob("D10.6", jf, last or jf.node, okd,
           "the terms are computed on every path that returns the sum"
           if okd else "a path returns the sum of an unfilled buffer",
           construct="kernel called before the sum")


def _while_info(ctx: Ctx, comp: FuncInfo, ev: Evaluator, env: Env,
                w: ast.While, before: list[ast.stmt], guard: str | None,
                last_n: str, dest_n: str) -> dict[str, Any]:
    """One term loop: visited columns, stored value, index discipline."""
    repo = ctx.repo
    t = w.test
    if not (isinstance(t, ast.Compare) and isinstance(t.left, ast.Name)
            and len(t.ops) == 1 and isinstance(t.ops[0], (ast.GtE, ast.Gt))):
        return {"error": f"loop test `{ast.unparse(t)}` not recognised"}
    c = t.left.id
    init = None
    e = env.copy()
    for s in before:
        if isinstance(s, (ast.Assign, ast.AnnAssign, ast.AugAssign)):
            try:
                e = ev.stmt(e, s)
            except Unsupported:
                pass
    init = e.vars.get(c)
    if not isinstance(init, Poly):
        return {"error": f"start value of `{c}` not known"}
    try:
        bound = ev.num(e, t.comparators[0])
    except Unsupported:
        return {"error": "loop bound not normalised"}
    decs = [k for k, s in enumerate(w.body) if isinstance(s, ast.AugAssign)
            and isinstance(s.target, ast.Name) and s.target.id == c]
    if len(decs) != 1 or not isinstance(w.body[decs[0]].op, ast.Sub) or \
            repo.const(comp.module, w.body[decs[0]].value) != 1:
        return {"error": f"`{c}` is not decremented by one per round"}
    loads = [k for k, s in enumerate(w.body) if isinstance(
        s, (ast.Assign, ast.AnnAssign)) and s.value is not None and
        ast.unparse(s.value).replace(" ", "") == f"{last_n}[{c}]"]
    if len(loads) != 1:
        return {"error": f"no single load `{last_n}[{c}]` per round"}
    vname = (w.body[loads[0]].targets[0] if isinstance(
        w.body[loads[0]], ast.Assign) else w.body[loads[0]].target).id
    one = Poly.const(1)
    strict = isinstance(t.ops[0], ast.Gt)
    # values of c at the test: init, init-1, ..., down to the bound
    low_test = bound + one if strict else bound
    if loads[0] < decs[0]:
        hi, lo = init, low_test          # load, then decrement
    else:
        hi, lo = init - one, low_test - one
    stores = [s for s in w.body if isinstance(s, ast.Assign) and isinstance(
        s.targets[0], ast.Subscript) and ast.unparse(
        s.targets[0].value) == dest_n]
    incs = [s for s in w.body if isinstance(s, ast.AugAssign) and isinstance(
        s.target, ast.Name) and isinstance(s.op, ast.Add) and repo.const(
        comp.module, s.value) == 1 and s.target.id != c]
    index_ok = len(stores) == 1 and len(incs) == 1 and ast.unparse(
        stores[0].targets[0].slice) == incs[0].target.id and \
        w.body.index(stores[0]) < w.body.index(incs[0]) and not any(
        isinstance(x, (ast.If, ast.While, ast.For, ast.Break, ast.Continue))
        for x in w.body)
    if len(stores) != 1:
        return {"error": "not exactly one store into dest per round"}
    e2 = env.copy()
    e2.vars[vname] = Poly.var("v")
    for s in before:
        if isinstance(s, (ast.Assign, ast.AnnAssign, ast.AugAssign)):
            try:
                e2 = ev.stmt(e2, s)
            except Unsupported:
                pass
    e2.vars[vname] = Poly.var("v")
    try:
        val = ev.num(e2, stores[0].value)
    except Unsupported as u:
        return {"error": f"stored value not normalised: {u}"}
    return {"hi": hi, "lo": lo, "value": val, "index_ok": index_ok,
            "guard": guard}
