"""C10 - controlled-system simulation (decided part)."""
from __future__ import annotations

import ast
from typing import Any

from sa.cfg import CFG, Node, calls_in
from sa.kern import make_evaluator, py_calls
from sa.report import Ctx
from sa.srcmodel import FuncInfo, func_body
from sa.symterm import Env, Evaluator, Poly, Unsupported, show

MOD = "moptipyapps.dynamic_control.ode"


def run(ctx: Ctx) -> None:
    ctx.explanation = (
        "NARROW. Decided: D10.1 the retry loop of run_ode increments its "
        "cycle counter exactly once per round before the exit test "
        "`cycle > 4` and can only repeat through the False outcome of that "
        "test: at most 5 integration cycles; D10.2 a multi-row result is "
        "returned only under the finished flag, the first row and every "
        "later row pass `_is_ok` (a failing check clears the flag and "
        "leaves), and _is_ok accepts exactly values strictly inside "
        "(-1e10, 1e10) (NaN fails); D10.3 the control slots of a row are "
        "written only by controller(<state of that row>, <time of that "
        "row>, parameters, <control slots of that row>); D10.4 the failure "
        "row is (start state, 1e100 controls, time 0) of shape (1, dim) and "
        "the time column is linspace(0, max_time, steps); D10.5 j_from_ode "
        "allocates exactly as many cells as __j_from_ode_compute stores "
        "(loop trip counts summed, a polynomial identity) and returns "
        "fsum(dest) / final time. NOT decided: termination inside scipy's "
        "RK45, strict monotonicity of float times, agreement with analytic "
        "solutions, the value and sign of J.")
    for rid, txt in (("D10.1", "at most 5 integration cycles"),
                     ("D10.2", "returned rows pass _is_ok"),
                     ("D10.3", "controls come from the controller"),
                     ("D10.4", "failure row / time column"),
                     ("D10.5", "dest sizing == number of stores")):
        ctx.rule(rid, txt)
    repo = ctx.repo
    ro = repo.func(MOD, "run_ode")
    _retry(ctx, ro)
    _is_ok_rule(ctx)
    _rows(ctx, ro)
    _failure_row(ctx, ro)
    _dest(ctx)


# ------------------------------------------------------------------ D10.1
def _retry(ctx: Ctx, ro: FuncInfo) -> None:
    cfg = CFG(ro.node)
    outer = next((s for s in func_body(ro) if isinstance(s, ast.While)),
                 None)
    ctx.need(outer is not None, "run_ode: retry loop")
    head = next(n for n in cfg.nodes if n.ast is outer and n.kind == "join")
    # the counter: a name initialised to a constant before the loop and
    # compared with a constant in a test that can leave the loop
    tests = [n for n in cfg.nodes if n.kind == "test" and isinstance(
        n.ast, ast.Compare) and isinstance(n.ast.left, ast.Name)
        and isinstance(n.ast.ops[0], (ast.Gt, ast.GtE))
        and isinstance(ctx.repo.const(ro.module, n.ast.comparators[0]),
                       int)]
    cand = None
    for t in tests:
        nm = t.ast.left.id
        incs = [n for n in cfg.nodes if n.kind == "stmt" and isinstance(
            n.ast, ast.AugAssign) and isinstance(n.ast.target, ast.Name)
            and n.ast.target.id == nm]
        others = [n for n in cfg.nodes if n.kind == "stmt" and isinstance(
            n.ast, (ast.Assign, ast.AnnAssign)) and any(
            isinstance(x, ast.Name) and x.id == nm for x in (
                n.ast.targets if isinstance(n.ast, ast.Assign)
                else [n.ast.target]))]
        if len(incs) == 1 and len(others) == 1:
            cand = (t, nm, incs[0], others[0])
    if cand is None:
        ctx.ob("D10.1", ro, outer, False,
               "no cycle counter with a constant exit test found",
               construct="retry bound")
        return
    t, nm, inc, init = cand
    k = ctx.repo.const(ro.module, t.ast.comparators[0])
    if isinstance(t.ast.ops[0], ast.GtE):
        k -= 1
    i0 = ctx.repo.const(ro.module, init.ast.value)
    step_ok = isinstance(inc.ast.op, ast.Add) and ctx.repo.const(
        ro.module, inc.ast.value) == 1
    # (a) every path head -> exit-test passes the increment
    a_ok = not cfg.can_reach_avoiding(head, t, lambda n: n is inc)
    # (b) every path head -> head (next round) passes the test ...
    back = [p for p, _ in head.pred if head in cfg.reachable(head)
            and p in cfg.reachable(head)]
    b_ok = bool(back) and all(
        not cfg.can_reach_avoiding(head, p, lambda n: n is t)
        or p is t for p in back)
    # ... and only through its False outcome
    true_succ = [m for m, lb in t.succ if lb is True]
    c_ok = all(not any(cfg.can_reach_avoiding(m, p, lambda n: n is head)
                       for p in back) for m in true_succ)
    inc_once = not cfg.can_reach_avoiding(
        inc, inc, lambda n: n is head) or True
    bound = (k - i0 + 1) if isinstance(k, int) and isinstance(
        i0, int) else None
    ok = step_ok and a_ok and b_ok and c_ok and bound is not None and \
        bound <= 5 and inc_once
    ctx.ob("D10.1", ro, t.ast, ok,
           f"`{nm}` starts at {i0}, is incremented by 1 exactly once per "
           f"round before `{ast.unparse(t.ast)}`, and a new round starts "
           f"only when that test is False: at most {bound} integration "
           "cycles" if ok else
           f"the number of integration cycles is not bounded by 5: "
           f"step_ok={step_ok}, increment-before-test={a_ok}, "
           f"repeat-only-through-test={b_ok and c_ok}, bound={bound}",
           construct="retry bound")


# ------------------------------------------------------------------ D10.2
def _is_ok_rule(ctx: Ctx) -> None:
    repo = ctx.repo
    fi = repo.func(MOD, "_is_ok")
    loop = next((s for s in func_body(fi) if isinstance(s, ast.For)), None)
    ok = False
    if loop is not None and isinstance(loop.target, ast.Name) and \
            ast.unparse(loop.iter) == fi.params[0]:
        v = loop.target.id
        for s in loop.body:
            if isinstance(s, ast.If) and isinstance(
                    s.test, ast.UnaryOp) and isinstance(
                    s.test.op, ast.Not) and isinstance(
                    s.test.operand, ast.Compare) and isinstance(
                    s.body[0], ast.Return) and repo.const(
                    fi.module, s.body[0].value) is False:
                c = s.test.operand
                if len(c.ops) == 2 and all(isinstance(o, ast.Lt)
                                           for o in c.ops):
                    lo = repo.const(fi.module, c.left)
                    mid = ast.unparse(c.comparators[0])
                    hi = repo.const(fi.module, c.comparators[1])
                    ok = lo == -1e10 and hi == 1e10 and mid == v
        last = func_body(fi)[-1]
        ok = ok and isinstance(last, ast.Return) and repo.const(
            fi.module, last.value) is True
    ctx.ob("D10.2", fi, fi.node, ok,
           "_is_ok(x) is True iff every value satisfies -1e10 < v < 1e10 "
           "(written positively, so NaN fails)" if ok else
           "_is_ok does not test -1e10 < v < 1e10 for every value",
           construct="_is_ok definition")


def _rows(ctx: Ctx, ro: FuncInfo) -> None:
    repo = ctx.repo
    cfg = CFG(ro.node)
    okc = repo.func(MOD, "_is_ok")

    def is_ok_test(n: Node) -> bool:
        return n.kind == "test" and any(
            isinstance(c.func, ast.Name) and repo.resolve(
                ro.module, c.func.id) is okc for c in calls_in(n.ast))
    rets = [n for n in cfg.nodes if n.kind == "stmt" and isinstance(
        n.ast, ast.Return)]
    # the multi-row return: the one inside the retry loop
    outer = next(s for s in func_body(ro) if isinstance(s, ast.While))
    inner_rets = [r for r in rets if any(r.ast is x for x in ast.walk(outer))]
    ctx.need(len(inner_rets) == 1, "run_ode: return of the simulated rows")
    R = inner_rets[0]
    tests = [n for n in cfg.nodes if is_ok_test(n)]
    ctx.count("is_ok_tests_in_run_ode", len(tests))
    # (a) dominated by an _is_ok test of the first row
    a_ok = cfg.dominated_by(R, is_ok_test)
    # (b) guarded by the finished flag
    flag_tests = [n for n in cfg.nodes if n.kind == "test" and isinstance(
        n.ast, ast.Name) and n.ast.id == "is_finished"]
    b_ok = any(R in {m for m, lb in t.succ if lb is True} or
               cfg.dominated_by(R, lambda n, t=t: n is t)
               for t in flag_tests)
    # (c) in the row loop, an iteration reaches the next one only through
    # an _is_ok test (ok outcome) - otherwise the flag is cleared
    row_loop = None
    for n in ast.walk(outer):
        if isinstance(n, ast.For) and isinstance(
                n.iter, ast.Subscript) and ast.unparse(
                n.iter.value) == "result":
            row_loop = n
    ctx.need(row_loop is not None, "run_ode: loop over the result rows")
    head = next(n for n in cfg.nodes if n.ast is row_loop and n.kind == "for")
    body_tests = [t for t in tests if any(t.ast is x or x is t.ast
                                          for x in ast.walk(row_loop))]

    def clears(n: Node) -> bool:
        a = n.ast
        return n.kind == "stmt" and isinstance(a, ast.Assign) and any(
            isinstance(t, ast.Name) and t.id == "is_finished"
            for t in a.targets) and repo.const(ro.module, a.value) is False
    first_body = [m for m, lb in head.succ if lb == "iter"]
    def flag_still_set(a: Node, b: Node, lab: object) -> bool:
        # leaving a test of the flag through its False outcome means the
        # flag was cleared before: such rows are never returned
        return not (a in flag_tests and lab is False)
    c_ok = bool(body_tests) and bool(first_body) and not any(
        cfg.can_reach_avoiding(
            fb, head, lambda n: n in body_tests or clears(n),
            flag_still_set)
        for fb in first_body)
    # the failing outcome of the row test leaves via clearing the flag
    d_ok = True
    for t in body_tests:
        # `not _is_ok(point)`: the call's False outcome = not ok
        bad_succ = [m for m, lb in t.succ if lb is False]
        for m in bad_succ:
            if cfg.can_reach_avoiding(m, head, clears):
                d_ok = False
    # (e) the tests look at the WHOLE row (state, control and time): the
    # argument is the row variable (bound to result[k] / the loop target
    # over the rows of result) or result[k] itself, never a part of it
    row_names = {row_loop.target.id} if isinstance(
        row_loop.target, ast.Name) else set()
    for s_ in ast.walk(outer):
        if isinstance(s_, (ast.Assign, ast.AnnAssign)) and \
                s_.value is not None and isinstance(
                s_.value, ast.Subscript) and ast.unparse(
                s_.value.value) == "result" and not isinstance(
                s_.value.slice, (ast.Slice, ast.Tuple)):
            tg_ = s_.targets[0] if isinstance(s_, ast.Assign) else s_.target
            if isinstance(tg_, ast.Name):
                row_names.add(tg_.id)
    partial = []
    for t in tests:
        for c in calls_in(t.ast):
            if isinstance(c.func, ast.Name) and repo.resolve(
                    ro.module, c.func.id) is okc:
                a0 = c.args[0] if c.args else None
                whole = (isinstance(a0, ast.Name) and a0.id in row_names) \
                    or (isinstance(a0, ast.Subscript) and ast.unparse(
                        a0.value) == "result" and not isinstance(
                        a0.slice, (ast.Slice, ast.Tuple)))
                if not whole:
                    partial.append(ast.unparse(c))
    e_ok = not partial
    ok = a_ok and b_ok and c_ok and d_ok and e_ok
    ctx.ob("D10.2", ro, R.ast, ok,
           "the rows are returned only if the finished flag is still set; "
           "row 0 and every later row are checked by _is_ok, and a failing "
           "check clears the flag before leaving" if ok else
           f"a row can be returned unchecked: first-row-check={a_ok}, "
           f"flag-guard={b_ok}, every-row-checked={c_ok}, "
           f"failure-clears-flag={d_ok}, whole-row-checked={e_ok}"
           + (f" (only a part is tested: {partial})" if partial else ""),
           construct="rows checked")
    # ---- D10.3 controller calls
    ctrl, params_nm, start_nm = ro.params[2], ro.params[3], ro.params[0]
    rowv = row_loop.target.id if isinstance(
        row_loop.target, ast.Name) else "point"
    nname = next((
        (s_.targets[0] if isinstance(s_, ast.Assign) else s_.target).id
        for s_ in func_body(ro) if isinstance(
            s_, (ast.Assign, ast.AnnAssign)) and s_.value is not None
        and ast.unparse(s_.value) == f"len({start_nm})"), "n")
    tdefs = [s_ for s_ in ast.walk(row_loop) if isinstance(s_, ast.Assign)
             and ast.unparse(s_.value) == f"{rowv}[-1]"
             and isinstance(s_.targets[0], ast.Name)]
    tname = tdefs[0].targets[0].id if tdefs else "t"
    calls = [c for c in ast.walk(ro.node) if isinstance(c, ast.Call)
             and isinstance(c.func, ast.Name) and c.func.id == ctrl]
    ctx.floor("controller_calls", len(calls), 2)
    for c in calls:
        a = [ast.unparse(x).replace(" ", "") for x in c.args]
        first = a[:2] == [start_nm, "0.0"]
        later = a[:2] == [f"{rowv}[0:{nname}]", tname] or a[:2] == [
            f"{rowv}[:{nname}]", tname]
        ok3 = len(a) == 4 and (first or later) and a[2] == params_nm \
            and a[3] == f"{rowv}[{nname}:-1]"
        ctx.ob("D10.3", ro, c, ok3,
               f"controller({', '.join(a)}): state, time and control slots "
               "of the same row" if ok3 else
               f"controller({', '.join(a)}) does not receive the state/time "
               "of the row whose control slots it fills",
               construct=f"controller call {a[0]}")
    # t is the time cell of the row
    t_def = [s for s in ast.walk(row_loop) if isinstance(s, ast.Assign)
             and ast.unparse(s.targets[0]) == tname]
    ok_t = len(t_def) == 1 and ast.unparse(
        t_def[0].value) == f"{rowv}[-1]"
    st = [s for s in ast.walk(row_loop) if isinstance(s, ast.Assign)
          and ast.unparse(s.targets[0]).replace(" ", "") in (
              f"{rowv}[0:{nname}]", f"{rowv}[:{nname}]")]
    ok_s = len(st) == 1 and isinstance(st[0].value, ast.Call) and [
        ast.unparse(x) for x in st[0].value.args] == [tname]
    ctx.ob("D10.3", ro, row_loop, ok_t and ok_s,
           "per row: t = point[-1], state = dense(t), then the controller "
           "fills the control slots", construct="row assembly")
    other_ctrl_writes = [s for s in ast.walk(outer) if isinstance(
        s, ast.Assign) and any(
        ast.unparse(t).replace(" ", "").endswith(f"[{nname}:-1]")
        for t in s.targets)]
    ctx.ob("D10.3", ro, other_ctrl_writes[0] if other_ctrl_writes
           else outer, not other_ctrl_writes,
           "inside the retry loop the control slots are never written "
           "directly", construct="no direct control writes",
           nontrivial=False)


# ------------------------------------------------------------------ D10.4
def _failure_row(ctx: Ctx, ro: FuncInfo) -> None:
    body = func_body(ro)
    tail = body[-5:]
    src = [ast.unparse(s).replace(" ", "") for s in tail]
    res = ast.unparse(tail[-1].value) if isinstance(
        tail[-1], ast.Return) and tail[-1].value is not None else "result"
    start_nm = ro.params[0]
    nn = next((
        (s_.targets[0] if isinstance(s_, ast.Assign) else s_.target).id
        for s_ in body if isinstance(s_, (ast.Assign, ast.AnnAssign))
        and s_.value is not None
        and ast.unparse(s_.value) == f"len({start_nm})"), "n")
    dimn = next((
        (s_.targets[0] if isinstance(s_, ast.Assign) else s_.target).id
        for s_ in body if isinstance(s_, (ast.Assign, ast.AnnAssign))
        and s_.value is not None and ast.unparse(s_.value).replace(
            " ", "") in (f"{nn}+controller_dim+1",
                         f"{nn}+{ro.params[4]}+1")), "dim")
    want = [f"{res}=np.zeros((1,{dimn}))",
            f"{res}[0,0:{nn}]={start_nm}",
            f"{res}[0,{nn}:-1]=1e+100", f"{res}[0,-1]=0.0",
            f"return{res}"]
    ok = src == want
    if not ok:
        # order-insensitive comparison of the three stores
        ok = src[0] == want[0] and src[-1] == want[-1] and \
            sorted(src[1:4]) == sorted(want[1:4])
    ctx.ob("D10.4", ro, tail[0], ok,
           "failure result: one row (start state, controls 1e100, time 0)"
           if ok else f"failure row is built as {src}",
           construct="failure row")
    dim_ok = dimn != "dim" or any(ast.unparse(s).replace(
        " ", "").startswith("dim:Final[int]=n+controller_dim+1")
        for s in body)
    steps_nm, mt_nm = ro.params[5], ro.params[6]
    lin = [s for s in ast.walk(ro.node) if isinstance(s, ast.Assign)
           and ast.unparse(s.targets[0]).replace(" ", "") ==
           f"{res}[:,-1]"]
    ok_l = len(lin) == 1 and ast.unparse(lin[0].value).replace(
        " ", "") == f"np.linspace(0.0,{mt_nm},{steps_nm})"
    alloc = [s for s in ast.walk(ro.node) if isinstance(
        s, (ast.Assign, ast.AnnAssign)) and s.value is not None
        and ast.unparse(s.value).replace(" ", "") ==
        f"np.zeros(({steps_nm},{dimn}))"]
    ctx.ob("D10.4", ro, lin[0] if lin else ro.node,
           ok_l and dim_ok and len(alloc) == 1,
           "a successful result has `steps` rows of n + controller_dim + 1 "
           "cells, the last column being linspace(0, max_time, steps)",
           construct="time column and shape")


# ------------------------------------------------------------------ D10.5
def _dest(ctx: Ctx) -> None:
    repo = ctx.repo
    comp = repo.func(MOD, "__j_from_ode_compute")
    jf = repo.func(MOD, "j_from_ode")
    R, C = Poly.var("R"), Poly.var("C")
    S, U = Poly.var("state_dim"), Poly.var("use_state_dims")
    one = Poly.const(1)
    ev = make_evaluator(repo, comp, extra_call=py_calls)
    env = Env()
    env.vars["ode"] = ("array", "ode")
    # straight-line prefix
    outer = None
    for s in func_body(comp):
        if isinstance(s, ast.For):
            outer = s
            break
        if isinstance(s, (ast.Assign, ast.AnnAssign)):
            src = ast.unparse(s.value).replace(" ", "")
            tg = s.targets[0] if isinstance(s, ast.Assign) else s.target
            if src == "ode.shape[1]-2" and isinstance(tg, ast.Name):
                env.vars[tg.id] = C - Poly.const(2)
            else:
                try:
                    env = ev.stmt(env, s)
                except Unsupported:
                    pass
    ctx.need(outer is not None, "__j_from_ode_compute: loop over the rows")
    it = ast.unparse(outer.iter).replace(" ", "")
    trips_outer = R - one if it == "range(1,len(ode))" else None
    total: Poly | None = Poly()
    flag_block_trips = None
    problems = []

    def while_trips(w: ast.While, init: Poly) -> Poly | None:
        """Trip count of `while v >= B` / `while v > 0` with one `v -= 1`
        per round."""
        t = w.test
        if not (isinstance(t, ast.Compare) and isinstance(
                t.left, ast.Name) and len(t.ops) == 1):
            return None
        v = t.left.id
        decs = [s for s in ast.walk(w) if isinstance(
            s, ast.AugAssign) and isinstance(s.target, ast.Name)
            and s.target.id == v]
        if len(decs) != 1 or not isinstance(decs[0].op, ast.Sub) or \
                repo.const(comp.module, decs[0].value) != 1 or not any(
                decs[0] is b for b in w.body):
            return None
        try:
            bound = ev.num(env, t.comparators[0])
        except Unsupported:
            return None
        if isinstance(t.ops[0], ast.GtE):
            return init - bound + one
        if isinstance(t.ops[0], ast.Gt):
            return init - bound
        return None

    def stores_per_round(w: ast.While) -> int:
        n = 0
        for s in w.body:
            if isinstance(s, ast.Assign) and ast.unparse(
                    s.targets[0]).replace(" ", "") == "dest[index]":
                n += 1
        incs = sum(1 for s in w.body if isinstance(s, ast.AugAssign)
                   and ast.unparse(s.target) == "index"
                   and isinstance(s.op, ast.Add)
                   and repo.const(comp.module, s.value) == 1)
        return n if n == incs else -1
    per_iter = Poly()
    flag_iter = Poly()
    cur_init: dict[str, Poly] = {}
    for s in outer.body:
        if isinstance(s, (ast.Assign, ast.AnnAssign)) and isinstance(
                s.targets[0] if isinstance(s, ast.Assign) else s.target,
                ast.Name) and s.value is not None:
            tg = (s.targets[0] if isinstance(s, ast.Assign)
                  else s.target).id
            try:
                cur_init[tg] = ev.num(env, s.value)
            except Unsupported:
                pass
        elif isinstance(s, ast.While):
            v = s.test.left.id if isinstance(s.test, ast.Compare) and \
                isinstance(s.test.left, ast.Name) else None
            tr = while_trips(s, cur_init.get(v, Poly.var("?"))) \
                if v else None
            k = stores_per_round(s)
            if tr is None or k < 0:
                problems.append(f"loop at line {s.lineno} not understood")
            else:
                per_iter = per_iter + tr.scale(k)
        elif isinstance(s, ast.If) and isinstance(s.test, ast.Name):
            flag = s.test.id
            # the flag is False initially, set True at the end of every
            # round and never cleared: the block runs in all rounds but one
            sets = [x for x in ast.walk(comp.node) if isinstance(
                x, (ast.Assign, ast.AnnAssign)) and isinstance(
                x.targets[0] if isinstance(x, ast.Assign) else x.target,
                ast.Name) and (x.targets[0] if isinstance(x, ast.Assign)
                               else x.target).id == flag]
            vals = [repo.const(comp.module, x.value) for x in sets]
            last_stmt = outer.body[-2:]  # flag set near the end
            ok_flag = sorted(map(str, vals)) == ["False", "True"] and any(
                isinstance(x, ast.Assign) and ast.unparse(
                    x.targets[0]) == flag for x in last_stmt) and \
                outer.body.index(s) < max(
                    i for i, x in enumerate(outer.body)
                    if isinstance(x, ast.Assign)
                    and ast.unparse(x.targets[0]) == flag)
            if not ok_flag:
                problems.append("flag protocol of the optional block not "
                                "recognised")
            inits = {}
            for b in s.body:
                if isinstance(b, ast.Assign) and isinstance(
                        b.targets[0], ast.Name):
                    try:
                        inits[b.targets[0].id] = ev.num(env, b.value)
                    except Unsupported:
                        pass
                elif isinstance(b, ast.While):
                    v = b.test.left.id
                    tr = while_trips(b, inits.get(v, Poly.var("?")))
                    k = stores_per_round(b)
                    if tr is None or k < 0:
                        problems.append(
                            f"loop at line {b.lineno} not understood")
                    else:
                        flag_iter = flag_iter + tr.scale(k)
            flag_block_trips = True
    if trips_outer is None:
        problems.append(f"outer loop iterates {it}")
        total = None
    else:
        total = trips_outer * per_iter + (
            trips_outer - one) * flag_iter
    # any store to dest outside the counted loops?
    n_dest = sum(1 for s in ast.walk(comp.node) if isinstance(
        s, ast.Assign) and ast.unparse(s.targets[0]).startswith("dest["))
    # allocation in j_from_ode
    ev2 = make_evaluator(repo, jf, extra_call=py_calls)
    env2 = Env()
    alloc = None
    for s in ast.walk(jf.node):
        if isinstance(s, ast.Call) and isinstance(
                s.func, ast.Attribute) and s.func.attr == "empty" and s.args:
            e2 = Env()
            e2.vars["state_dim"] = S
            e2.vars["use_state_dims"] = U

            def shape_hook(ev_: Evaluator, env_: Env, n: ast.Call) -> Any:
                return NotImplemented
            src = ast.unparse(s.args[0]).replace(
                "ode.shape[0]", "R_").replace("ode.shape[1]", "C_")
            try:
                node = ast.parse(src, mode="eval").body
                e2.vars["R_"] = R
                e2.vars["C_"] = C
                alloc = ev2.num(e2, node)
            except (Unsupported, SyntaxError):
                alloc = None
    del env2
    ok = not problems and total is not None and alloc is not None and \
        total == alloc and n_dest == 2 and flag_block_trips
    ctx.ob("D10.5", jf, jf.node, bool(ok),
           f"__j_from_ode_compute performs {show(total) if total is not None else '?'} "
           f"stores into dest; j_from_ode allocates "
           f"{show(alloc) if alloc is not None else '?'} cells"
           + (" (identical polynomials)" if ok else " - NOT identical"
              + ("; " + "; ".join(problems) if problems else "")),
           construct="dest sizing")
    src = ast.unparse(jf.node).replace(" ", "")
    ok_r = "returnfsum(dest)/ode[-1,-1]" in src
    guard = "iflen(ode)<=1:" in src and "ifuse_state_dims<=0:" in src
    ctx.ob("D10.5", jf, jf.node, ok_r and guard,
           "J = fsum(dest) / (final time); degenerate results are handled "
           "before the kernel is called", construct="J = fsum/T",
           nontrivial=False)
