"""C07 - TTP error count (decided part: sign, scratch reset, coverage)."""
from __future__ import annotations

import ast
from typing import Any

from sa.cfg import CFG
from sa.lin import Lin, entails
from sa.report import Ctx
from sa.srcmodel import FuncInfo, func_body

MOD = "moptipyapps.ttp.errors"
PARAMS = ("home_streak_min", "home_streak_max", "away_streak_min",
          "away_streak_max", "separation_min", "separation_max")


class _Lin:
    """Linearises simple integer expressions over names."""

    def __init__(self) -> None:
        self.n = 0
        self.facts: list[Lin] = []

    def lin(self, e: ast.expr) -> Lin | None:
        if isinstance(e, ast.Constant) and isinstance(
                e.value, int) and not isinstance(e.value, bool):
            return Lin.const(e.value)
        if isinstance(e, ast.Name):
            return Lin.sym(e.id)
        if isinstance(e, ast.UnaryOp) and isinstance(e.op, ast.USub):
            v = self.lin(e.operand)
            return None if v is None else -v
        if isinstance(e, ast.BinOp) and isinstance(
                e.op, (ast.Add, ast.Sub)):
            a, b = self.lin(e.left), self.lin(e.right)
            if a is None or b is None:
                return None
            return a + b if isinstance(e.op, ast.Add) else a - b
        if isinstance(e, ast.Call) and isinstance(
                e.func, ast.Name) and e.func.id == "abs" and len(
                e.args) == 1:
            self.n += 1
            z = Lin.sym(f"abs#{self.n}")
            self.facts.append(z)
            inner = self.lin(e.args[0])
            if inner is not None:
                self.facts += [z - inner, z + inner]
            return z
        if isinstance(e, ast.Call) and isinstance(
                e.func, ast.Name) and e.func.id == "int" and len(
                e.args) == 1:
            return self.lin(e.args[0])
        return None

    def cond(self, t: ast.expr, truth: bool) -> list[Lin]:
        if isinstance(t, ast.UnaryOp) and isinstance(t.op, ast.Not):
            return self.cond(t.operand, not truth)
        if isinstance(t, ast.BoolOp):
            if isinstance(t.op, ast.And) == truth:
                out = []
                for v in t.values:
                    out += self.cond(v, truth)
                return out
            return []
        if isinstance(t, ast.Compare) and len(t.ops) == 1:
            a, b = self.lin(t.left), self.lin(t.comparators[0])
            if a is None or b is None:
                return []
            op = type(t.ops[0])
            if not truth:
                op = {ast.Lt: ast.GtE, ast.LtE: ast.Gt, ast.Gt: ast.LtE,
                      ast.GtE: ast.Lt, ast.Eq: ast.NotEq,
                      ast.NotEq: ast.Eq}.get(op, op)
            d = b - a
            if op is ast.Lt:
                return [d - 1]
            if op is ast.LtE:
                return [d]
            if op is ast.Gt:
                return [-d - 1]
            if op is ast.GtE:
                return [-d]
            if op is ast.Eq:
                return [d, -d]
        return []


class _Site:
    """One statement adding `value` to the counter (`c += v`, `c = c + v`)."""

    def __init__(self, stmt: ast.stmt, value: ast.expr) -> None:
        self.stmt = stmt
        self.value = value
        self.lineno = stmt.lineno
        self.col_offset = stmt.col_offset


def _shape_names(fi: FuncInfo) -> tuple[str, str]:
    """The names `days, teams = y.shape` binds."""
    yp = fi.params[0]
    for s in func_body(fi):
        if isinstance(s, ast.Assign) and isinstance(
                s.targets[0], ast.Tuple) and len(
                s.targets[0].elts) == 2 and all(
                isinstance(t, ast.Name) for t in s.targets[0].elts) \
                and ast.unparse(s.value) == f"{yp}.shape":
            a, b = s.targets[0].elts
            return a.id, b.id
    return "days", "teams"


def _added_amount(e: ast.expr | None, acc: str) -> ast.expr | None:
    """`acc + v` / `v + acc` -> v (v not mentioning acc), else None."""
    if isinstance(e, ast.BinOp) and isinstance(e.op, ast.Add):
        for a, b in ((e.left, e.right), (e.right, e.left)):
            if isinstance(a, ast.Name) and a.id == acc and not any(
                    isinstance(n, ast.Name) and n.id == acc
                    for n in ast.walk(b)):
                return b
    return None


def run(ctx: Ctx) -> None:
    ctx.explanation = (
        "D7.1 the error counter starts at 0, is only ever changed by "
        "`errors += t`, and every such t is proven non-negative under the "
        "guards on its path (linear entailment; abs() >= 0); D7.2 both "
        "scratch tables are reset by fill() before any of their cells is "
        "read or updated; D7.3 every constraint parameter flows into some "
        "error term; D7.4 AGREEMENT WITH THE DOCUMENTED RULES: the body of "
        "the per-(team, day) loop is normalised symbolically for each of "
        "the three reachable streak states and compared, for each input "
        "kind (bye / home game / away game) and on every consistent outcome "
        "of the comparisons it makes (mirror entry, streak limits, "
        "self-play, pair-index order, last meeting, separation limits - "
        "decision trees pruned by Fourier-Motzkin), with a reference step "
        "written down from rules 1-8 of the docstring: the counter, the "
        "streak flags and lengths and the cells of both tables must change "
        "identically; the scan visits every team's column over all days "
        "in ascending order from the no-streak state; the final double "
        "loop adds |h_ij + h_ji - D//(n-1)| + max(0, |h_ij - h_ji| - 1) for "
        "every unordered pair (rules 9, 10); D7.5 the end of a column "
        "closes the running streak. By induction over the scan the value "
        "returned is the documented per-rule count for every plan, hence 0 "
        "exactly for plans violating none of rules 1-10. D7.7 the declared "
        "upper bound, normalised to a polynomial over the instance fields, "
        "equals or is provably above the bound derived from the reference "
        "step (lemma L7 in DESIGN section 4: per (team, day) at most 1 + "
        "max(1, M-1) + S, per team M-1 at the end of the season, 2nD + "
        "nD/2 in the final summation), and is refuted when a witness plan "
        "family whose count is known in closed form scores more for a "
        "setting the Instance constructor accepts (polynomial evaluation, "
        "no execution). NOT decided: that rules 1-10 are the right "
        "definition of feasibility.")
    ctx.rule("D7.1", "errors >= 0: every increment is non-negative")
    ctx.rule("D7.2", "scratch tables reset before use")
    ctx.rule("D7.3", "every constraint parameter is consumed")
    repo = ctx.repo
    fi = repo.func(MOD, "count_errors")
    acc = None
    acc_init: Any = None
    rets0 = [r for r in ast.walk(fi.node) if isinstance(r, ast.Return)
             and r.value is not None]
    ret_names = {n.id for r in rets0 for n in ast.walk(r.value)
                 if isinstance(n, ast.Name) and n.id != "int"}
    for s in func_body(fi):
        if isinstance(s, (ast.Assign, ast.AnnAssign)) and isinstance(
                s.targets[0] if isinstance(s, ast.Assign) else s.target,
                ast.Name) and s.value is not None:
            nm = (s.targets[0] if isinstance(s, ast.Assign)
                  else s.target).id
            if nm in ret_names and acc is None:
                acc = nm
                acc_init = repo.const(fi.module, s.value)
    ctx.need(acc is not None, "count_errors: error accumulator")
    ctx.ob("D7.1", fi, fi.node, acc_init == 0,
           f"`{acc}` starts at 0" if acc_init == 0 else
           f"`{acc}` starts at {acc_init!r}, not at 0: a feasible plan "
           "would not score 0", construct="counter starts at zero")
    sites: list[tuple[_Site, list[tuple[ast.expr, bool]]]] = []
    others: list[ast.AST] = []

    def walk(stmts: list[ast.stmt], path: list[tuple[ast.expr, bool]]) \
            -> None:
        for s in stmts:
            if isinstance(s, ast.AugAssign) and isinstance(
                    s.target, ast.Name) and s.target.id == acc:
                if isinstance(s.op, ast.Add):
                    sites.append((_Site(s, s.value), list(path)))
                else:
                    others.append(s)
            elif isinstance(s, (ast.Assign, ast.AnnAssign)) and any(
                    isinstance(t, ast.Name) and t.id == acc for t in (
                        s.targets if isinstance(s, ast.Assign)
                        else [s.target])):
                amount = _added_amount(s.value, acc)
                if amount is not None and (isinstance(
                        s, ast.AnnAssign) or len(s.targets) == 1):
                    sites.append((_Site(s, amount), list(path)))
                elif repo.const(fi.module, s.value) != 0:
                    others.append(s)
            elif isinstance(s, ast.If):
                walk(s.body, path + [(s.test, True)])
                walk(s.orelse, path + [(s.test, False)])
            elif isinstance(s, (ast.For, ast.While)):
                walk(s.body, path)
    walk(func_body(fi), [])
    ctx.floor("error_increment_sites", len(sites), 12)
    ctx.ob("D7.1", fi, others[0] if others else fi.node, not others,
           f"`{acc}` starts at 0 and is only changed by `{acc} += ...`"
           if not others else f"`{ast.unparse(others[0])}` changes the "
           "counter other than by adding", construct="counter discipline")
    for s, path in sites:
        L = _Lin()
        goal = L.lin(s.value)
        facts = list(L.facts)
        # definitions of local temporaries used in the amount
        for p, truth in path:
            facts += L.cond(p, truth)
        facts += L.facts
        ok = goal is not None and entails(facts, goal)
        guards = " and ".join(
            ("" if t else "not ") + f"({ast.unparse(p)[:40]})"
            for p, t in path[-2:])
        ctx.ob("D7.1", fi, s.stmt, ok,
               f"`{ast.unparse(s.stmt)}` adds a non-negative amount under "
               f"[{guards}]" if ok else
               f"`{ast.unparse(s.stmt)}` may add a negative amount (guards: "
               f"{guards})", construct=f"increment {ast.unparse(s.value)}")
    rets = [r for r in ast.walk(fi.node) if isinstance(r, ast.Return)]
    ok_ret = len(rets) == 1 and ast.unparse(rets[0].value) in (
        f"int({acc})", acc)
    ctx.ob("D7.1", fi, rets[0] if rets else fi.node, ok_ret,
           "the counter itself is returned", construct="returned counter",
           nontrivial=False)
    # ---- D7.2
    cfg = CFG(fi.node)
    for arr, val in (("temp_1", -1), ("temp_2", 0)):
        def is_fill(n: Any, a: str = arr, v: int = val) -> bool:
            x = n.ast
            return n.kind == "stmt" and isinstance(
                x, ast.Expr) and isinstance(x.value, ast.Call) and \
                ast.unparse(x.value.func) == f"{a}.fill" and repo.const(
                    fi.module, x.value.args[0]) == v
        uses = [n for n in cfg.nodes if n.ast is not None and n.kind in (
            "stmt", "test") and not is_fill(n) and any(
            isinstance(x, ast.Subscript) and isinstance(
                x.value, ast.Name) and x.value.id == arr
            for x in ast.walk(n.ast))]
        ok = bool(uses) and all(cfg.dominated_by(u, is_fill) for u in uses)
        ctx.ob("D7.2", fi, fi.node, ok,
               f"{arr}.fill({val}) precedes all {len(uses)} uses of {arr} "
               "on every path" if ok else
               f"{arr} can be read before it is reset: values of an "
               "earlier evaluation would be counted",
               construct=f"{arr} reset")
    # ---- D7.3
    used: set[str] = set()
    for s, path in sites:
        used |= {n.id for n in ast.walk(s.value) if isinstance(n, ast.Name)}
        for p, _ in path:
            used |= {n.id for n in ast.walk(p) if isinstance(n, ast.Name)}
    gpc = None
    for s in ast.walk(fi.node):
        if isinstance(s, (ast.Assign, ast.AnnAssign)) and s.value is not None:
            tg = s.targets[0] if isinstance(s, ast.Assign) else s.target
            if isinstance(tg, ast.Name) and isinstance(
                    s.value, ast.BinOp) and isinstance(
                    s.value.op, ast.FloorDiv) and _shape_names(fi)[0] in {
                    n.id for n in ast.walk(s.value.left)
                    if isinstance(n, ast.Name)}:
                gpc = tg.id
    missing = [p for p in PARAMS if p not in used]
    ok = not missing and gpc is not None and gpc in used
    ctx.ob("D7.3", fi, fi.node, ok,
           "all six streak/separation limits and the games-per-pairing "
           "count appear in the guard or amount of an error term" if ok
           else f"never consumed by any error term: {missing}"
           + ("" if gpc in used else " and the games-per-pairing count"),
           construct="constraint parameters consumed")
    # byes and the two consistency tests
    ypar = fi.params[0]

    def _is_zero_test(p_: ast.expr, t_: bool) -> bool:
        """`x == 0` taken / `x != 0` not taken (either operand order)."""
        if not (isinstance(p_, ast.Compare) and len(p_.ops) == 1):
            return False
        sides = (p_.left, p_.comparators[0])
        if not any(repo.const(fi.module, x) == 0 and not isinstance(
                repo.const(fi.module, x), bool) for x in sides):
            return False
        return isinstance(p_.ops[0], ast.Eq if t_ else ast.NotEq)

    def _is_mirror_test(p_: ast.expr, t_: bool) -> bool:
        """`y[d, o] != id` taken / `y[d, o] == id` not taken."""
        if not (isinstance(p_, ast.Compare) and len(p_.ops) == 1
                and isinstance(p_.ops[0], ast.NotEq if t_ else ast.Eq)):
            return False
        return any(isinstance(x, ast.Subscript) and ast.unparse(
            x.value) == ypar and isinstance(x.slice, ast.Tuple)
            for x in (p_.left, p_.comparators[0]))
    bye = any(repo.const(fi.module, s_.value) == 1 and any(
        _is_zero_test(p_, t_) for p_, t_ in path) for s_, path in sites)
    cons = sum(1 for s_, path in sites
               if repo.const(fi.module, s_.value) == 1
               and any(_is_mirror_test(p_, t_) for p_, t_ in path))
    ctx.ob("D7.3", fi, fi.node, bye and cons == 2,
           "a bye counts one error; both opponent-consistency tests "
           "(home side and away side) count one error each" if bye and
           cons == 2 else f"bye site: {bye}; consistency sites: {cons}/2",
           construct="bye and consistency sites")
    # upper bound declared by the objective (shape only)
    ub = repo.func(MOD, "Errors.upper_bound")
    lb = repo.func(MOD, "Errors.lower_bound")
    okl = any(isinstance(r, ast.Return) and repo.const(
        lb.module, r.value) == 0 for r in ast.walk(lb.node))
    ctx.ob("D7.1", lb, lb.node, okl, "lower_bound() == 0",
           construct="lower bound", nontrivial=False)
    del ub
    ctx.rule("D7.4", "per-day step and final summation equal the documented "
             "rules on every outcome of their comparisons")
    ctx.rule("D7.5", "the end of the season ends the running streak")
    _step_agreement(ctx, fi)
    ctx.rule("D7.6", "the scratch tables can hold every day number")
    _scratch_type(ctx)
    _final_agreement(ctx, fi)
    _wiring(ctx, fi)
    _constructor_fields(ctx)
    from sa.checks import c07_bound
    c07_bound.check(ctx)


def _wiring(ctx: Ctx, k: FuncInfo) -> None:
    """`Errors.evaluate` hands the plan and, for every constraint parameter
    of the kernel, the instance's field of the same name to `count_errors`
    (the kernel is only the documented count *for the limits it is given*).
    """
    from sa.srcmodel import inline_locals
    repo = ctx.repo
    ev = repo.func(MOD, "Errors.evaluate")
    rets = [r for r in ast.walk(ev.node) if isinstance(r, ast.Return)
            and r.value is not None]
    call = None
    if len(rets) == 1:
        rv = inline_locals(ev.node, rets[0].value)
        while isinstance(rv, ast.Call) and isinstance(rv.func, ast.Name) \
                and rv.func.id == "int" and len(rv.args) == 1:
            rv = rv.args[0]
        if isinstance(rv, ast.Call) and repo.resolve_expr(
                ev.module, rv.func) is k:
            call = rv
    if call is None:
        ctx.ob("D7.3", ev, ev.node, False,
               "Errors.evaluate is not recognised as returning "
               f"{k.name}(...)", construct="evaluate wiring")
        return
    bound: dict[str, ast.expr] = {}
    for p_, a in zip(k.params, call.args):
        bound[p_] = a
    for kw in call.keywords:
        if kw.arg:
            bound[kw.arg] = kw.value
    plan = ev.params[1] if len(ev.params) > 1 else "x"
    problems: list[str] = []
    unknown: list[str] = []
    for pos, p_ in enumerate(k.params):
        a = bound.get(p_)
        if a is None:
            problems.append(f"parameter `{p_}` receives no argument")
            continue
        a = inline_locals(ev.node, a)
        if pos == 0:
            if not (isinstance(a, ast.Name) and a.id == plan):
                problems.append(f"the plan parameter `{p_}` receives "
                                f"`{ast.unparse(a)}`, not `{plan}`")
            continue
        if not isinstance(a, ast.Attribute):
            unknown.append(f"argument `{ast.unparse(a)[:60]}` for `{p_}` is "
                           "not recognised as an instance field")
            continue
        if a.attr.strip("_") != p_.strip("_"):
            if a.attr.strip("_") in {q.strip("_") for q in k.params}:
                problems.append(
                    f"field `{a.attr}` is passed as the kernel's `{p_}`")
            else:
                unknown.append(f"field `{a.attr}` passed as `{p_}` is not "
                               "recognised")
            continue
        base = ast.unparse(a.value)
        if p_.startswith("temp"):
            continue
        if base not in (f"{plan}.instance", f"{ev.params[0]}.instance"):
            unknown.append(f"`{ast.unparse(a)}` is not recognised as a field "
                           "of the plan's / the objective's instance")
    ok = not problems and not unknown
    ctx.ob("D7.3", ev, call, ok,
           f"all {len(k.params)} kernel parameters receive the plan, the "
           "instance's limits of the same name and the scratch tables"
           if ok else "; ".join(problems + (
               [] if problems else unknown)),
           construct="evaluate wiring")


# ------------------------------------------------------------------ D7.6
def _scratch_type(ctx: Ctx) -> None:
    """The scratch tables handed to count_errors store day numbers (0 ..
    days-1, with -1 for "never met") and meeting counts; their integer type
    must cover [-1, days - 1], days = (n - 1) * rounds.  The ranges are
    compared as values; a type taken from an attribute is looked up where
    that attribute is assigned."""
    from sa.kern import make_evaluator, py_calls
    from sa.srcmodel import inline_locals
    from sa.symterm import Env, Poly, Unsupported, show
    repo = ctx.repo
    cls = repo.cls(MOD, "Errors")
    init = cls.methods["__init__"]
    N, RD = Poly.var("N"), Poly.var("ROUNDS")
    need_hi = (N - Poly.const(1)) * RD - Poly.const(1)

    def range_of(call: ast.Call, fi: Any, subst: dict) -> Any:
        kw = {k.arg: k.value for k in call.keywords}
        a = kw.get("min_value", call.args[0] if call.args else None)
        b = kw.get("max_value", call.args[1] if len(call.args) > 1
                   else None)
        if a is None or b is None:
            return None
        ev = make_evaluator(repo, fi, extra_call=py_calls)
        ev.int_transparent = True
        env = Env()
        try:
            lo = ev.num(env, inline_locals(fi.node, a))
            hi = ev.num(env, inline_locals(fi.node, b))
        except Unsupported:
            try:            # the locals as opaque symbols
                lo, hi = ev.num(env, a), ev.num(env, b)
            except Unsupported:
                return None
        # the number of teams / rounds under any of their names
        m = {}
        for at in set(lo.atoms()) | set(hi.atoms()):
            txt = show(Poly.atom(at))
            if txt.endswith("n_cities") or txt in subst.get("n", ()) or \
                    (at[0] == "app" and at[1] == "len"):
                m[at] = N
            elif txt.endswith("rounds"):
                m[at] = RD
        return lo.subst(m), hi.subst(m)

    def is_rng(e: Any) -> bool:
        return isinstance(e, ast.Call) and ast.unparse(e.func).split(
            ".")[-1] == "int_range_to_dtype"
    problems: list[str] = []
    node: ast.AST = init.node
    n_alloc = 0
    for st in ast.walk(init.node):
        if not (isinstance(st, (ast.Assign, ast.AnnAssign)) and isinstance(
                getattr(st, "value", None), ast.Call) and ast.unparse(
                st.value.func) in ("np.empty", "np.zeros")):
            continue
        tg = st.targets[0] if isinstance(st, ast.Assign) else st.target
        if not (isinstance(tg, ast.Attribute) and "temp" in tg.attr):
            continue
        n_alloc += 1
        kw = {k.arg: k.value for k in st.value.keywords}
        d = kw.get("dtype", st.value.args[1] if len(st.value.args) > 1
                   else None)
        if d is None:
            problems.append(f"`{ast.unparse(tg)}` is allocated without an "
                            "integer type")
            node = st
            continue
        d = inline_locals(init.node, d)
        rng = None
        where = ""
        if is_rng(d):
            rng = range_of(d, init, {})
        elif ast.unparse(d) in ("int", "np.int64", "DEFAULT_INT"):
            continue
        elif isinstance(d, ast.Attribute):
            # the type stored in an attribute: where is it assigned?
            for fn in repo.all_funcs():
                for a_ in ast.walk(fn.node):
                    if isinstance(a_, ast.Assign) and isinstance(
                            a_.targets[0], ast.Attribute) and \
                            a_.targets[0].attr == d.attr and is_rng(
                            a_.value):
                        rng = range_of(a_.value, fn, {"n": ("n",)})
                        where = (f" (`{ast.unparse(d)}` = "
                                 f"{ast.unparse(a_.value)})")
        if rng is None:
            problems.append(f"the integer type `{ast.unparse(d)[:50]}` of "
                            f"`{ast.unparse(tg)}` is not recognised")
            node = st
            continue
        lo, hi = rng
        # symbols that are neither N nor ROUNDS: the team count of the
        # defining class (`n`)
        other = [a_ for a_ in set(lo.atoms()) | set(hi.atoms())
                 if Poly.atom(a_) not in (N, RD)]
        if other:
            m = {a_: N for a_ in other}
            lo, hi = lo.subst(m), hi.subst(m)
        from sa.casesplit import Splitter
        sp = Splitter(integer=True)
        facts = sp.facts_of(("le", Poly.const(2), N), True)[0] + \
            sp.facts_of(("le", Poly.const(1), RD), True)[0]
        from sa.lin import entails
        try:
            ok_lo = entails(facts, sp.lin(Poly.const(-1) - lo))
            ok_hi = entails(facts, sp.lin(hi - need_hi))
        except Unsupported:
            ok_lo = ok_hi = False
        if not (ok_lo and ok_hi):
            problems.append(
                f"`{ast.unparse(tg)}` has the integer type of [{show(lo)}, "
                f"{show(hi)}]{where}, which does not cover the day numbers "
                "-1 .. (n - 1) * rounds - 1 the kernel stores there: later "
                "days wrap around and meetings are mistaken for `never met`")
            node = st
    if n_alloc < 2:
        problems.append("the scratch tables of Errors are not allocated in "
                        "__init__ (not recognised)")
    ctx.ob("D7.6", init, node, not problems,
           "both scratch tables have an integer type covering -1 .. days-1"
           if not problems else "; ".join(dict.fromkeys(problems)),
           construct="scratch table type")


# ------------------------------------------------------------------ D7.4
def _step_agreement(ctx: Ctx, fi: FuncInfo) -> None:
    """The per-(team, day) step equals the documented rules, case by case."""
    from sa.casesplit import Splitter, describe
    from sa.kern import make_evaluator
    from sa.symterm import Env, Poly, Unsupported, _eq, ite, show, show_cond

    repo = ctx.repo
    body = func_body(fi)
    outer = next((s for s in body if isinstance(s, ast.For)), None)
    ctx.need(outer is not None, "count_errors: loop over the teams")
    inner = next((s for s in outer.body if isinstance(s, ast.For)), None)
    ctx.need(inner is not None, "count_errors: loop over the days")
    yp = fi.params[0]
    t1n = outer.target.id if isinstance(outer.target, ast.Name) else None
    ctx.need(t1n is not None, "count_errors: team loop variable")
    # ---- loop structure: all teams, the column of that team, days ascending
    shp = next((s for s in body if isinstance(s, ast.Assign) and isinstance(
        s.targets[0], ast.Tuple) and len(s.targets[0].elts) == 2 and all(
        isinstance(t, ast.Name) for t in s.targets[0].elts)
        and ast.unparse(s.value) == f"{yp}.shape"), None)
    days_n, teams_n = (t.id for t in shp.targets[0].elts) if shp is not \
        None else ("days", "teams")
    ok_outer = shp is not None and ast.unparse(outer.iter).replace(
        " ", "") == f"range({teams_n})"
    col = None
    for s in outer.body:
        if isinstance(s, (ast.Assign, ast.AnnAssign)) and s.value is not None \
                and ast.unparse(s.value).replace(" ", "") == \
                f"{yp}[:,{t1n}]":
            tg = s.targets[0] if isinstance(s, ast.Assign) else s.target
            col = tg.id if isinstance(tg, ast.Name) else None
    it = inner.iter
    col_src = f"{yp}[:,{t1n}]"
    ok_inner = isinstance(it, ast.Call) and ast.unparse(
        it.func) == "enumerate" and len(it.args) == 1 and not it.keywords \
        and (ast.unparse(it.args[0]).replace(" ", "") == col_src or (
            col is not None and ast.unparse(it.args[0]) == col)) \
        and isinstance(inner.target, ast.Tuple) and len(
        inner.target.elts) == 2 and all(
        isinstance(t, ast.Name) for t in inner.target.elts)
    day_body = list(inner.body)
    dayn = entn = None
    if ok_inner:
        dayn, entn = (t.id for t in inner.target.elts)
    elif isinstance(it, ast.Call) and ast.unparse(it.func) == "range" and \
            not it.keywords and ast.unparse(it).replace(" ", "") in (
            f"range({days_n})", f"range(0,{days_n})") and isinstance(
            inner.target, ast.Name):
        # the other spelling: for day in range(days): entry = y[day, team]
        dayn = inner.target.id
        binds = [b for b in inner.body if isinstance(
            b, (ast.Assign, ast.AnnAssign)) and getattr(
            b, "value", None) is not None and ast.unparse(b.value).replace(
            " ", "") in (f"{yp}[{dayn},{t1n}]", f"int({yp}[{dayn},{t1n}])")
            and isinstance(b.targets[0] if isinstance(b, ast.Assign)
                           else b.target, ast.Name)]
        if len(binds) == 1 and inner.body[0] is binds[0]:
            tg_ = binds[0].targets[0] if isinstance(
                binds[0], ast.Assign) else binds[0].target
            entn = tg_.id
            rebound = [n_ for b in inner.body[1:] for n_ in ast.walk(b)
                       if isinstance(n_, ast.Name) and isinstance(
                           n_.ctx, ast.Store) and n_.id in (entn, dayn)]
            if not rebound:
                day_body = list(inner.body[1:])
                ok_inner = True
    ctx.ob("D7.4", fi, outer, ok_outer and ok_inner,
           "every team's column of the plan is scanned over all days in "
           "ascending order" if ok_outer and ok_inner else
           "the scan is not `for team in range(teams): for day, entry in "
           "enumerate(y[:, team])`", construct="scan structure")
    if not (ok_outer and ok_inner):
        return
    ev = make_evaluator(repo, fi)
    ev.tolerant_loops = True
    base = Env()
    for a in (yp, "temp_1", "temp_2"):
        base.vars[a] = ("array", a)
    for p_ in fi.params:
        base.vars.setdefault(p_, Poly.var(p_))
    acc_n = next((n.id for r in ast.walk(fi.node) if isinstance(r, ast.Return)
                  and r.value is not None for n in ast.walk(r.value)
                  if isinstance(n, ast.Name) and n.id != "int"), "errors")
    base.vars[acc_n] = Poly.var("E")
    base.vars[days_n] = Poly.var("days")
    base.vars[teams_n] = Poly.var("teams")
    base.vars[t1n] = Poly.var("t1")
    base_keys = set(base.vars)
    try:
        pre = base.copy()
        for s in outer.body:
            if s is inner:
                break
            if isinstance(s, (ast.Assign, ast.AnnAssign)) and s.value is not \
                    None and ast.unparse(s.value).replace(
                    " ", "") == f"{yp}[:,{t1n}]":
                continue
            pre = ev.stmt(pre, s)
    except Unsupported as u:
        ctx.ob("D7.4", fi, u.node or outer, False,
               f"cannot normalise the per-team initialisation: {u}",
               construct="initial streak state")
        return
    flags = [k for k, v in pre.vars.items() if v in (("true",), ("false",))
             and k not in base_keys]
    hflag = aflag = hlen = alen = None
    # roles by behaviour: a home game (entry > 0) played outside any streak
    # raises the home flag and sets the home streak length to 1
    lens = [k for k, v in pre.vars.items() if k not in base_keys
            and k not in flags and isinstance(v, Poly)
            and v.const_value() is not None]
    if len(flags) == 2 and len(lens) >= 2:
        try:
            probe = pre.copy()
            for f in flags:
                probe.vars[f] = ("false",)
            for k in lens:
                probe.vars[k] = Poly.var("L$" + k)
            probe.vars[dayn] = Poly.var("day")
            probe.vars[entn] = Poly.var("T")
            pout = ev.block(probe, day_body)
            sp0 = Splitter()
            for sign, role in ((1, "h"), (-1, "a")):
                kf = sp0.facts_of(("lt", Poly.const(0), Poly.var("T").scale(
                    sign)), True)[0]
                up = [f for f in flags if sp0.decide(pout.vars[f], kf)
                      is True] if all(
                    isinstance(pout.vars[f], tuple) for f in flags) else []
                ones = []
                for k in lens:
                    try:
                        r = sp0.resolve(pout.vars[k], kf)
                    except Unsupported:
                        continue
                    if isinstance(r, Poly) and r.const_value() == 1:
                        ones.append(k)
                if len(up) == 1 and len(ones) == 1:
                    if role == "h":
                        hflag, hlen = up[0], ones[0]
                    else:
                        aflag, alen = up[0], ones[0]
        except Unsupported:
            pass
    if None in (hflag, aflag, hlen, alen) or hflag == aflag or hlen == alen:
        hflag = next((f for f in flags if "home" in f), None)
        aflag = next((f for f in flags if "away" in f), None)
        hlen = next((k for k in pre.vars if "home" in k and "len" in k),
                    None)
        alen = next((k for k in pre.vars if "away" in k and "len" in k),
                    None)
    ok_init = hflag is not None and aflag is not None and hlen is not None \
        and alen is not None and pre.vars[hflag] == ("false",) and \
        pre.vars[aflag] == ("false",)
    if not ok_init:
        ctx.notes.append(f"D7.4 init: flags={flags} hlen={hlen} alen={alen} "
                         f"vars={ {k: str(v) for k, v in pre.vars.items()} }")
    ctx.ob("D7.4", fi, outer, ok_init,
           "every team starts the season outside any streak" if ok_init else
           "the streak flags are not both False at the start of a team's "
           "column", construct="initial streak state")
    if not ok_init:
        return
    # ---- symbols and reference
    E, t1, day, T = (Poly.var(x) for x in ("E", "t1", "day", "T"))
    hl, al = Poly.var("hl"), Poly.var("al")
    P = {p_: Poly.var(p_) for p_ in PARAMS}
    one, zero = Poly.const(1), Poly.const(0)
    ok_tid = any(isinstance(v, Poly) and v == t1 + one
                 for k, v in pre.vars.items() if k not in base_keys)
    ctx.ob("D7.4", fi, outer, ok_tid,
           "team ids are column index + 1" if ok_tid else
           "the id a team is known by in the plan is not its column index "
           "+ 1", construct="team id")
    if not ok_tid:
        return

    def cell(arr: str, *idx: Poly) -> Poly:
        return Poly.atom(("cell", arr, tuple(idx)))

    def short(ln: Poly, mn: Poly) -> Poly:
        return ite(("lt", ln, mn), mn - ln, zero)

    def tri(x: Poly) -> Poly:
        return Poly.atom(("app", "floordiv", (x * x - x, Poly.const(2))))

    n_cases = 0
    problems: list[str] = []
    for sname, hf, af in (("no streak", False, False),
                          ("home streak", True, False),
                          ("away streak", False, True)):
        env = pre.copy()
        env.vars[hflag] = ("true",) if hf else ("false",)
        env.vars[aflag] = ("true",) if af else ("false",)
        env.vars[hlen] = hl
        env.vars[alen] = al
        env.vars[dayn] = day
        env.vars[entn] = T
        try:
            out = ev.block(env, day_body)
        except Unsupported as u:
            problems.append(f"[{sname}] cannot normalise the step: {u}")
            continue
        got_E = out.vars.get(acc_n)
        got = {"H": out.vars.get(hflag), "A": out.vars.get(aflag),
               "hl": out.vars.get(hlen), "al": out.vars.get(alen)}
        # ---------------- reference (documented rules 1-8), per input kind
        sp = Splitter()
        stores = dict(out.stores)
        arrs = sorted({k[0] for k in stores})
        if arrs != ["temp_1", "temp_2"] or len(stores) != 2:
            problems.append(
                f"[{sname}] the step updates "
                f"{sorted((k[0], len(k[1])) for k in stores)} - expected "
                "exactly one cell of temp_1 (last meeting day) and one of "
                "temp_2 (home games per pairing)")
            continue
        (k1, v1), = [(k, v) for k, v in stores.items() if k[0] == "temp_1"]
        (k2, v2), = [(k, v) for k, v in stores.items() if k[0] == "temp_2"]
        for kind, kfacts in (
                ("bye", sp.facts_of(_eq(T, zero), True)[0]),
                ("home game", sp.facts_of(("lt", zero, T), True)[0]),
                ("away game", sp.facts_of(("lt", T, zero), True)[0])):
            if kind == "bye":
                end = (short(al, P["away_streak_min"]) if af else zero) + (
                    short(hl, P["home_streak_min"]) if hf else zero)
                ref_E = E + one + end
                refH = refA = False
                ref_len = None
                ref_k1 = None
                ref_v2 = Poly.atom(("cell",) + k2)
            else:
                home = kind == "home game"
                other = (T - one) if home else (-T - one)
                want_cell = -(t1 + one) if home else (t1 + one)
                mirror = ite(_eq(cell(yp, day, other), want_cell), zero, one)
                cont = hf if home else af      # the own streak continues
                ln, mx = (hl, P["home_streak_max"]) if home else (
                    al, P["away_streak_max"])
                ends_other = (short(al, P["away_streak_min"]) if af else
                              zero) if home else (
                    short(hl, P["home_streak_min"]) if hf else zero)
                streak = ite(("lt", mx, ln + one), one, zero) if cont \
                    else ends_other
                idx = ite(("lt", other, t1), tri(t1) + other,
                          tri(other) + t1)
                last = cell("temp_1", idx)
                d = day - last - one
                amount = ite(("lt", d, P["separation_min"]),
                             P["separation_min"] - d,
                             ite(("lt", P["separation_max"], d),
                                 d - P["separation_max"], zero))
                sep = ite(_eq(other, t1), zero, ite(
                    ("le", zero, last), ite(("lt", last, day), amount, zero),
                    zero))
                ref_E = E + mirror + streak + sep
                refH, refA = home, not home
                ref_len = (ln + one) if cont else one
                ref_k1 = idx
                ref_v1 = ite(_eq(other, t1), Poly.atom(("cell",) + k1), ite(
                    ("le", zero, last), ite(("lt", last, day), day,
                                            Poly.atom(("cell",) + k1)), day))
                ref_v2 = (cell("temp_2", t1, other) + one) if home else \
                    Poly.atom(("cell",) + k2)
            comps: list[tuple[str, Any, Any]] = [
                ("the error counter", got_E, ref_E),
                ("the in-home-streak flag", got["H"],
                 ("true",) if refH else ("false",)),
                ("the in-away-streak flag", got["A"],
                 ("true",) if refA else ("false",))]
            if ref_len is not None:
                comps.append(("the running streak length",
                              got["hl"] if refH else got["al"], ref_len))
            comps.append(("the home-game table temp_2", v2, ref_v2))
            if kind == "home game":
                comps.append(("the temp_2 cell updated", k2[1],
                              (t1, T - one)))
            if ref_k1 is not None:
                comps.append(("the last-meeting table temp_1", v1, ref_v1))
                comps.append(("the temp_1 cell updated (pair index)",
                              k1[1][0], ite(_eq(other, t1), k1[1][0],
                                            ref_k1)))
            else:
                comps.append(("the last-meeting table temp_1", v1,
                              Poly.atom(("cell",) + k1)))
            for what, g, r in comps:
                try:
                    for facts, res, trail in sp.cases((g, r), list(kfacts)):
                        n_cases += 1
                        gg, rr = res
                        same = all(sp.equal(x, y_, facts) for x, y_ in zip(
                            gg, rr)) if isinstance(gg, tuple) and not \
                            (gg and isinstance(gg[0], str)) else \
                            sp.equal(gg, rr, facts)
                        if not same:
                            problems.append(
                                f"[{sname}, {kind}, "
                                f"{describe(trail)[:300]}]: {what} becomes "
                                f"{_sh(gg)} but the documented rules give "
                                f"{_sh(rr)}")
                            break
                except Unsupported as u:
                    problems.append(f"[{sname}, {kind}] {what}: case "
                                    f"analysis failed: {u}")
        # ---- at most one streak is open afterwards (inductive invariant)
    # ---- D7.5: the season's end ends the running streak as well
    tail = outer.body[outer.body.index(inner) + 1:]
    t_problems: list[str] = []
    for sname, hf, af in (("no streak", False, False),
                          ("home streak", True, False),
                          ("away streak", False, True)):
        env = pre.copy()
        env.vars[hflag] = ("true",) if hf else ("false",)
        env.vars[aflag] = ("true",) if af else ("false",)
        env.vars[hlen] = hl
        env.vars[alen] = al
        env.vars[acc_n] = E
        try:
            out = ev.block(env, tail) if tail else env
        except Unsupported as u:
            t_problems.append(f"[{sname}] cannot normalise: {u}")
            continue
        ref = E + (short(hl, P["home_streak_min"]) if hf else zero) + (
            short(al, P["away_streak_min"]) if af else zero)
        sp = Splitter()
        for facts, (g, r), trail in sp.cases((out.vars.get(acc_n), ref),
                                             sp.facts_of(("le", one, hl),
                                                         True)[0]
                                             + sp.facts_of(("le", one, al),
                                                           True)[0]):
            if not sp.equal(g, r, facts):
                t_problems.append(
                    f"[{sname}; {describe(trail)[:160]}]: after the last "
                    f"day the counter is {_sh(g)}, rule 3/5 gives {_sh(r)}")
    ctx.ob("D7.5", fi, tail[0] if tail else inner, not t_problems,
           "a streak still running after the last day is charged when it "
           "is shorter than its minimum (rules 3 and 5)" if not t_problems
           else "a home/away streak that is still running when the season "
           "ends is never compared with its minimum length: "
           + t_problems[0], construct="open streak at the end of the season",
           witness=None if not t_problems else {"problems": t_problems[:4]})
    ctx.count("step_cases", n_cases)
    ok = not problems and n_cases >= 30
    ctx.ob("D7.4", fi, inner, ok,
           f"in all {n_cases} consistent outcomes of the step's comparisons "
           "(3 streak states x bye/home/away x mirror entry x streak limits "
           "x self-play x separation table) the counter, the streak state "
           "and the two tables change exactly as documented rules 1-8 "
           "prescribe" if ok else
           f"{len(problems)} outcome(s) deviate from the documented rules, "
           "first: " + (problems[0] if problems else
                        f"only {n_cases} cases explored"),
           construct="per-day step vs documented rules",
           witness=None if ok else {"problems": problems[:6]})
    del show_cond, show


def _sh(v: Any) -> str:
    from sa.symterm import Poly, show, show_cond
    if isinstance(v, Poly):
        return show(v)[:200]
    if isinstance(v, tuple) and v and isinstance(v[0], str):
        return show_cond(v)[:200]
    if isinstance(v, tuple):
        return "(" + ", ".join(_sh(x) for x in v) + ")"
    return str(v)


def _final_agreement(ctx: Ctx, fi: FuncInfo) -> None:
    """Rules 9 and 10: the pairing counts summed after the scan."""
    from sa.casesplit import Splitter, describe
    from sa.kern import make_evaluator
    from sa.symterm import Env, Poly, Unsupported, ite

    repo = ctx.repo
    body = func_body(fi)
    loops = [s for s in body if isinstance(s, ast.For)]
    ctx.need(len(loops) >= 2, "count_errors: pairing summation loop")
    lp = loops[-1]
    inner = next((s for s in lp.body if isinstance(s, ast.For)), None)
    shp0 = next((s for s in body if isinstance(s, ast.Assign) and isinstance(
        s.targets[0], ast.Tuple) and len(s.targets[0].elts) == 2
        and ast.unparse(s.value) == f"{fi.params[0]}.shape"), None)
    teams0 = ast.unparse(shp0.targets[0].elts[1]) if shp0 is not None \
        else "teams"
    ok_nest = inner is not None and isinstance(
        lp.target, ast.Name) and isinstance(
        inner.target, ast.Name) and ast.unparse(lp.iter).replace(
        " ", "") == f"range({teams0})" and ast.unparse(inner.iter).replace(
        " ", "") == f"range({lp.target.id})" and len(lp.body) == 1
    ctx.ob("D7.4", fi, lp, ok_nest,
           "the pairing counts are summed over every unordered pair j < i "
           "< teams once" if ok_nest else
           "the summation does not visit every unordered pair once",
           construct="pairing summation loops")
    if not ok_nest:
        return
    ev = make_evaluator(repo, fi)
    env = Env()
    env.vars["temp_2"] = ("array", "temp_2")
    E, i, j = Poly.var("E"), Poly.var("i"), Poly.var("j")
    acc_n = next((n.id for r in ast.walk(fi.node) if isinstance(r, ast.Return)
                  and r.value is not None for n in ast.walk(r.value)
                  if isinstance(n, ast.Name) and n.id != "int"), "errors")
    yp_ = fi.params[0]
    shp = next((s for s in body if isinstance(s, ast.Assign) and isinstance(
        s.targets[0], ast.Tuple) and len(s.targets[0].elts) == 2
        and ast.unparse(s.value) == f"{yp_}.shape"), None)
    days_n, teams_n = (t.id for t in shp.targets[0].elts) if shp is not \
        None else ("days", "teams")
    env.vars.update({acc_n: E, lp.target.id: i, inner.target.id: j,
                     days_n: Poly.var("days"), teams_n: Poly.var("teams")})
    try:
        for s in body:
            if s is lp:
                break
            if isinstance(s, (ast.Assign, ast.AnnAssign)) and isinstance(
                    s.targets[0] if isinstance(s, ast.Assign) else s.target,
                    ast.Name) and (s.targets[0] if isinstance(
                        s, ast.Assign) else s.target).id not in (
                    acc_n, days_n, teams_n) and not any(
                    isinstance(x, ast.Attribute) for x in ast.walk(s.value)):
                env = ev.stmt(env, s)
        env.vars[acc_n] = E
        out = ev.block(env, inner.body)
    except Unsupported as u:
        ctx.ob("D7.4", fi, u.node or lp, False,
               f"cannot normalise the pairing summation: {u}",
               construct="pairing summation vs rules 9/10")
        return
    got = out.vars.get(acc_n)

    def cell(a: Poly, b: Poly) -> Poly:
        return Poly.atom(("cell", "temp_2", (a, b)))

    def ab(p: Poly) -> Poly:
        return ite(("lt", p, Poly.const(0)), -p, p)
    one = Poly.const(1)
    G = Poly.atom(("app", "floordiv", (Poly.var("days"),
                                       Poly.var("teams") - one)))
    ij, ji = cell(i, j), cell(j, i)
    dd = ab(ij - ji)
    ref = E + ab(ij + ji - G) + ite(("lt", one, dd), dd - one, Poly.const(0))
    # the code's abs() is an application atom: rewrite it as a conditional
    def unabs(p: Any) -> Any:
        if not isinstance(p, Poly):
            return p
        sub = {}
        for a in p.atoms():
            if a[0] == "app" and a[1] == "abs":
                sub[a] = ab(unabs(a[2][0]))
            elif a[0] == "ite":
                sub[a] = ite(_unabs_c(a[1]), unabs(a[2]), unabs(a[3]))
        return p.subst(sub) if sub else p

    def _unabs_c(c: tuple) -> tuple:
        if c[0] in ("lt", "le", "eq"):
            return (c[0], unabs(c[1]), unabs(c[2]))
        if c[0] in ("not", "and", "or"):
            return (c[0],) + tuple(_unabs_c(x) for x in c[1:])
        return c
    sp = Splitter()
    problems = []
    n = 0
    try:
        for facts, (g, r), trail in sp.cases((unabs(got), ref)):
            n += 1
            if not sp.equal(g, r, facts):
                problems.append(f"[{describe(trail)[:200]}]: the counter "
                                f"becomes {_sh(g)}, rules 9/10 give "
                                f"{_sh(r)}")
    except Unsupported as u:
        problems.append(f"case analysis failed: {u}")
    ctx.count("summation_cases", n)
    ok = not problems and n >= 4
    ctx.ob("D7.4", fi, inner, ok,
           f"for every pair the counter grows by |h_ij + h_ji - D//(n-1)| + "
           f"max(0, |h_ij - h_ji| - 1) ({n} sign cases)" if ok else
           "the pairing summation deviates from rules 9/10: "
           + (problems[0] if problems else f"only {n} cases"),
           construct="pairing summation vs rules 9/10")



def _constructor_fields(ctx: Ctx) -> None:
    """D7.3 continued: the limits that `Errors.evaluate` reads from the
    instance are the ones the constructor was given: every statement
    `obj.F = <validated> P` of `Instance.__new__` whose field F carries the
    name of a constructor parameter stores that very parameter (siblings:
    six `obj.X = check_int_range(X, "X", ...)` lines)."""
    repo = ctx.repo
    fi = repo.func("moptipyapps.ttp.instance", "Instance.__new__")
    params = set(fi.params)
    n = 0
    from sa.srcmodel import inline_locals
    pairs: list[tuple[ast.stmt, ast.Attribute, ast.expr]] = []
    for st in ast.walk(fi.node):
        if not isinstance(st, (ast.Assign, ast.AnnAssign)) or getattr(
                st, "value", None) is None:
            continue
        for tg in (st.targets if isinstance(st, ast.Assign)
                   else [st.target]):
            if isinstance(tg, ast.Attribute):
                pairs.append((st, tg, st.value))
            elif isinstance(tg, ast.Tuple) and isinstance(
                    st.value, ast.Tuple) and len(tg.elts) == len(
                    st.value.elts):
                pairs += [(st, t_, v_) for t_, v_ in zip(
                    tg.elts, st.value.elts) if isinstance(t_, ast.Attribute)]
    for st, tg, v in pairs:
        if not isinstance(tg.value, ast.Name):
            continue
        fld = tg.attr
        if fld not in params:
            continue
        v = inline_locals(fi.node, v)
        label = None
        if isinstance(v, ast.Call) and v.args and ast.unparse(
                v.func).endswith("check_int_range"):
            if len(v.args) > 1 and isinstance(v.args[1], ast.Constant):
                label = v.args[1].value
            v = inline_locals(fi.node, v.args[0])
        if not isinstance(v, ast.Name):
            continue
        n += 1
        cross = v.id in params and v.id != fld
        ctx.ob("D7.3", fi, st, not cross,
               f"obj.{fld} stores the constructor argument `{v.id}`"
               + (f" (validated under the label {label!r})" if label else "")
               if not cross else
               f"obj.{fld} stores the constructor argument `{v.id}`, not "
               f"`{fld}`: the error count and its bound use another limit "
               "than the one the instance was created with",
               construct=f"constructor field {fld}")
    ctx.floor("constructor_limit_fields", n, 6)
