"""C07 - TTP error count (decided part: sign, scratch reset, coverage)."""
from __future__ import annotations

import ast
from typing import Any

from sa.cfg import CFG
from sa.lin import Lin, entails
from sa.report import Ctx
from sa.srcmodel import FuncInfo, func_body

MOD = "moptipyapps.ttp.errors"
PARAMS = ("home_streak_min", "home_streak_max", "away_streak_min",
          "away_streak_max", "separation_min", "separation_max")


class _Lin:
    """Linearises simple integer expressions over names."""

    def __init__(self) -> None:
        self.n = 0
        self.facts: list[Lin] = []

    def lin(self, e: ast.expr) -> Lin | None:
        if isinstance(e, ast.Constant) and isinstance(
                e.value, int) and not isinstance(e.value, bool):
            return Lin.const(e.value)
        if isinstance(e, ast.Name):
            return Lin.sym(e.id)
        if isinstance(e, ast.UnaryOp) and isinstance(e.op, ast.USub):
            v = self.lin(e.operand)
            return None if v is None else -v
        if isinstance(e, ast.BinOp) and isinstance(
                e.op, (ast.Add, ast.Sub)):
            a, b = self.lin(e.left), self.lin(e.right)
            if a is None or b is None:
                return None
            return a + b if isinstance(e.op, ast.Add) else a - b
        if isinstance(e, ast.Call) and isinstance(
                e.func, ast.Name) and e.func.id == "abs" and len(
                e.args) == 1:
            self.n += 1
            z = Lin.sym(f"abs#{self.n}")
            self.facts.append(z)
            inner = self.lin(e.args[0])
            if inner is not None:
                self.facts += [z - inner, z + inner]
            return z
        if isinstance(e, ast.Call) and isinstance(
                e.func, ast.Name) and e.func.id == "int" and len(
                e.args) == 1:
            return self.lin(e.args[0])
        return None

    def cond(self, t: ast.expr, truth: bool) -> list[Lin]:
        if isinstance(t, ast.UnaryOp) and isinstance(t.op, ast.Not):
            return self.cond(t.operand, not truth)
        if isinstance(t, ast.BoolOp):
            if isinstance(t.op, ast.And) == truth:
                out = []
                for v in t.values:
                    out += self.cond(v, truth)
                return out
            return []
        if isinstance(t, ast.Compare) and len(t.ops) == 1:
            a, b = self.lin(t.left), self.lin(t.comparators[0])
            if a is None or b is None:
                return []
            op = type(t.ops[0])
            if not truth:
                op = {ast.Lt: ast.GtE, ast.LtE: ast.Gt, ast.Gt: ast.LtE,
                      ast.GtE: ast.Lt, ast.Eq: ast.NotEq,
                      ast.NotEq: ast.Eq}.get(op, op)
            d = b - a
            if op is ast.Lt:
                return [d - 1]
            if op is ast.LtE:
                return [d]
            if op is ast.Gt:
                return [-d - 1]
            if op is ast.GtE:
                return [-d]
            if op is ast.Eq:
                return [d, -d]
        return []


def run(ctx: Ctx) -> None:
    ctx.explanation = (
        "NARROW. Decided: D7.1 the error counter starts at 0, is only ever "
        "changed by `errors += t`, and every such t is proven non-negative "
        "under the guards on its path (linear entailment; abs() >= 0), so "
        "the objective is non-negative; D7.2 both scratch tables are reset "
        "by fill() before any of their cells is read or updated; D7.3 every "
        "constraint parameter (home/away streak min/max, separation "
        "min/max, games per pairing) flows into the guard or the amount of "
        "at least one error term, byes and both opponent-consistency tests "
        "each have an error site. NOT decided: 'zero iff feasible', the "
        "per-rule counts, the upper bound (4D-1)n-1 - these are properties "
        "of a streak/separation state machine over all plans.")
    ctx.rule("D7.1", "errors >= 0: every increment is non-negative")
    ctx.rule("D7.2", "scratch tables reset before use")
    ctx.rule("D7.3", "every constraint parameter is consumed")
    repo = ctx.repo
    fi = repo.func(MOD, "count_errors")
    acc = None
    for s in func_body(fi):
        if isinstance(s, (ast.Assign, ast.AnnAssign)) and isinstance(
                s.targets[0] if isinstance(s, ast.Assign) else s.target,
                ast.Name) and repo.const(fi.module, s.value) == 0:
            nm = (s.targets[0] if isinstance(s, ast.Assign)
                  else s.target).id
            rets = [r for r in ast.walk(fi.node)
                    if isinstance(r, ast.Return)]
            if any(nm in ast.unparse(r.value) for r in rets):
                acc = nm
    ctx.need(acc is not None, "count_errors: error accumulator")
    sites: list[tuple[ast.AugAssign, list[tuple[ast.expr, bool]]]] = []
    others: list[ast.AST] = []

    def walk(stmts: list[ast.stmt], path: list[tuple[ast.expr, bool]]) \
            -> None:
        for s in stmts:
            if isinstance(s, ast.AugAssign) and isinstance(
                    s.target, ast.Name) and s.target.id == acc:
                if isinstance(s.op, ast.Add):
                    sites.append((s, list(path)))
                else:
                    others.append(s)
            elif isinstance(s, (ast.Assign, ast.AnnAssign)) and any(
                    isinstance(t, ast.Name) and t.id == acc for t in (
                        s.targets if isinstance(s, ast.Assign)
                        else [s.target])):
                if repo.const(fi.module, s.value) != 0:
                    others.append(s)
            elif isinstance(s, ast.If):
                walk(s.body, path + [(s.test, True)])
                walk(s.orelse, path + [(s.test, False)])
            elif isinstance(s, (ast.For, ast.While)):
                walk(s.body, path)
    walk(func_body(fi), [])
    ctx.floor("error_increment_sites", len(sites), 12)
    ctx.ob("D7.1", fi, others[0] if others else fi.node, not others,
           f"`{acc}` starts at 0 and is only changed by `{acc} += ...`"
           if not others else f"`{ast.unparse(others[0])}` changes the "
           "counter other than by adding", construct="counter discipline")
    for s, path in sites:
        L = _Lin()
        goal = L.lin(s.value)
        facts = list(L.facts)
        # definitions of local temporaries used in the amount
        for p, truth in path:
            facts += L.cond(p, truth)
        facts += L.facts
        ok = goal is not None and entails(facts, goal)
        guards = " and ".join(
            ("" if t else "not ") + f"({ast.unparse(p)[:40]})"
            for p, t in path[-2:])
        ctx.ob("D7.1", fi, s, ok,
               f"`{ast.unparse(s)}` adds a non-negative amount under "
               f"[{guards}]" if ok else
               f"`{ast.unparse(s)}` may add a negative amount (guards: "
               f"{guards})", construct=f"increment {ast.unparse(s.value)}")
    rets = [r for r in ast.walk(fi.node) if isinstance(r, ast.Return)]
    ok_ret = len(rets) == 1 and ast.unparse(rets[0].value) in (
        f"int({acc})", acc)
    ctx.ob("D7.1", fi, rets[0] if rets else fi.node, ok_ret,
           "the counter itself is returned", construct="returned counter",
           nontrivial=False)
    # ---- D7.2
    cfg = CFG(fi.node)
    for arr, val in (("temp_1", -1), ("temp_2", 0)):
        def is_fill(n: Any, a: str = arr, v: int = val) -> bool:
            x = n.ast
            return n.kind == "stmt" and isinstance(
                x, ast.Expr) and isinstance(x.value, ast.Call) and \
                ast.unparse(x.value.func) == f"{a}.fill" and repo.const(
                    fi.module, x.value.args[0]) == v
        uses = [n for n in cfg.nodes if n.ast is not None and n.kind in (
            "stmt", "test") and not is_fill(n) and any(
            isinstance(x, ast.Subscript) and isinstance(
                x.value, ast.Name) and x.value.id == arr
            for x in ast.walk(n.ast))]
        ok = bool(uses) and all(cfg.dominated_by(u, is_fill) for u in uses)
        ctx.ob("D7.2", fi, fi.node, ok,
               f"{arr}.fill({val}) precedes all {len(uses)} uses of {arr} "
               "on every path" if ok else
               f"{arr} can be read before it is reset: values of an "
               "earlier evaluation would be counted",
               construct=f"{arr} reset")
    # ---- D7.3
    used: set[str] = set()
    for s, path in sites:
        used |= {n.id for n in ast.walk(s.value) if isinstance(n, ast.Name)}
        for p, _ in path:
            used |= {n.id for n in ast.walk(p) if isinstance(n, ast.Name)}
    gpc = None
    for s in ast.walk(fi.node):
        if isinstance(s, (ast.Assign, ast.AnnAssign)) and s.value is not None:
            tg = s.targets[0] if isinstance(s, ast.Assign) else s.target
            if isinstance(tg, ast.Name) and isinstance(
                    s.value, ast.BinOp) and isinstance(
                    s.value.op, ast.FloorDiv) and "days" in ast.unparse(
                    s.value.left):
                gpc = tg.id
    missing = [p for p in PARAMS if p not in used]
    ok = not missing and gpc is not None and gpc in used
    ctx.ob("D7.3", fi, fi.node, ok,
           "all six streak/separation limits and the games-per-pairing "
           "count appear in the guard or amount of an error term" if ok
           else f"never consumed by any error term: {missing}"
           + ("" if gpc in used else " and the games-per-pairing count"),
           construct="constraint parameters consumed")
    # byes and the two consistency tests
    src_sites = [(ast.unparse(s.value), [ast.unparse(p) for p, t in path
                                         if t]) for s, path in sites]
    bye = any(v == "1" and any("== 0" in g for g in gs)
              for v, gs in src_sites)
    cons = sum(1 for v, gs in src_sites if v == "1" and any(
        g.startswith("y[day, team_2] !=") for g in gs))
    ctx.ob("D7.3", fi, fi.node, bye and cons == 2,
           "a bye counts one error; both opponent-consistency tests "
           "(home side and away side) count one error each" if bye and
           cons == 2 else f"bye site: {bye}; consistency sites: {cons}/2",
           construct="bye and consistency sites")
    # upper bound declared by the objective (shape only)
    ub = repo.func(MOD, "Errors.upper_bound")
    lb = repo.func(MOD, "Errors.lower_bound")
    okl = any(isinstance(r, ast.Return) and repo.const(
        lb.module, r.value) == 0 for r in ast.walk(lb.node))
    ctx.ob("D7.1", lb, lb.node, okl, "lower_bound() == 0",
           construct="lower bound", nontrivial=False)
    del ub
