"""C03 D3.2 - the Dell'Amico-Martello-Vigo bound agrees with its definition.

The validity of the bound is a theorem of the cited paper (Dell'Amico,
Martello, Vigo 2002, equations 2-7 and theorem 3, as named in the comments
of `__lb_q`).  What is decided here is that the code *is* that bound: the
classification of the squares into S1..S4 and S23, the greedy pairing that
yields S3 - ^S3, and the closed formula of L(q) are normalised symbolically
and compared with a transcription of the definitions, on every outcome of
the comparisons involved (case splitting, exact Fourier-Motzkin pruning).
"""
from __future__ import annotations

import ast
from fractions import Fraction
from typing import Any

from sa.casesplit import Splitter, describe
from sa.kern import make_evaluator, py_calls
from sa.report import Ctx
from sa.srcmodel import FuncInfo, func_body
from sa.symterm import (Env, Evaluator, Poly, Unsupported, ite,
                        map_atom, show, show_cond)

INST = "moptipyapps.binpacking2d.instance"
ONE, ZERO = Poly.const(1), Poly.const(0)


def _app(fn: str, *a: Poly) -> Poly:
    return Poly.atom(("app", fn, tuple(a)))


def fd(a: Poly, b: Poly) -> Poly:
    return _app("floordiv", a, b)


def ceil_div(a: Poly, b: Poly) -> Poly:
    """Canonical exact ceiling of a / b for positive integers b."""
    return fd(a + b - ONE, b)


def _tname(s: ast.stmt) -> str | None:
    if isinstance(s, ast.Assign) and len(s.targets) == 1 and isinstance(
            s.targets[0], ast.Name):
        return s.targets[0].id
    if isinstance(s, ast.AnnAssign) and isinstance(s.target, ast.Name) \
            and s.value is not None:
        return s.target.id
    return None


# ------------------------------------------------------------ canonical sums
def sum_term(roles: frozenset[str], elt: Poly, var: Poly) -> Poly:
    """sum over the squares in `roles` of elt(l), linear in the monomials."""
    va = var.as_atom()
    out = ZERO
    for mono, c in elt.terms.items():
        dep = tuple((a, e) for a, e in mono if a == va)
        free = tuple((a, e) for a, e in mono if a != va)
        d = Poly({dep: Fraction(1)})
        f = Poly({free: Fraction(c)})
        out = out + f * _app("sum:" + "+".join(sorted(roles)), d)
    return out


class Canon:
    """Rewrites ceiling idioms to floordiv(a + b - 1, b), sorts max args."""

    def __init__(self) -> None:
        from sa.checks.c03 import is_exact_ceil
        self.is_exact_ceil = is_exact_ceil

    def poly(self, p: Any) -> Any:
        if not isinstance(p, Poly):
            return p
        sub = {}
        for a in p.atoms():
            r = self.atom(a)
            if not (r.as_atom() == a):
                sub[a] = r
        p = p.subst(sub) if sub else p
        # -floordiv(-a, b)  ==  ceil(a / b)
        sub = {}
        for mono, c in p.terms.items():
            if len(mono) == 1 and mono[0][1] == 1 and c == -1:
                a = mono[0][0]
                if a[0] == "app" and a[1] == "floordiv":
                    sub[a] = -ceil_div(-a[2][0], a[2][1])
        return p.subst(sub) if sub else p

    def cond(self, c: tuple) -> tuple:
        if c[0] in ("lt", "le", "eq"):
            return (c[0], self.poly(c[1]), self.poly(c[2]))
        if c[0] in ("not", "and", "or"):
            return (c[0],) + tuple(self.cond(x) for x in c[1:])
        return c

    def atom(self, a: tuple) -> Poly:
        if a[0] == "ite":
            t = Poly.atom(a)
            # is this conditional an exact ceiling of A / B?
            for f in sorted((x for x in _all_atoms(t) if x[0] == "app"
                             and x[1] == "floordiv"), key=repr):
                A, B = f[2]
                try:
                    if self.is_exact_ceil(t, A, B):
                        return ceil_div(self.poly(A), self.poly(B))
                except (Unsupported, TypeError):
                    pass
            return ite(self.cond(a[1]), self.poly(a[2]), self.poly(a[3]))
        if a[0] == "app":
            args = tuple(self.poly(x) for x in a[2])
            if a[1] in ("max", "min"):
                args = tuple(sorted(args, key=repr))
            if a[1] == "ceil_div" and len(args) == 2:
                return ceil_div(*args)
            return Poly.atom(("app", a[1], args))
        if a[0] == "cell":
            return Poly.atom(("cell", a[1], tuple(self.poly(x)
                                                  for x in a[2])))
        return Poly.atom(a)


def _all_atoms(p: Any) -> set:
    from sa.symterm import all_atoms
    return all_atoms(p)


# --------------------------------------------------------------------- check
def run_damv(ctx: Ctx) -> None:
    ctx.rule("D3.2", "the Dell'Amico-Martello-Vigo bound is computed as "
             "defined (sets S1..S4, S23, S3-^S3, L(q), range of q, "
             "orientation, CUTSQ)")
    repo = ctx.repo
    from sa.srcmodel import normalised
    fi = normalised(repo, repo.func(INST, "__lb_q"))
    ctx.need(len(fi.params) == 4, "__lb_q(bin_width, bin_height, q, j_js)")
    wn, hn, qn, ln = fi.params
    W, H, Q, L = (Poly.var(x) for x in ("W", "H", "q", "l"))
    body = func_body(fi)
    roles: dict[str, str] = {}          # list variable -> role

    def hook(ev: Evaluator, env: Env, n: ast.Call) -> Any:
        f = n.func
        if isinstance(f, ast.Name) and f.id == "len" and len(
                n.args) == 1 and isinstance(n.args[0], ast.Name):
            nm = n.args[0].id
            if nm in roles:
                return _app("len:" + roles[nm])
            if nm == ln:
                return _app("len:J")
        if isinstance(f, ast.Name) and f.id == "sum" and len(
                n.args) == 1 and isinstance(n.args[0], (
                    ast.GeneratorExp, ast.ListComp)):
            g = n.args[0]
            if len(g.generators) != 1 or g.generators[0].ifs or \
                    not isinstance(g.generators[0].target, ast.Name):
                raise Unsupported("sum over a filtered/nested generator", n)
            src = _src_roles(g.generators[0].iter)
            if src is None:
                raise Unsupported("sum over an unknown collection", n)
            e2 = env.copy()
            iv = Poly.var("@i")
            e2.vars[g.generators[0].target.id] = iv
            elt = ev.num(e2, g.elt)
            # the squares' sides are read as j_js[@i]
            side = Poly.atom(("cell", "J", (iv,)))
            elt = elt.subst({side.as_atom(): L})
            if iv.as_atom() in _all_atoms(elt):
                raise Unsupported("sum element uses the index itself", n)
            return sum_term(src, elt, L)
        r = py_calls(ev, env, n)
        return r

    from sa.srcmodel import single_assignments
    once = single_assignments(fi.node)

    def _src_roles(e: ast.expr, depth: int = 0) -> frozenset[str] | None:
        if isinstance(e, ast.Name):
            if e.id in roles:
                return frozenset([roles[e.id]])
            # a temporary that names a concatenation of the sets
            if e.id in once and depth < 4 and isinstance(
                    once[e.id], (ast.BinOp, ast.Name)):
                return _src_roles(once[e.id], depth + 1)
            return None
        if isinstance(e, ast.BinOp) and isinstance(e.op, ast.Add):
            a, b = _src_roles(e.left), _src_roles(e.right)
            if a is None or b is None or a & b:
                return None
            return a | b
        return None

    ev = make_evaluator(repo, fi, extra_call=hook)
    ev.int_transparent = True
    env = Env()
    env.vars[ln] = ("array", "J")
    env.vars.update({wn: W, hn: H, qn: Q})
    side_facts_src = [("le", ZERO, Q), ("le", Q.scale(2), H), ("le", H, W),
                      ("le", ONE, L), ("le", ONE, H)]
    # ---- scalar prefix
    cls_loop = None
    for s in body:
        if isinstance(s, ast.For):
            cls_loop = s
            break
        nm = _tname(s)
        if nm is not None:
            try:
                env = ev.stmt(env, s)
            except Unsupported:
                pass
    ctx.need(cls_loop is not None, "__lb_q: classification loop")
    # ---- A. classification cascade
    from sa.srcmodel import inline_locals
    lenv = env.copy()
    iv = Poly.var("i")
    idx_name = None
    ok_range = False
    if isinstance(cls_loop.target, ast.Name):
        # for i in range(len(j_js))
        idx_name = cls_loop.target.id
        ok_range = ast.unparse(inline_locals(
            fi.node, cls_loop.iter)).replace(" ", "") == f"range(len({ln}))"
    elif isinstance(cls_loop.target, ast.Tuple) and len(
            cls_loop.target.elts) == 2 and all(isinstance(
                t, ast.Name) for t in cls_loop.target.elts):
        # for i, l_i in enumerate(j_js)
        idx_name = cls_loop.target.elts[0].id
        ok_range = ast.unparse(cls_loop.iter).replace(
            " ", "") == f"enumerate({ln})"
        lenv.vars[cls_loop.target.elts[1].id] = Poly.atom(
            ("cell", "J", (iv,)))
    if idx_name is not None:
        lenv.vars[idx_name] = iv
    chain: list[tuple[tuple, list[ast.stmt]]] = []
    problems: list[str] = []
    try:
        cur: list[ast.stmt] = list(cls_loop.body)
        pc: tuple = ("true",)
        while cur:
            s = cur.pop(0)
            if isinstance(s, ast.If):
                c = ev.cond(lenv, s.test)
                c = map_atom(c, lambda p: p.subst({
                    ("cell", "J", (iv,)): L}))
                chain.append((("and", pc, c) if pc != ("true",) else c,
                              s.body))
                pc = ("and", pc, ("not", c)) if pc != ("true",) else \
                    ("not", c)
                if not s.orelse:
                    chain.append((pc, []))
                    break
                if len(s.orelse) == 1 and isinstance(s.orelse[0], ast.If):
                    cur = [s.orelse[0]]
                else:
                    chain.append((pc, s.orelse))
                    break
            else:
                lenv = ev.stmt(lenv, s)
    except Unsupported as u:
        problems.append(f"cannot normalise the classification: {u}")
    refs = {
        "S1": ("lt", W - Q, L),
        "S2": ("and", ("le", L, W - Q), ("lt", W, L.scale(2))),
        "S3": ("and", ("le", L.scale(2), W), ("lt", H, L.scale(2))),
        "S4": ("and", ("le", L.scale(2), H), ("le", Q, L)),
    }
    sp = Splitter()
    side = []
    for c in side_facts_src:
        side += sp.facts_of(c, True)[0]

    def equivalent(c1: tuple, c2: tuple) -> str | None:
        for facts, (a, b), trail in sp.cases((c1, c2), list(side)):
            if a != b:
                return describe(trail)
        return None

    def appended(stmts: list[ast.stmt]) -> str | None:
        names = [st.value.func.value.id for st in stmts
                 if isinstance(st, ast.Expr) and isinstance(
                     st.value, ast.Call) and isinstance(
                     st.value.func, ast.Attribute)
                 and st.value.func.attr == "append" and isinstance(
                     st.value.func.value, ast.Name) and len(
                     st.value.args) == 1 and isinstance(
                     st.value.args[0], ast.Name)
                 and st.value.args[0].id == idx_name]
        return names[0] if len(names) == 1 and len(stmts) == 1 else None
    rest_cond = None
    rest_body: list[ast.stmt] = []
    if not problems:
        for cond, stmts in chain:
            nm = appended(stmts)
            if nm is None:
                rest_cond, rest_body = cond, stmts
                continue
            hit = [r for r, rc in refs.items()
                   if equivalent(cond, rc) is None]
            if len(hit) == 1 and hit[0] not in roles.values():
                roles[nm] = hit[0]
            else:
                problems.append(
                    f"squares appended to `{nm}` under [{show_cond(cond)}] "
                    "are none of S1 (l > W-q), S2 (W-q >= l > W/2), S3 "
                    "(W/2 >= l > H/2), S4 (H/2 >= l >= q)")
        missing = sorted(set(refs) - set(roles.values()))
        if missing and not problems:
            problems.append(f"no list is recognised as receiving the "
                            f"squares of {missing} (not recognised)")
        if rest_cond is not None and not problems:
            w = equivalent(rest_cond, ("lt", L, Q))
            ok_rest = w is None and all(isinstance(
                st, (ast.Break, ast.Continue, ast.Pass))
                for st in rest_body)
            if not ok_rest:
                problems.append("the remaining squares (l < q) are not "
                                "simply skipped")
    okA = not problems and ok_range
    ctx.ob("D3.2", fi, cls_loop, okA,
           "every square is classified exactly as in equations 2-5: "
           + ", ".join(f"{v} = {k}" for k, v in sorted(
               roles.items(), key=lambda kv: kv[1])) if okA else
           "classification of the squares deviates from equations 2-5: "
           + (problems[0] if problems else "loop does not visit all squares"),
           construct="sets S1..S4")
    if not okA:
        return
    rname = {v: k for k, v in roles.items()}
    # the early `break` needs the squares in non-increasing order
    cq = repo.func(INST, "__cutsq")
    sorts = [n for n in ast.walk(cq.node) if isinstance(n, ast.Call)
             and ((isinstance(n.func, ast.Attribute)
                   and n.func.attr == "sort")
                  or (isinstance(n.func, ast.Name)
                      and n.func.id == "sorted"))
             and any(k.arg == "reverse" and repo.const(
                 cq.module, k.value) is True for k in n.keywords)]
    # `sorted(..)` counts when it is what the function returns
    sorts = [n for n in sorts if isinstance(n.func, ast.Attribute) or any(
        isinstance(r, ast.Return) and r.value is not None and any(
            x is n for x in ast.walk(inline_locals(cq.node, r.value)))
        or (isinstance(r, ast.Return) and r.value is n)
        for r in ast.walk(cq.node))]
    has_break = any(isinstance(st, ast.Break) for st in rest_body)
    ctx.ob("D3.2", cq, sorts[0] if sorts else cq.node,
           bool(sorts) or not has_break,
           "CUTSQ returns the squares in non-increasing order, which the "
           "early exit of the classification relies on" if sorts else
           "the classification stops at the first too small square but the "
           "squares are not sorted in non-increasing order",
           construct="squares sorted")
    # ---- B. S23
    s23 = None
    for s in body[body.index(cls_loop) + 1:]:
        if _tname(s) is not None and not isinstance(
                s.value, (ast.ListComp, ast.List, ast.Call)):
            try:
                env = ev.stmt(env, s)
            except Unsupported:
                pass
        if isinstance(s, ast.For):
            break
    wrong23: list[str] = []
    for s in body:
        nm = _tname(s)
        v = s.value if nm is not None else None
        if isinstance(v, ast.ListComp) and len(v.generators) == 1:
            g = v.generators[0]
            src = _src_roles(g.iter)
            if src == frozenset(["S2", "S3"]) and isinstance(
                    g.target, ast.Name) and isinstance(
                    v.elt, ast.Name) and v.elt.id == g.target.id \
                    and len(g.ifs) == 1:
                e2 = env.copy()
                e2.vars[g.target.id] = iv
                try:
                    c = ev.cond(e2, g.ifs[0])
                    c = map_atom(c, lambda p: p.subst({
                        ("cell", "J", (iv,)): L}))
                    if equivalent(c, ("lt", H - Q, L)) is None:
                        s23 = nm
                    else:
                        wrong23.append(ast.unparse(g.ifs[0]))
                except Unsupported:
                    pass
            elif src in (frozenset(["S2"]), frozenset(["S3"])) and \
                    isinstance(g.target, ast.Name) and isinstance(
                    v.elt, ast.Name) and v.elt.id == g.target.id \
                    and len(g.ifs) == 1:
                # the two-step form: [j for j in S2 if P] extended by
                # (j for j in S3 if P)
                other = "S3" if src == frozenset(["S2"]) else "S2"
                exts = [c_ for b_ in body for c_ in ast.walk(b_)
                        if isinstance(c_, ast.Call) and isinstance(
                            c_.func, ast.Attribute)
                        and c_.func.attr == "extend" and isinstance(
                            c_.func.value, ast.Name)
                        and c_.func.value.id == nm and len(c_.args) == 1
                        and isinstance(c_.args[0], (ast.GeneratorExp,
                                                    ast.ListComp))]
                if len(exts) == 1 and len(exts[0].args[0].generators) == 1:
                    g2 = exts[0].args[0].generators[0]
                    e2_ = exts[0].args[0].elt
                    if _src_roles(g2.iter) == frozenset([other]) and \
                            isinstance(g2.target, ast.Name) and isinstance(
                            e2_, ast.Name) and e2_.id == g2.target.id and \
                            len(g2.ifs) == 1:
                        both = True
                        for gg in (g, g2):
                            ee = env.copy()
                            ee.vars[gg.target.id] = iv
                            try:
                                c = ev.cond(ee, gg.ifs[0])
                                c = map_atom(c, lambda p: p.subst({
                                    ("cell", "J", (iv,)): L}))
                                if equivalent(c, ("lt", H - Q, L)) \
                                        is not None:
                                    both = False
                                    wrong23.append(ast.unparse(gg.ifs[0]))
                            except Unsupported:
                                both = False
                        if both:
                            s23 = nm
    ctx.ob("D3.2", fi, fi.node, s23 is not None,
           f"`{s23}` = {{j in S2 u S3 : l_j > H - q}} (theorem 3)" if s23
           else (f"the elements of S2 u S3 are filtered by `{wrong23[0]}`, "
                 "which is not l_j > H - q (theorem 3)" if wrong23 else
                 "the set S23 = {j in S2 u S3 : l_j > H - q} is not "
                 "recognised (no single list built from S2 + S3 with that "
                 "filter)"),
           construct="set S23")
    if s23 is None:
        return
    roles[s23] = "S23"
    # ---- C. S3 - ^S3: greedy pairing of S2 squares with S3 squares
    s3m = None
    for s in body:
        nm = _tname(s)
        if nm is not None and isinstance(s.value, ast.Call) and isinstance(
                s.value.func, ast.Attribute) and s.value.func.attr in (
                "copy",) and isinstance(s.value.func.value, ast.Name) and \
                roles.get(s.value.func.value.id) == "S3":
            s3m = nm
        if nm is not None and isinstance(s.value, ast.Call) and isinstance(
                s.value.func, ast.Name) and s.value.func.id == "list" and \
                len(s.value.args) == 1 and isinstance(
                s.value.args[0], ast.Name) and roles.get(
                s.value.args[0].id) == "S3":
            s3m = nm
    # other spellings of an order-preserving copy, and copies in another
    # order (recognised, and wrong: the greedy pairing takes the FIRST
    # fitting square of the non-increasing list, i.e. the largest)
    s3_reordered = None
    for s in body:
        nm = _tname(s)
        if nm is None or s3m is not None:
            continue
        v_ = s.value
        if isinstance(v_, ast.Subscript) and isinstance(
                v_.value, ast.Name) and roles.get(
                v_.value.id) == "S3" and isinstance(v_.slice, ast.Slice) \
                and v_.slice.lower is None and v_.slice.upper is None:
            st_ = v_.slice.step
            if st_ is None or ast.unparse(st_) == "1":
                s3m = nm
            elif ast.unparse(st_) in ("-1", "(-1)"):
                s3m = nm
                s3_reordered = ast.unparse(v_)
        elif isinstance(v_, ast.List) and len(v_.elts) == 1 and isinstance(
                v_.elts[0], ast.Starred) and isinstance(
                v_.elts[0].value, ast.Name) and roles.get(
                v_.elts[0].value.id) == "S3":
            s3m = nm
        elif isinstance(v_, ast.Call) and isinstance(
                v_.func, ast.Name) and v_.func.id in (
                "sorted", "reversed", "list") and v_.args:
            inner_ = v_.args[0]
            if isinstance(inner_, ast.Call) and isinstance(
                    inner_.func, ast.Name) and inner_.func.id in (
                    "sorted", "reversed") and inner_.args:
                inner_src = inner_.args[0]
            else:
                inner_src = inner_
            if isinstance(inner_src, ast.Name) and roles.get(
                    inner_src.id) == "S3" and (
                    v_.func.id != "list" or inner_ is not inner_src):
                s3m = nm
                s3_reordered = ast.unparse(v_)
    if s3_reordered is not None:
        ctx.ob("D3.2", fi, fi.node, False,
               f"the working copy of S3 is `{s3_reordered}`: not in the "
               "non-increasing order of S3, so the pairing of an S2 square "
               "no longer takes the largest S3 square that fits beside it "
               "(equation 6: S3 - ^S3 may keep wider squares and b1 grows)",
               construct="set S3 - ^S3 order")
        return
    match_loop = None
    rev_iter = False
    for s in body:
        if isinstance(s, ast.For) and s is not cls_loop and isinstance(
                s.iter, ast.Name) and roles.get(s.iter.id) == "S2":
            match_loop = s
        if isinstance(s, ast.For) and s is not cls_loop and isinstance(
                s.iter, ast.Call) and isinstance(
                s.iter.func, ast.Name) and s.iter.func.id == "reversed" \
                and len(s.iter.args) == 1 and isinstance(
                s.iter.args[0], ast.Name) and roles.get(
                s.iter.args[0].id) == "S2":
            # `for i in reversed(S2)` visits S2 from the back
            match_loop = s
            rev_iter = True
    okC = s3m is not None and match_loop is not None
    detail = ""
    if okC:
        roles[s3m] = "S3M"
        rev = [s for s in body if isinstance(s, ast.Expr) and isinstance(
            s.value, ast.Call) and isinstance(
            s.value.func, ast.Attribute) and s.value.func.attr == "reverse"
            and isinstance(s.value.func.value, ast.Name) and roles.get(
            s.value.func.value.id) == "S2" and body.index(s) < body.index(
            match_loop)]
        inner = next((s for s in match_loop.body if isinstance(s, ast.For)),
                     None)
        if rev_iter and rev:
            rev = []              # reversed twice: back to the wrong order
        elif rev_iter:
            rev = [match_loop]
        okC = bool(rev) and inner is not None and isinstance(
            match_loop.target, ast.Name)
        if not rev:
            detail = "S2 is not brought into non-increasing residual order"
        if okC:
            it = inner.iter
            enum_ok = isinstance(it, ast.Call) and ast.unparse(
                it.func) == "enumerate" and len(it.args) == 1 and \
                ast.unparse(it.args[0]) == s3m and isinstance(
                inner.target, ast.Tuple) and len(inner.target.elts) == 2
            menv = env.copy()
            a_, b_ = Poly.var("a"), Poly.var("b")
            menv.vars[match_loop.target.id] = a_
            try:
                for st in match_loop.body:
                    if st is inner:
                        break
                    if _tname(st) is not None:
                        menv = ev.stmt(menv, st)
                if enum_ok:
                    pos, idx = (t.id for t in inner.target.elts)
                    menv.vars[idx] = b_
                    menv.vars[pos] = Poly.var("pos")
                tests = [st for st in inner.body if isinstance(st, ast.If)]
                pre = [st for st in inner.body if not isinstance(st, ast.If)]
                for st in pre:
                    if _tname(st) is not None:
                        menv = ev.stmt(menv, st)
                fit = None
                if len(tests) == 1 and enum_ok:
                    c = ev.cond(menv, tests[0].test)
                    la = Poly.atom(("cell", "J", (a_,)))
                    lb = Poly.atom(("cell", "J", (b_,)))
                    want = ("le", lb, W - la)
                    sp2 = Splitter()
                    fit = all(x == y for _, (x, y), _t in sp2.cases(
                        (c, want)))
                    dels = [st for st in tests[0].body if isinstance(
                        st, ast.Delete) and len(st.targets) == 1
                        and ast.unparse(st.targets[0]) == f"{s3m}[{pos}]"]
                    dels += [st for st in tests[0].body if isinstance(
                        st, ast.Expr) and ast.unparse(st.value).replace(
                        " ", "") == f"{s3m}.pop({pos})"]
                    brk = any(isinstance(st, ast.Break)
                              for st in tests[0].body)
                    okC = bool(fit) and len(dels) == 1 and brk and \
                        not tests[0].orelse
                    if not okC:
                        detail = ("an S3 square is paired when "
                                  f"[{show_cond(c)}] (expected l_b <= W - "
                                  f"l_a), removed: {len(dels) == 1}, scan "
                                  f"stops: {brk}")
                else:
                    okC = False
                    detail = "pairing scan not recognised"
            except Unsupported as u:
                okC = False
                detail = f"cannot normalise the pairing: {u}"
            # no pairing possible for this S2 square -> none for the rest
            if okC:
                okC, detail = _giveup_protocol(repo, fi, match_loop, inner,
                                               tests[0])
    ctx.ob("D3.2", fi, match_loop or fi.node, okC,
           "S3 - ^S3: S2 squares in non-increasing residual order each take "
           "the first (largest) remaining S3 square with l <= W - l_a" if okC
           else "the pairing of S2 and S3 squares deviates: " + (
               detail or "copy of S3 / loop over S2 not recognised"),
           construct="set S3 - ^S3")
    if not okC:
        return
    # ---- D. the closed formula
    tail = body[body.index(match_loop) + 1:]
    tenv = env.copy()
    try:
        tenv = ev.block(tenv, tail)
        got = tenv.returned
        if not isinstance(got, Poly):
            raise Unsupported("no value returned")
    except Unsupported as u:
        ctx.ob("D3.2", fi, u.node or fi.node, False,
               f"cannot normalise the formula of L(q): {u}",
               construct="formula of L(q)")
        return
    cn = Canon()
    got = cn.poly(got)

    def ln_(r: str) -> Poly:
        return _app("len:" + r)
    b1 = ceil_div(sum_term(frozenset(["S3M"]), L, L), W)
    div = fd(W, fd(H, Poly.const(2)) + ONE)
    b2 = ceil_div(ln_("S3M"), div)
    lt = ln_("S2") + Poly.atom(("app", "max", tuple(sorted(
        (b1, b2), key=repr))))
    dn = sum_term(frozenset(["S2", "S3", "S4"]), L * L, L) - (
        W * H * lt - sum_term(frozenset(["S23"]), L * (H - L), L))
    ref = ln_("S1") + lt + ite(("lt", ZERO, dn), ceil_div(dn, W * H), ZERO)
    ref = cn.poly(ref)
    sp3 = Splitter()
    bad = None
    n = 0
    try:
        base3 = sp3.facts_of(("le", ONE, W * H), True)[0]
        for facts, (g, r), trail in sp3.cases((got, ref), base3):
            n += 1
            if not sp3.equal(g, r, facts):
                bad = (f"[{describe(trail)[:160]}]: the code computes "
                       f"{show(g)[:400]} but equations 6-7 give "
                       f"{show(r)[:400]}")
                break
    except Unsupported as u:
        bad = f"case analysis failed: {u}"
    ctx.count("damv_formula_cases", n)
    ctx.ob("D3.2", fi, fi.node, bad is None,
           "L(q) = |S1| + L~ + max(0, ceil((sum_{S2+S3+S4} l^2 - (W H L~ - "
           "sum_{S23} l (H - l))) / (W H))) with L~ = |S2| + max(ceil("
           "sum_{S3-^S3} l / W), ceil(|S3-^S3| / floor(W / (floor(H/2) + "
           "1)))) - equations 6 and 7" if bad is None else
           "the formula of L(q) deviates from equations 6-7: " + bad,
           construct="formula of L(q)")
    _outer(ctx)
    _cutsq(ctx, cq)
    del rname


def _giveup_protocol(repo: Any, fi: FuncInfo, outer: ast.For,
                     inner: ast.For, fit: ast.If) -> tuple[bool, str]:
    """The scan over S2 may stop early only when no S3 square was taken."""
    after = outer.body[outer.body.index(inner) + 1:]
    before = outer.body[:outer.body.index(inner)]
    if inner.orelse:
        # for ... else: the else branch runs iff the scan did not `break`
        ok = all(isinstance(x, (ast.Break, ast.Pass)) for x in inner.orelse)
        return ok, "" if ok else "for-else branch is not a plain give-up"
    brk_ifs = [st for st in after if isinstance(st, ast.If) and any(
        isinstance(x, ast.Break) for x in ast.walk(st))]
    other = [st for st in after if st not in brk_ifs and any(
        isinstance(x, (ast.Break, ast.Continue)) for x in ast.walk(st))]
    if other:
        return False, "unconditional exit after the pairing scan"
    if not brk_ifs:
        return True, ""                  # never gives up early: fine
    if len(brk_ifs) != 1:
        return False, "several give-up tests"
    t = brk_ifs[0].test
    neg = False
    if isinstance(t, ast.UnaryOp) and isinstance(t.op, ast.Not):
        neg, t = True, t.operand
    if not isinstance(t, ast.Name) or brk_ifs[0].orelse:
        return False, "give-up test is not a plain flag"
    flag = t.id
    init = None
    for st in before:
        if _tname(st) == flag:
            init = repo.const(fi.module, st.value)
    sets = [repo.const(fi.module, st.value) for st in fit.body
            if _tname(st) == flag]
    others = [st for st in ast.walk(outer) if isinstance(
        st, (ast.Assign, ast.AnnAssign, ast.AugAssign)) and _tname(
        st) == flag and st not in before and st not in fit.body]
    if others or any(v not in (True, False) for v in sets) or \
            init not in (True, False):
        return False, (f"flag `{flag}` is assigned in ways that are not "
                       "recognised")
    # `if flag: break` breaks when the flag is True; a taken square must
    # never leave the flag at the breaking value
    breaks_when = not neg
    ok = all(v != breaks_when for v in sets) and (
        bool(sets) or init != breaks_when)
    return ok, "" if ok else (
        f"the scan over S2 stops when a pairing WAS found (flag `{flag}`): "
        "later S2 squares stay unpaired, S3 - ^S3 becomes too large")


def _outer(ctx: Ctx) -> None:
    """_lower_bound_damv: orientation, range of q, at least 1."""
    repo = ctx.repo
    fi = repo.func(INST, "_lower_bound_damv")
    wn, hn, mn = fi.params
    body = func_body(fi)
    swap = None
    from sa.casesplit import equivalent as _equiv_vals
    from sa.srcmodel import inline_locals
    ev0 = make_evaluator(repo, fi, extra_call=py_calls)
    ev0.int_transparent = True
    Wp, Hp = Poly.var("W"), Poly.var("H")
    for s in body:
        if isinstance(s, ast.If) and not s.orelse:
            e0 = Env()
            e0.vars.update({wn: Wp, hn: Hp})
            try:
                e1 = ev0.stmt(e0.copy(), s)
            except Unsupported:
                continue
            # afterwards (W, H) = (max, min) of the two
            from sa.symterm import ite as _ite
            if _equiv_vals(e1.vars.get(wn), _ite(("lt", Wp, Hp), Hp, Wp))[
                    0] and _equiv_vals(e1.vars.get(hn), _ite(
                        ("lt", Wp, Hp), Wp, Hp))[0]:
                swap = s
    ctx.ob("D3.2", fi, swap or fi.node, swap is not None,
           "the bin is brought into horizontal orientation (W >= H) first"
           if swap else "the bin is not oriented so that W >= H before "
           "L(q) is evaluated", construct="orientation")
    # q ranges over 0 .. floor(H/2); the result is max(1, max_q L(q))
    src = ast.unparse(fi.node)
    gens = [n for n in ast.walk(fi.node) if isinstance(
        n, (ast.GeneratorExp, ast.ListComp))]
    okq = False
    for g in gens:
        if len(g.generators) == 1 and not g.generators[0].ifs:
            it = inline_locals(fi.node, g.generators[0].iter)
            if isinstance(it, ast.Call) and isinstance(
                    it.func, ast.Name) and it.func.id == "range" and len(
                    it.args) in (1, 2) and not it.keywords:
                e0 = Env()
                e0.vars[hn] = Hp
                try:
                    vals = [ev0.num(e0, a_) for a_ in it.args]
                except Unsupported:
                    continue
                lo_ = ZERO if len(vals) == 1 else vals[0]
                okq = okq or (lo_ == ZERO and vals[-1] == fd(
                    Hp, Poly.const(2)) + ONE)
    okm = any(isinstance(n, ast.Call) and isinstance(
        n.func, ast.Name) and n.func.id == "max" and gens and any(
        a is gens[0] for a in n.args) for n in ast.walk(fi.node))
    rets = [r for r in ast.walk(fi.node) if isinstance(r, ast.Return)]
    ok1 = len(rets) == 1 and isinstance(
        rets[0].value, ast.Call) and ast.unparse(
        rets[0].value.func) == "max" and len(
        rets[0].value.args) == 2 and {
        ast.unparse(a) for a in rets[0].value.args} & {"1"} == {"1"}
    ctx.ob("D3.2", fi, fi.node, okq and okm and ok1,
           "the bound is max(1, max over q = 0..floor(H/2) of L(q))"
           if okq and okm and ok1 else
           f"q-range 0..H//2: {okq}; maximum over q: {okm}; at least 1: "
           f"{ok1}", construct="range of q")
    # the call: L(q) receives (W, H, q, squares of CUTSQ(matrix))
    calls = [n for n in ast.walk(fi.node) if isinstance(n, ast.Call)
             and isinstance(n.func, ast.Name) and repo.resolve(
                 fi.module, n.func.id) is repo.func(INST, "__lb_q")]
    okc = False
    why = "no call of __lb_q"
    if len(calls) == 1 and not calls[0].keywords and len(
            calls[0].args) == 4 and gens:
        a = calls[0].args
        qv = gens[0].generators[0].target
        sq = a[3]
        sq_ok = False
        if isinstance(sq, ast.Name):
            for st in body:
                if _tname(st) == sq.id and isinstance(
                        st.value, ast.Call) and isinstance(
                        st.value.func, ast.Name) and repo.resolve(
                        fi.module, st.value.func.id) is repo.func(
                        INST, "__cutsq") and len(st.value.args) == 1 and \
                        ast.unparse(st.value.args[0]) == mn:
                    sq_ok = True
        okc = ast.unparse(a[0]) == wn and ast.unparse(a[1]) == hn and \
            isinstance(qv, ast.Name) and ast.unparse(a[2]) == qv.id and sq_ok
        why = (f"__lb_q is called with ({', '.join(ast.unparse(x) for x in a)}"
               f"), expected ({wn}, {hn}, q, CUTSQ({mn}))")
    ctx.ob("D3.2", fi, calls[0] if calls else fi.node, okc,
           "L(q) is evaluated with the oriented width and height, the "
           "running q and the squares of CUTSQ(matrix)" if okc else why,
           construct="arguments of L(q)")
    del src


def _cutsq(ctx: Ctx, cq: FuncInfo) -> None:
    """CUTSQ: w >= h; k = w // h squares of side h; (w, h) := (h, w - k h)."""
    repo = ctx.repo

    def calls(ev_: Evaluator, env_: Env, n: ast.Call) -> Any:
        if isinstance(n.func, ast.Name) and n.func.id == "divmod" and len(
                n.args) == 2 and not n.keywords:
            a_, b_ = ev_.num(env_, n.args[0]), ev_.num(env_, n.args[1])
            return (fd(a_, b_), a_ - fd(a_, b_) * b_)
        return py_calls(ev_, env_, n)
    ev = make_evaluator(repo, cq, extra_call=calls)
    ev.int_transparent = True
    loop = next((s for s in func_body(cq) if isinstance(s, ast.For)), None)
    ctx.need(loop is not None, "__cutsq: loop over the items")
    wl = next((s for s in loop.body if isinstance(s, ast.While)), None)
    problems = []
    wn_ = hn_ = None
    piece_buf = None          # the list that receives the squares of an item
    if wl is None:
        problems.append("no cutting loop")
    else:
        w, h = Poly.var("w"), Poly.var("h")
        # discover the two dimension variables: the ones re-assigned together
        pair = next((s for s in wl.body if isinstance(s, ast.Assign)
                     and isinstance(s.targets[0], ast.Tuple)
                     and len(s.targets[0].elts) == 2
                     and isinstance(s.value, ast.Tuple)), None)
        if pair is None:
            problems.append("no simultaneous (w, h) update")
        else:
            wn_, hn_ = (t.id for t in pair.targets[0].elts)
            env = Env()
            env.vars[wn_] = w
            env.vars[hn_] = h
            try:
                test = ev.cond(env, wl.test)
                ok_t = test in (("lt", ONE, h), ("le", Poly.const(2), h))
                if not ok_t:
                    problems.append(
                        f"cutting continues while [{show_cond(test)}], not "
                        "while h > 1")
                ks: list[str] = []
                for s in wl.body:
                    if s is pair:
                        break
                    if isinstance(s, (ast.Assign, ast.AnnAssign)) and \
                            s.value is not None:
                        env = ev.stmt(env, s)
                        for t in ast.walk(s.targets[0] if isinstance(
                                s, ast.Assign) else s.target):
                            if isinstance(t, ast.Name) and env.vars.get(
                                    t.id) == fd(w, h):
                                ks.append(t.id)
                k = ks[0] if ks else None
                if k is None:
                    problems.append("k = w // h not computed")
                # k squares of side h: `for _ in range(k): buf.append(h)`,
                # `buf.extend([h] * k)` or `buf += [h] * k`
                ok_app = False
                for s in wl.body:
                    if isinstance(s, ast.For) and k is not None and \
                            ast.unparse(s.iter).replace(
                            " ", "") == f"range({k})" and len(
                            s.body) == 1 and isinstance(
                            s.body[0], ast.Expr) and isinstance(
                            s.body[0].value, ast.Call) and isinstance(
                            s.body[0].value.func, ast.Attribute) and \
                            s.body[0].value.func.attr == "append" and [
                            ast.unparse(x) for x in s.body[0].value.args] \
                            == [hn_] and isinstance(
                            s.body[0].value.func.value, ast.Name):
                        ok_app = True
                        piece_buf = s.body[0].value.func.value.id
                    rep = None
                    if isinstance(s, ast.Expr) and isinstance(
                            s.value, ast.Call) and isinstance(
                            s.value.func, ast.Attribute) and \
                            s.value.func.attr == "extend" and len(
                            s.value.args) == 1 and isinstance(
                            s.value.func.value, ast.Name):
                        rep, tgt_ = s.value.args[0], s.value.func.value.id
                    elif isinstance(s, ast.AugAssign) and isinstance(
                            s.op, ast.Add) and isinstance(s.target, ast.Name):
                        rep, tgt_ = s.value, s.target.id
                    if rep is not None and isinstance(
                            rep, ast.BinOp) and isinstance(rep.op, ast.Mult):
                        sides = [ast.unparse(rep.left).replace(" ", ""),
                                 ast.unparse(rep.right).replace(" ", "")]
                        if k is not None and sorted(sides) == sorted(
                                [f"[{hn_}]", k]):
                            ok_app = True
                            piece_buf = tgt_
                if not ok_app:
                    problems.append("k squares of side h are not appended")
                env2 = ev.stmt(env, pair)
                ok_u = env2.vars[wn_] == h and env2.vars[hn_] == \
                    w - fd(w, h) * h
                if not ok_u:
                    problems.append(
                        f"(w, h) := ({show(env2.vars[wn_])}, "
                        f"{show(env2.vars[hn_])}), not (h, w - k h)")
            except Unsupported as u:
                problems.append(f"cannot normalise: {u}")
            # orientation before cutting: afterwards (w, h) = (max, min)
            from sa.casesplit import equivalent as _eqv
            from sa.symterm import ite as _ite
            orient = []
            for s in loop.body:
                if s is wl:
                    break
                if isinstance(s, ast.If) and not s.orelse:
                    e0 = Env()
                    e0.vars.update({wn_: w, hn_: h})
                    try:
                        e1 = ev.stmt(e0, s)
                    except Unsupported:
                        continue
                    if _eqv(e1.vars.get(wn_), _ite(("lt", w, h), h, w))[0] \
                            and _eqv(e1.vars.get(hn_), _ite(
                                ("lt", w, h), w, h))[0]:
                        orient.append(s)
            if not orient:
                problems.append("items are not oriented (w >= h) first")
    # the dimensions come from two different columns among {0, 1}, the
    # multiplicity from column 2
    rowv = loop.target.id if isinstance(loop.target, ast.Name) else "row"
    cols: dict[str, Any] = {}
    for st in loop.body:
        nm = _tname(st)
        if nm is not None:
            subs = [x for x in ast.walk(st.value) if isinstance(
                x, ast.Subscript) and isinstance(x.value, ast.Name)
                and x.value.id == rowv]
            if len(subs) == 1:
                cols[nm] = repo.const(cq.module, subs[0].slice)
    dims = sorted(v for k, v in cols.items() if v in (0, 1))
    mult = [k for k, v in cols.items() if v == 2]
    if dims != [0, 1]:
        problems.append(f"width/height are read from columns {dims}, not "
                        "from columns 0 and 1")
    if len(mult) != 1:
        problems.append("the multiplicity (column 2) is not read")
    # the squares of one item are replicated `times` times and the
    # per-item buffer starts empty for every item
    ok_ext, buf = _replicated(loop, wl, mult[0] if mult else None)
    if not ok_ext:
        problems.append("the squares of an item are not appended "
                        "`multiplicity` times")
    elif buf is not None:
        if piece_buf is not None and buf != piece_buf:
            problems.append(f"the replicated list `{buf}` is not the list "
                            f"`{piece_buf}` that receives the squares")
        fresh = any(_tname(st) == buf for st in loop.body) or any(
            isinstance(st, ast.Expr) and isinstance(
                st.value, ast.Call) and ast.unparse(
                st.value.func) == f"{buf}.clear" for st in loop.body)
        if not fresh:
            problems.append(f"the per-item square buffer `{buf}` is not "
                            "emptied between items")
    ctx.ob("D3.2", cq, wl or cq.node, not problems,
           "CUTSQ: each item, oriented w >= h, yields floor(w/h) squares of "
           "side h and continues with (h, w mod h) while h > 1; the "
           "multiplicity replicates the squares" if not problems else
           "CUTSQ deviates: " + "; ".join(problems),
           construct="CUTSQ")


def _replicated(loop: ast.For, wl: ast.While | None, mult: str | None) \
        -> tuple[bool, str | None]:
    """After the cutting loop the squares of the item are appended `mult`
    times: `out.extend(buf * mult)`, optionally guarded by `mult > 1` (as a
    conditional expression or as an if/else with the plain `buf`)."""
    if mult is None or wl is None or wl not in loop.body:
        return False, None
    after = loop.body[loop.body.index(wl) + 1:]

    def ext_arg(st: ast.stmt) -> ast.expr | None:
        if isinstance(st, ast.Expr) and isinstance(
                st.value, ast.Call) and isinstance(
                st.value.func, ast.Attribute) and \
                st.value.func.attr == "extend" and len(st.value.args) == 1:
            return st.value.args[0]
        return None

    def times_buf(e: ast.expr) -> str | None:
        if isinstance(e, ast.BinOp) and isinstance(e.op, ast.Mult):
            l_, r_ = ast.unparse(e.left), ast.unparse(e.right)
            if mult in (l_, r_) and l_ != r_:
                return r_ if l_ == mult else l_
        return None

    def guard_ok(t: ast.expr) -> bool:
        return ast.unparse(t).replace(" ", "") in (
            f"{mult}>1", f"{mult}>=1", f"{mult}!=1", f"1<{mult}",
            f"{mult}>=2", f"2<={mult}")
    exts = [(st, ext_arg(st)) for st in after if ext_arg(st) is not None]
    ifs = [st for st in after if isinstance(st, ast.If)]
    if len(exts) == 1 and not any(ext_arg(x) is not None for i_ in ifs
                                  for x in ast.walk(i_)
                                  if isinstance(x, ast.stmt)):
        a = exts[0][1]
        if isinstance(a, ast.IfExp):
            b = times_buf(a.body)
            ok = guard_ok(a.test) and b is not None and ast.unparse(
                a.orelse) == b
            return ok, b
        b = times_buf(a)
        return b is not None, b
    if not exts and len(ifs) == 1 and guard_ok(ifs[0].test) and len(
            ifs[0].body) == 1 and len(ifs[0].orelse) == 1:
        a1, a2 = ext_arg(ifs[0].body[0]), ext_arg(ifs[0].orelse[0])
        if a1 is not None and a2 is not None:
            b = times_buf(a1)
            same_dst = ast.unparse(ifs[0].body[0].value.func) == \
                ast.unparse(ifs[0].orelse[0].value.func)
            return (b is not None and ast.unparse(a2) == b
                    and same_dst), b
    return False, None
