"""C16 - controller blueprints and system equations compute their formulas."""
from __future__ import annotations

import ast
import itertools
import re
from fractions import Fraction
from typing import Any

from sa import ordenum
from sa.effects import Effects
from sa.kern import cell, eval_kernel
from sa.report import Ctx
from sa.srcmodel import ClassInfo, FuncInfo
from sa.symterm import Poly, Unsupported, all_atoms, show

CTRL_MOD = "moptipyapps.dynamic_control.controller"
CTRL_PKG = "moptipyapps.dynamic_control.controllers"
SYS_PKG = "moptipyapps.dynamic_control.systems"


class Site:
    """A `Controller(name, sd, cd, pd, func)` construction."""

    def __init__(self, factory: FuncInfo, call: ast.Call, name: Any,
                 sd: Any, cd: Any, pd: Any, kernel: Any) -> None:
        self.factory = factory
        self.call = call
        self.name = name
        self.sd, self.cd, self.pd = sd, cd, pd
        self.kernel = kernel


def controller_sites(ctx: Ctx) -> list[Site]:
    repo = ctx.repo
    ctrl = repo.cls(CTRL_MOD, "Controller")
    init = ctx.need(ctrl.methods.get("__init__"), "Controller.__init__")
    ctx.need(init.params[:6] == ["self", "name", "state_dims",
                                 "control_dims", "param_dims", "func"],
             "Controller.__init__(name, state_dims, control_dims, "
             "param_dims, func)")
    sites: list[Site] = []
    for mname in sorted(repo.modules):
        if not mname.startswith(CTRL_PKG + "."):
            continue
        mod = repo.modules[mname]
        for fi in mod.funcs.values():
            if fi.njit is not None or fi.parent is not None:
                continue
            fi = _unroll_tables(fi)
            for n in ast.walk(fi.node):
                if not isinstance(n, ast.Call):
                    continue
                if repo.resolve_expr(mod, n.func) is not ctrl:
                    continue
                args: dict[str, ast.expr] = {}
                for p, a in zip(init.params[1:], n.args):
                    args[p] = a
                for kw in n.keywords:
                    if kw.arg:
                        args[kw.arg] = kw.value
                kern = None
                if "func" in args:
                    r = repo.resolve_expr(mod, args["func"])
                    if isinstance(r, FuncInfo):
                        kern = r
                sites.append(Site(
                    fi, n,
                    repo.const_in(fi, args["name"]) if "name" in args
                    else None,
                    repo.const_in(fi, args.get("state_dims", ast.Constant(
                        None))),
                    repo.const_in(fi, args.get("control_dims", ast.Constant(
                        None))),
                    repo.const_in(fi, args.get("param_dims", ast.Constant(
                        None))),
                    kern))
    return sites


def _unroll_tables(fi: FuncInfo) -> FuncInfo:
    """A table-driven factory

        if c1: T = ((a1, b1), (a2, b2))  elif c2: T = (...)
        return tuple(Controller(x, K, y) for x, y in T)

    is read as if each branch built its controllers itself: every literal
    row of T becomes `Controller(...)` with the loop variables replaced by
    the row's entries and with the constants assigned in the same branch
    before the table filled in.  (A copy; anything else is left alone.)"""
    import copy
    import dataclasses
    comp = None
    for n in ast.walk(fi.node):
        if isinstance(n, (ast.GeneratorExp, ast.ListComp)) and len(
                n.generators) == 1 and not n.generators[0].ifs and \
                isinstance(n.generators[0].iter, ast.Name) and isinstance(
                n.elt, ast.Call):
            comp = n
    if comp is None:
        return fi
    tname = comp.generators[0].iter.id
    tgt = comp.generators[0].target
    lvars = [t.id for t in tgt.elts] if isinstance(
        tgt, ast.Tuple) and all(isinstance(t, ast.Name) for t in tgt.elts) \
        else ([tgt.id] if isinstance(tgt, ast.Name) else None)
    if lvars is None:
        return fi
    node = copy.deepcopy(fi.node)
    changed = False

    class Sub(ast.NodeTransformer):
        def __init__(self, m: dict[str, ast.expr]) -> None:
            self.m = m

        def visit_Name(self, n: ast.Name) -> ast.AST:
            if isinstance(n.ctx, ast.Load) and n.id in self.m:
                return copy.deepcopy(self.m[n.id])
            return n

    def blocks(n: ast.AST) -> list[list[ast.stmt]]:
        out = []
        for fld in ("body", "orelse", "finalbody"):
            b = getattr(n, fld, None)
            if isinstance(b, list) and b and isinstance(b[0], ast.stmt):
                out.append(b)
                for st in b:
                    out += blocks(st)
        return out
    for blk in blocks(node):
        consts: dict[str, ast.expr] = {}
        for st in blk:
            tg = st.targets[0] if isinstance(st, ast.Assign) and len(
                st.targets) == 1 else (st.target if isinstance(
                    st, ast.AnnAssign) else None)
            val = getattr(st, "value", None)
            if isinstance(tg, ast.Name) and isinstance(val, ast.Constant):
                consts[tg.id] = val
            if isinstance(tg, ast.Name) and tg.id == tname and isinstance(
                    val, (ast.Tuple, ast.List)) and val.elts and all(
                    isinstance(r, (ast.Tuple, ast.List)) and len(
                        r.elts) == len(lvars) for r in val.elts):
                rows = []
                for r in val.elts:
                    m = dict(consts)
                    m.update(zip(lvars, r.elts))
                    c = Sub(m).visit(copy.deepcopy(comp.elt))
                    for x in ast.walk(c):
                        ast.copy_location(x, r)
                    rows.append(c)
                st.value = ast.copy_location(
                    ast.Tuple(elts=rows, ctx=ast.Load()), val)
                changed = True
    if not changed:
        return fi
    # the comprehension itself no longer constructs anything
    class Drop(ast.NodeTransformer):
        def visit_GeneratorExp(self, n: ast.GeneratorExp) -> ast.AST:
            if ast.dump(n) == ast.dump(comp):
                return ast.copy_location(
                    ast.Name(id=tname, ctx=ast.Load()), n)
            return self.generic_visit(n)
        visit_ListComp = visit_GeneratorExp      # type: ignore
    node = ast.fix_missing_locations(Drop().visit(node))
    return dataclasses.replace(fi, node=node)


def _cell_index(a: tuple) -> int | None:
    if a[0] == "cell" and len(a[2]) == 1:
        v = a[2][0].const_value()
        if v is not None and v.denominator == 1:
            return int(v)
    return None


def _census(env_out: list[Poly]) -> dict[str, list[int | None]]:
    """array name -> indices of all cells mentioned (deeply)."""
    res: dict[str, list[int | None]] = {}
    for p in env_out:
        for a in all_atoms(p):
            if a[0] == "cell":
                res.setdefault(a[1], []).append(_cell_index(a))
    return res


def run(ctx: Ctx) -> None:
    ctx.explanation = (
        "Static decision of the formula clauses of C16: each njit controller "
        "kernel is symbolically executed into canonical polynomials over "
        "state[i]/params[k] cells (E4). Decided: D16.1 polynomial "
        "completeness (one parameter per monomial of degree 1..d, every "
        "declared parameter used once); D16.2 partially-linear cascade "
        "selects the law of a nearest anchor on every weak ordering of the "
        "anchor distances (E5, exhaustive); D16.3 peak kernels are sums of "
        "p*exp(-(p+sum p*s_i)^2) with every parameter used once, min-ANN "
        "kernels partition 0..P-1 with slices of state length; D16.4 "
        "generator rules on make_ann; D16.5 the three systems equal the "
        "published polynomials and the factories declare as many state / "
        "control dimensions as the equations have; D16.6 no kernel mutates "
        "state/params; D16.0 also: every factory hands the k-dimensional "
        "controller out under `state_dims == k` and rejects other control "
        "dimensions; D16.7 the statements make_ann emits are exactly {input "
        "load, hidden neuron = atan(bias + sum weight * input), output = "
        "multiplier * atan(bias + sum weight * input)}, each one balanced "
        "and terminated, inputs defined when registered, fresh names "
        "numbered uniquely, recycling pops only non-empty lists, the "
        "Controller gets (state_dims, control_dims, counter, built "
        "function) and anns() requests (system.state_dims, "
        "system.control_dims); D16.8 CodeGenerator's header, 4-space "
        "indentation at line starts, newline discipline, indent/unindent "
        "and build(); D16.10 every division in a controller / system "
        "kernel is reached only under a test that excludes a zero divisor "
        "(by value, path by path - the predefined literature controllers "
        "return a constant instead of the quotient then). Not decided: "
        "value of the min-ANN minimiser, the formulas of the predefined "
        "literature controllers (none in the repository to compare with).")
    ctx.assumptions += [
        "G7: kernel parameters state/params/out are 1-d float arrays",
        "association anchor<->law in partially linear controllers may be "
        "any fixed bijection",
    ]
    sites = controller_sites(ctx)
    with_kernel = [s for s in sites if s.kernel is not None]
    ctx.count("controller_factory_sites", len(sites))
    ctx.count("controller_kernels", len({s.kernel for s in with_kernel}))
    nk = len({s.kernel for s in with_kernel})
    nok = [s_ for s_ in sites if s_.kernel is None]
    anchor = (nok[0] if nok else sites[0]) if sites else None
    ctx.need(anchor is not None, "Controller(...) factory sites")
    ctx.ob("D16.0", anchor.factory, anchor.call,
           len(sites) >= 28 and nk >= 27,
           f"{len(sites)} Controller(...) sites with {nk} distinct kernels "
           "are analysed" if len(sites) >= 28 and nk >= 27 else
           f"only {len(sites)} Controller(...) sites / {nk} kernels could be "
           "resolved (28 / 27 on the reference tree): a factory passes "
           "something that is not a kernel where the controller function "
           "belongs", construct="factory sites resolved")
    _dispatch(ctx, sites)
    ctx.rule("D16.0", "factory dims vs kernel index use: params indices used "
             "== {0..param_dims-1}, state indices < state_dims, out stores "
             "== {0..control_dims-1}")
    ctx.rule("D16.1", "complete polynomial of degree d, one parameter per "
             "monomial, coefficient 1, no constant term")
    ctx.rule("D16.2", "argmin cascade selects a law of a minimal-distance "
             "anchor for every weak ordering of the distances")
    ctx.rule("D16.3", "peaks: sum_k p*exp(-(p + sum_i p*s_i)^2)")
    ctx.rule("D16.5", "system equations equal the published polynomials")
    ctx.rule("D16.6", "kernels do not mutate state / params / control")
    eff = Effects(ctx.repo)
    seen_kernels: set[FuncInfo] = set()
    for s in with_kernel:
        k = s.kernel
        _check_site(ctx, s)
        if k not in seen_kernels:
            seen_kernels.add(k)
            _check_pure(ctx, eff, k, (0, 2))
    _check_systems(ctx, eff)
    _check_make_ann(ctx)
    from sa.checks import c16_div
    c16_div.check(ctx, c16_div.kernels_of(ctx))


# ------------------------------------------------------------------- D16.6
def _check_pure(ctx: Ctx, eff: Effects, k: FuncInfo,
                positions: tuple[int, ...]) -> None:
    mut = eff.mutated(k)
    for pos in positions:
        if pos >= len(k.params):
            continue
        p = k.params[pos]
        hits = list(mut.get(p, []))
        for n in ast.walk(k.node):
            if isinstance(n, ast.AugAssign) and isinstance(
                    n.target, ast.Name) and n.target.id == p:
                hits.append((n, "in-place augmented assignment"))
        if hits:
            node, why = hits[0]
            ctx.ob("D16.6", k, node, False,
                   f"input parameter {p!r} may be mutated: {why}",
                   construct=f"mutates {p}")
        else:
            ctx.ob("D16.6", k, k.node, True,
                   f"no store/mutator/out= reaches parameter {p!r}",
                   construct=f"mutates {p}", nontrivial=False)


# ------------------------------------------------------------ per-site rules
def _check_site(ctx: Ctx, s: Site) -> None:
    k: FuncInfo = s.kernel
    mod = s.factory.module
    dims_ok = all(isinstance(v, int) for v in (s.sd, s.cd, s.pd))
    if not dims_ok:
        ctx.ob("D16.0", mod, s.call, False,
               "factory dimensions are not constant-foldable",
               function=s.factory.qualname)
        return
    name = s.name if isinstance(s.name, str) else ""
    if re.fullmatch(r"min_ann_\d+", name):
        _check_min_ann(ctx, s)
        _check_min_ann_interval(ctx, s)
        return
    try:
        env = eval_kernel(ctx.repo, k)
    except Unsupported as u:
        ctx.ob("D16.0", k, u.node or k.node, False,
               f"cannot normalise kernel: {u}", construct="normalise")
        return
    pn = k.params
    if len(pn) != 4:
        ctx.ob("D16.0", k, k.node, False, "kernel does not take (state, t, "
               "params, out)", construct="signature")
        return
    st, _t, pa, ou = pn
    outs: dict[int, Poly] = {}
    bad_store = False
    for (arr, idx), val in env.stores.items():
        iv = idx[0].const_value() if len(idx) == 1 else None
        if arr != ou or iv is None:
            bad_store = True
            continue
        outs[int(iv)] = val
    cen = _census(list(outs.values()))
    used_p = cen.get(pa, [])
    used_s = cen.get(st, [])
    ok = (not bad_store and set(outs) == set(range(s.cd))
          and None not in used_p and None not in used_s
          and set(used_p) == set(range(s.pd))
          and all(0 <= i < s.sd for i in used_s))
    missing = sorted(set(range(s.pd)) - set(x for x in used_p
                                            if x is not None))
    extra = sorted(set(x for x in used_p if x is not None)
                   - set(range(s.pd)))
    ctx.ob("D16.0", k, k.node, ok,
           f"Controller({name!r}, {s.sd}, {s.cd}, {s.pd}, {k.name}): "
           f"params used {sorted(set(used_p), key=str)}, state used "
           f"{sorted(set(used_s), key=str)}, out written {sorted(outs)}"
           + (f"; declared but unused params {missing}" if missing else "")
           + (f"; params beyond param_dims {extra}" if extra else ""),
           construct=f"dims {name} {s.sd} {s.cd} {s.pd}",
           witness={"unused_params": missing, "out_of_range": extra}
           if not ok else None)
    deg = {"linear": 1, "quadratic": 2, "cubic": 3}.get(name)
    if deg is not None:
        for i in range(s.cd):
            if i in outs:
                _check_polynomial(ctx, s, outs[i], deg, st, pa)
        return
    m = re.fullmatch(r"linear_(\d+)", name)
    if m:
        if 0 in outs:
            _check_cascade(ctx, s, outs[0], int(m.group(1)), st, pa)
        return
    m = re.fullmatch(r"peaks_(\d+)", name)
    if m:
        if 0 in outs:
            _check_peaks(ctx, s, outs[0], int(m.group(1)), st, pa)
        return


def _check_polynomial(ctx: Ctx, s: Site, p: Poly, deg: int, st: str,
                      pa: str) -> None:
    k: FuncInfo = s.kernel
    want = set()
    for d in range(1, deg + 1):
        for combo in itertools.combinations_with_replacement(
                range(s.sd), d):
            want.add(combo)
    got: dict[tuple, list[int]] = {}
    problems: list[str] = []
    for mono, c in p.terms.items():
        pidx: list[int] = []
        sidx: list[int] = []
        for a, e in mono:
            i = _cell_index(a)
            if a[0] == "cell" and a[1] == pa and i is not None:
                pidx += [i] * e
            elif a[0] == "cell" and a[1] == st and i is not None:
                sidx += [i] * e
            else:
                problems.append(f"foreign factor {show(Poly.atom(a))}")
        if len(pidx) != 1:
            problems.append(
                f"monomial {show(Poly({mono: c}))} has {len(pidx)} "
                "parameters (want exactly 1)")
            continue
        if c != 1:
            problems.append(f"coefficient {c} in {show(Poly({mono: c}))}")
        got.setdefault(tuple(sorted(sidx)), []).append(pidx[0])
    missing = sorted(want - set(got))
    surplus = sorted(set(got) - want)
    dup = {m: v for m, v in got.items() if len(v) > 1}
    allp = [i for v in got.values() for i in v]
    ok = not problems and not missing and not surplus and not dup and \
        len(allp) == len(set(allp)) and len(allp) == s.pd
    def mon(t: tuple) -> str:
        return "*".join(f"s{i}" for i in t) or "1"
    detail = (f"{len(want)} monomials of degree 1..{deg} in {s.sd} state "
              f"variables; kernel has {len(got)}")
    if missing:
        detail += "; MISSING monomials: " + ", ".join(map(mon, missing))
    if surplus:
        detail += "; unexpected monomials: " + ", ".join(map(mon, surplus))
    if dup:
        detail += "; monomials with several parameters: " + ", ".join(
            map(mon, dup))
    if problems:
        detail += "; " + "; ".join(problems[:4])
    if len(allp) != s.pd:
        detail += f"; {len(allp)} parameters used, {s.pd} declared"
    ctx.ob("D16.1", k, k.node, ok, detail,
           construct=f"complete polynomial degree {deg} in {s.sd} vars",
           witness={"missing": [mon(t) for t in missing]} if missing
           else None)


# --------------------------------------------------------------------- D16.2
def _sq_distance_params(d: Poly, st: str, pa: str, sd: int) \
        -> list[int] | None:
    """If d == sum_i (state[i]-params[k_i])^2 return [k_0..k_{sd-1}]."""
    ks: list[int] = []
    ref = Poly()
    for i in range(sd):
        found = None
        for mono, c in d.terms.items():
            # cross term -2*s_i*p_k
            if c == -2 and len(mono) == 2 and all(e == 1 for _, e in mono):
                cells = {a[1]: _cell_index(a) for a, _ in mono
                         if a[0] == "cell"}
                if cells.get(st) == i and cells.get(pa) is not None and \
                        len(cells) == 2:
                    found = cells[pa]
        if found is None:
            return None
        ks.append(found)
        t = cell(st, i) - cell(pa, found)
        ref = ref + t * t
    return ks if ref == d else None


def _linear_law_params(law: Poly, st: str, pa: str, sd: int) \
        -> list[int] | None:
    ks: list[int] = []
    ref = Poly()
    for i in range(sd):
        found = None
        for mono, c in law.terms.items():
            if c == 1 and len(mono) == 2 and all(e == 1 for _, e in mono):
                cells = {a[1]: _cell_index(a) for a, _ in mono
                         if a[0] == "cell"}
                if cells.get(st) == i and cells.get(pa) is not None and \
                        len(cells) == 2:
                    found = cells[pa]
        if found is None:
            return None
        ks.append(found)
        ref = ref + cell(st, i) * cell(pa, found)
    return ks if ref == law else None


def _check_cascade(ctx: Ctx, s: Site, val: Poly, n_anchor: int, st: str,
                   pa: str) -> None:
    k: FuncInfo = s.kernel
    cons = f"nearest of {n_anchor} anchors"
    try:
        dists = ordenum.ite_cond_terms(val)
        laws = ordenum.ite_leaves(val)
    except Unsupported as u:
        ctx.ob("D16.2", k, k.node, False, str(u), construct=cons)
        return
    def _minp(p: Any) -> int:
        idx = [_cell_index(a) for a in all_atoms(p)
               if a[0] == "cell" and a[1] == pa]
        return min([i for i in idx if i is not None], default=-1)
    dists.sort(key=_minp)
    laws.sort(key=_minp)
    blocks: list[list[int]] = []
    ok_shape = len(dists) == n_anchor and len(laws) == n_anchor
    for d in dists:
        b = _sq_distance_params(d, st, pa, s.sd)
        if b is None:
            ok_shape = False
        else:
            blocks.append(b)
    for law in laws:
        b = _linear_law_params(law, st, pa, s.sd) if isinstance(
            law, Poly) else None
        if b is None:
            ok_shape = False
        else:
            blocks.append(b)
    flat = [i for b in blocks for i in b]
    if ok_shape and (len(flat) != len(set(flat))
                     or set(flat) != set(range(s.pd))):
        ok_shape = False
    ctx.ob("D16.2", k, k.node, ok_shape,
           f"{len(dists)} squared anchor distances and {len(laws)} linear "
           f"laws over disjoint parameter blocks {blocks}",
           construct=cons + " (shape)")
    if not ok_shape:
        return
    # every weak ordering of the distances is realisable because the anchors
    # use pairwise disjoint parameters; enumerate them all.
    n = len(dists)
    selected: list[tuple[tuple[int, ...], int]] = []
    for m in ordenum.enumerate_models(dists):
        leaf = m.select(val)
        selected.append((m.ranks, laws.index(leaf)))
    ctx.count("orderings_enumerated", len(selected))
    good_perm = None
    witness = None
    for perm in itertools.permutations(range(n)):
        # perm[a] = index of the law that belongs to anchor a
        bad = None
        for ranks, li in selected:
            lo = min(ranks)
            minimal = {perm[a] for a in range(n) if ranks[a] == lo}
            if li not in minimal:
                bad = (ranks, li)
                break
        if bad is None:
            good_perm = perm
            break
        if perm == tuple(range(n)):
            witness = bad
    names = [f"d{i}" for i in range(n)]
    detail = (f"{len(selected)} weak orderings of {n} anchor distances "
              "enumerated; ")
    w = None
    if good_perm is None:
        m = ordenum.OrderModel(dists)
        m.ranks = witness[0]
        w = {"ordering": m.describe(names), "selected_law": witness[1],
             "anchor_params": blocks[:n], "law_params": blocks[n:]}
        detail += (f"no anchor<->law bijection works; with the natural "
                   f"pairing the ordering {w['ordering']} selects law "
                   f"{witness[1]} although its anchor is not nearest")
    else:
        detail += f"selected law always belongs to a nearest anchor " \
                  f"(pairing {good_perm})"
    ctx.ob("D16.2", k, k.node, good_perm is not None, detail,
           construct=cons, witness=w)
    ctx.exhaustive = True


# --------------------------------------------------------------------- D16.3
def _check_peaks(ctx: Ctx, s: Site, val: Poly, n_peaks: int, st: str,
                 pa: str) -> None:
    k: FuncInfo = s.kernel
    cons = f"sum of {n_peaks} peaks"
    problems: list[str] = []
    used: list[int] = []
    units = 0
    for mono, c in val.terms.items():
        if c != 1 or len(mono) != 2 or any(e != 1 for _, e in mono):
            problems.append(f"term {show(Poly({mono: c}))} is not p*exp(..)")
            continue
        pcell = [a for a, _ in mono if a[0] == "cell" and a[1] == pa]
        app = [a for a, _ in mono if a[0] == "app" and a[1] == "exp"]
        if len(pcell) != 1 or len(app) != 1:
            problems.append(f"term {show(Poly({mono: c}))} is not p*exp(..)")
            continue
        used.append(_cell_index(pcell[0]))
        arg: Poly = app[0][2][0]
        # arg must be -(q*q) with q = p_b + sum_i p_i*s_i
        q = Poly()
        bias = None
        sidx: list[int] = []
        for m2, c2 in arg.terms.items():
            if c2 == -1 and len(m2) == 1 and m2[0][1] == 2 and \
                    m2[0][0][0] == "cell" and m2[0][0][1] == pa:
                bias = _cell_index(m2[0][0])
                q = q + Poly.atom(m2[0][0])
            elif c2 == -1 and len(m2) == 2 and all(e == 2 for _, e in m2):
                cs = {a[1]: a for a, _ in m2 if a[0] == "cell"}
                if set(cs) == {st, pa}:
                    q = q + Poly.atom(cs[st]) * Poly.atom(cs[pa])
                    used.append(_cell_index(cs[pa]))
                    sidx.append(_cell_index(cs[st]))
        if bias is None or (ZERO_MINUS(q) != arg):
            problems.append("activation argument is not "
                            "-(p + sum p*s_i)^2: " + show(arg)[:80])
            continue
        used.append(bias)
        if sorted(sidx) != list(range(s.sd)):
            problems.append(f"unit uses state components {sorted(sidx)}, "
                            f"want all of 0..{s.sd - 1}")
        units += 1
    ok = not problems and units == n_peaks and \
        sorted(used) == list(range(s.pd))
    detail = f"{units} units, parameters used {sorted(used)}"
    if problems:
        detail += "; " + "; ".join(problems[:3])
    ctx.ob("D16.3", k, k.node, ok, detail, construct=cons)


def ZERO_MINUS(q: Poly) -> Poly:
    return -(q * q)


def _check_min_ann(ctx: Ctx, s: Site) -> None:
    k: FuncInfo = s.kernel
    pn = k.params
    st, pa, ou = pn[0], pn[2], pn[3]
    covered: list[int] = []
    problems: list[str] = []
    for n in ast.walk(k.node):
        if isinstance(n, ast.Subscript) and isinstance(n.value, ast.Name):
            if n.value.id == pa:
                sl = n.slice
                if isinstance(sl, ast.Slice):
                    lo = ctx.repo.const(k.module, sl.lower) \
                        if sl.lower else 0
                    hi = ctx.repo.const(k.module, sl.upper) \
                        if sl.upper else None
                    if not isinstance(lo, int) or not isinstance(hi, int) \
                            or sl.step is not None:
                        problems.append("non-constant params slice")
                        continue
                    if hi - lo != s.sd:
                        problems.append(
                            f"slice {lo}:{hi} has length {hi - lo} but is "
                            f"multiplied with the {s.sd}-d state")
                    covered += list(range(lo, hi))
                else:
                    c = ctx.repo.const(k.module, sl)
                    if not isinstance(c, int):
                        problems.append("non-constant params index")
                    else:
                        covered.append(c)
                if isinstance(n.ctx, ast.Store):
                    problems.append("writes params")
            elif n.value.id == st and not isinstance(n.ctx, ast.Load):
                problems.append("writes state")
            elif n.value.id == ou:
                c = ctx.repo.const(k.module, n.slice)
                if not isinstance(c, int) or not 0 <= c < s.cd:
                    problems.append(f"out index {ast.unparse(n.slice)}")
    ok = not problems and sorted(covered) == list(range(s.pd))
    ctx.ob("D16.3", k, k.node, ok,
           f"min-ANN kernel reads params {sorted(covered)} for "
           f"param_dims={s.pd}" + ("; " + "; ".join(problems)
                                   if problems else ""),
           construct=f"params partition 0..{s.pd - 1}")


def _check_min_ann_interval(ctx: Ctx, s: Site) -> None:
    """The bracketing scan of a minimising-network controller probes the
    points X0, X0 + S, X0 + 2S, ... while `X < C` (or `X <= C`); the next
    probe X + S must not leave the search interval, whose upper end is the
    constant C of that very test: with X on the lattice X0 + k S the largest
    X that passes the test decides."""
    from fractions import Fraction
    k: FuncInfo = s.kernel
    repo = ctx.repo

    from sa.srcmodel import inline_locals

    def num(e: ast.AST | None) -> Fraction | None:
        c = repo.const(k.module, inline_locals(k.node, e)) \
            if e is not None else None
        if isinstance(c, bool) or not isinstance(c, (int, float, Fraction)):
            return None
        try:
            return Fraction(str(c)) if isinstance(c, float) else Fraction(c)
        except (ValueError, ZeroDivisionError):
            return None
    n_loops = 0
    problems: list[str] = []
    node: ast.AST = k.node
    flat = [st for st in ast.walk(k.node) if isinstance(st, ast.stmt)]
    for w in [x for x in ast.walk(k.node) if isinstance(x, ast.While)]:
        t = w.test
        if not (isinstance(t, ast.Compare) and len(t.ops) == 1 and isinstance(
                t.ops[0], (ast.Lt, ast.LtE)) and isinstance(
                t.left, ast.Name) and num(t.comparators[0]) is not None):
            continue
        X, C = t.left.id, num(t.comparators[0])
        # Y = X + S in the body, X = Y later in the body
        step = None
        for st in w.body:
            if isinstance(st, (ast.Assign, ast.AnnAssign)) and isinstance(
                    getattr(st, "value", None), ast.BinOp) and isinstance(
                    st.value.op, ast.Add):
                l_, r_ = st.value.left, st.value.right
                for a_, b_ in ((l_, r_), (r_, l_)):
                    if isinstance(a_, ast.Name) and a_.id == X and num(
                            b_) is not None and num(b_) > 0:
                        tg = st.targets[0] if isinstance(
                            st, ast.Assign) else st.target
                        if isinstance(tg, ast.Name):
                            step = (tg.id, num(b_))
        if step is None:
            continue
        Y, S = step
        def pairs(st: ast.AST) -> list[tuple[ast.expr, ast.expr]]:
            """(target, value) pairs of an assignment, tuples split."""
            out = []
            if isinstance(st, ast.Assign):
                for t_ in st.targets:
                    if isinstance(t_, (ast.Tuple, ast.List)) and isinstance(
                            st.value, (ast.Tuple, ast.List)) and len(
                            t_.elts) == len(st.value.elts):
                        out += list(zip(t_.elts, st.value.elts))
                    else:
                        out.append((t_, st.value))
            return out
        advances = any(isinstance(t_, ast.Name) and t_.id == X
                       and isinstance(v_, ast.Name) and v_.id == Y
                       for st in ast.walk(w) for t_, v_ in pairs(st))
        if not advances:
            continue
        # the start of X: the last constant bound to it before the loop
        x0 = None
        for st in flat:
            if getattr(st, "lineno", 0) >= w.lineno:
                continue
            if isinstance(st, ast.Assign) and any(
                    isinstance(t_, ast.Name) and t_.id == X
                    for t_ in st.targets) and num(st.value) is not None:
                x0 = num(st.value)
            elif isinstance(st, ast.AnnAssign) and isinstance(
                    st.target, ast.Name) and st.target.id == X and num(
                    st.value) is not None:
                x0 = num(st.value)
        if x0 is None:
            continue
        n_loops += 1
        # largest lattice point X0 + k S that passes the test
        strict = isinstance(t.ops[0], ast.Lt)
        if x0 > C or (strict and x0 == C):
            continue
        kmax = (C - x0) // S
        if strict and x0 + kmax * S == C:
            kmax -= 1
        top = x0 + kmax * S + S
        if top > C:
            node = w
            problems.append(
                f"`while {ast.unparse(t)}`: `{X}` runs over {float(x0):g}, "
                f"{float(x0 + S):g}, ... and the last probe `{Y} = {X} + "
                f"{float(S):g}` is {float(top):g}, outside the search "
                f"interval that ends at {float(C):g}")
    ctx.ob("D16.3", k, node, not problems and n_loops >= 1,
           f"the bracketing scan of {s.name} probes only points inside its "
           "search interval" if not problems and n_loops >= 1 else
           ("; ".join(problems) if problems else
            "bracketing scan not recognised (no `while x < C: y = x + step; "
            "...; x = y` with constant start, step and end)"),
           construct="bracket probes inside the interval")


# --------------------------------------------------------------------- D16.5
def _check_systems(ctx: Ctx, eff: Effects) -> None:
    repo = ctx.repo
    S = "state"
    C = "control"

    def s(i: int) -> Poly:
        return cell(S, i)

    pi = Poly.var("pi")
    b = cell(C, 0)
    r1 = s(0) * s(0) + s(1) * s(1)
    r2 = s(2) * s(2) + s(3) * s(3)
    r3 = s(4) * s(4) + s(5) * s(5)
    sig_sl = Poly.const(Fraction(1, 10)) - s(0) * s(0) - s(1) * s(1)
    sg1 = -r1 + r2 - r3
    sg2 = Poly.const(Fraction(1, 10)) - r2
    sg3 = Poly.const(Fraction(-1, 10))
    refs = {
        ("stuart_landau", "make_stuart_landau"): [
            sig_sl * s(0) - s(1),
            sig_sl * s(1) + s(0) + b],
        ("lorenz", "make_lorenz"): [
            Poly.const(10) * (s(1) - s(0)),
            Poly.const(28) * s(0) - s(1) - s(0) * s(2) + b,
            s(0) * s(1) - Poly.const(Fraction(8, 3)) * s(2)],
        ("three_coupled_oscillators", "make_3_couple_oscillators"): [
            sg1 * s(0) - s(1), sg1 * s(1) + s(0),
            sg2 * s(2) - pi * s(3), sg2 * s(3) + pi * s(2) + b,
            sg3 * s(4) - pi * pi * s(5), sg3 * s(5) + pi * pi * s(4) + b],
    }
    n_sys = 0
    for (modn, maker), ref in refs.items():
        mod = repo.module(f"{SYS_PKG}.{modn}")
        mk = repo.func(mod.name, maker)
        # find `<sys>.equations = <kernel>`
        kern = None
        for n in ast.walk(mk.node):
            if isinstance(n, ast.Assign) and len(n.targets) == 1 and \
                    isinstance(n.targets[0], ast.Attribute) and \
                    n.targets[0].attr == "equations":
                r = repo.resolve_expr(mod, n.value)
                if isinstance(r, FuncInfo):
                    kern = r
        if kern is None:
            ctx.ob("D16.5", mk, mk.node, False,
                   f"{maker} does not install its differential equations "
                   "(`system.equations = <kernel>` not found)",
                   construct=f"{modn} equations installed")
            continue
        n_sys += 1
        # the declared dimensions are the number of equations / controls
        def _is_system(c: ast.Call) -> bool:
            if not isinstance(c.func, ast.Name):
                return False
            if c.func.id == "System":
                return True
            r_ = repo.resolve(mod, c.func.id)
            return isinstance(r_, ClassInfo) and any(
                getattr(b, "name", b) == "System" for b in repo.mro(r_))
        sc = [c for c in ast.walk(mk.node) if isinstance(c, ast.Call)
              and _is_system(c)]
        dims_ok = False
        why = "System(...) construction not found"
        if len(sc) == 1 and len(sc[0].args) >= 5:
            a = sc[0].args
            sd_, cd_ = repo.const(mod, a[1]), repo.const(mod, a[2])
            n_ctrl = len({idx for at in all_atoms(tuple(
                _system_outputs(repo, kern))) if at[0] == "cell"
                and at[1] == kern.params[2]
                for idx in [_cell_index(at)] if idx is not None})
            dims_ok = sd_ == len(ref) and cd_ == max(n_ctrl, 1) and \
                isinstance(repo.const(mod, a[4]), int) and \
                0 < repo.const(mod, a[4]) <= len(ref) or (
                    sd_ == len(ref) and cd_ == max(n_ctrl, 1)
                    and repo.const(mod, a[4]) == -1)
            why = (f"System({ast.unparse(a[0])}, state_dims={sd_}, "
                   f"control_dims={cd_}, ...): the equations have "
                   f"{len(ref)} components and read {n_ctrl} control "
                   "input(s)")
        ctx.ob("D16.5", mk, sc[0] if sc else mk.node, bool(dims_ok),
               why if dims_ok else why + " - dimensions do not match",
               construct=f"{modn} declared dimensions")
        try:
            env = eval_kernel(repo, kern, symbolic_consts={"pi": "pi"})
        except Unsupported as u:
            ctx.ob("D16.5", kern, u.node or kern.node, False,
                   f"cannot normalise: {u}", construct="normalise")
            continue
        st, _t, co, ou = kern.params
        ren = {}
        outs: dict[int, Poly] = {}
        for (arr, idx), val in env.stores.items():
            iv = idx[0].const_value()
            if arr == ou and iv is not None:
                outs[int(iv)] = val
        for i, want in enumerate(ref):
            got = outs.get(i)
            if got is None:
                ctx.ob("D16.5", kern, kern.node, False,
                       f"out[{i}] is never written",
                       construct=f"d/dt component {i}")
                continue
            got = _rename_arrays(got, {st: S, co: C})
            diff = got - want
            ok = all(abs(c) <= Fraction(1, 10**12)
                     for c in diff.terms.values())
            ctx.ob("D16.5", kern, kern.node, ok,
                   f"out[{i}] = {show(got)}" + (
                       "" if ok else f"  !=  published {show(want)}"),
                   construct=f"d/dt component {i}")
        extra = sorted(set(outs) - set(range(len(ref))))
        if extra:
            ctx.ob("D16.5", kern, kern.node, False,
                   f"unexpected outputs {extra}", construct="extra outputs")
        _check_pure(ctx, eff, kern, (0, 2))
        del ren
    ctx.floor("system_kernels", n_sys, 3)


def _rename_arrays(p: Poly, ren: dict[str, str]) -> Poly:
    mapping = {}
    for a in all_atoms(p):
        if a[0] == "cell" and a[1] in ren:
            mapping[a] = Poly.atom(("cell", ren[a[1]], a[2]))
    return p.subst(mapping)


# --------------------------------------------------------------------- D16.4
def _check_make_ann(ctx: Ctx) -> None:
    """Rules on the *generator* of neural networks (no code is generated)."""
    repo = ctx.repo
    fi = repo.func(f"{CTRL_PKG}.ann", "make_ann")
    ctx.rule("D16.4", "make_ann: every emitted params[{counter}] is followed "
             "by counter += 1 before the next emission; Controller receives "
             "the final counter; state[{i}]/out[{i}] are emitted under "
             "range(state_dims)/range(control_dims)")
    from sa.checks.c16_gen import (check_code_generator,
                                   check_emission_grammar, check_generator)
    check_generator(ctx, fi)
    ctx.rule("D16.7", "emission grammar of make_ann, its Controller and "
             "the architectures requested")
    check_emission_grammar(ctx, fi)
    ctx.rule("D16.8", "CodeGenerator line / indentation protocol")
    check_code_generator(ctx)
    ctx.rule("D16.9", "a cached controller is stored under a key that "
             "determines it")
    _memo_key(ctx, fi)


def _memo_key(ctx: Ctx, fi: FuncInfo, rid: str = "D16.9") -> None:
    """`make_ann` caches its results as attributes of itself.  The key must
    be built from every parameter of the function (each of them changes the
    generated network), the look-up and the store must use the same key,
    and what is stored is what is returned."""
    from sa.pathinline import paths
    from sa.srcmodel import func_body
    problems: list[str] = []
    node: ast.AST = fi.node
    me = fi.name

    def is_self(e: ast.AST) -> bool:
        return isinstance(e, ast.Name) and e.id == me

    def keys_of(kind: str, e: ast.AST) -> list[ast.expr]:
        return [c.args[1] for c in ast.walk(e) if isinstance(c, ast.Call)
                and isinstance(c.func, ast.Name) and c.func.id == kind
                and len(c.args) >= 2 and is_self(c.args[0])]
    try:
        ps = paths(func_body(fi))
    except ValueError:
        ps = []
    any_cache = False
    for p in ps:
        looked: list[ast.expr] = []
        stored: list[tuple[ast.expr, ast.expr]] = []
        for t, _truth in p.guards:
            looked += keys_of("hasattr", t)
        for e in p.events:
            v = e.value if isinstance(e.value, ast.AST) else None
            if v is None:
                continue
            looked += keys_of("getattr", v)
            for c in ast.walk(v):
                if isinstance(c, ast.Call) and isinstance(
                        c.func, ast.Name) and c.func.id == "setattr" and \
                        len(c.args) == 3 and is_self(c.args[0]):
                    stored.append((c.args[1], c.args[2]))
                    node = e.node
        if not looked and not stored:
            continue
        any_cache = True
        keys = {ast.unparse(k) for k in looked} | {
            ast.unparse(k) for k, _ in stored}
        if len(keys) != 1:
            problems.append("the cache is looked up and filled under "
                            f"different keys: {sorted(keys)[:3]}")
        # a parameter is accounted for on this path if the key mentions it
        # or the path condition does (e.g. `len(layers) > 0` is False)
        gnames = {n.id for t, _ in p.guards for n in ast.walk(t)
                  if isinstance(n, ast.Name)
                  and not keys_of("hasattr", t)}
        for ktxt in sorted(keys):
            k = ast.parse(ktxt, mode="eval").body
            names = {n.id for n in ast.walk(k) if isinstance(n, ast.Name)}
            missing = [p_ for p_ in fi.params
                       if p_ not in names and p_ not in gnames]
            if missing:
                problems.append(
                    f"the cache key `{ktxt[:90]}` does not depend on "
                    f"{missing}: two requests that differ only there share "
                    "one cached controller")
            amb = _ambiguous_key(k)
            if amb:
                problems.append(
                    f"the cache key `{ktxt[:90]}` {amb}: different "
                    "requests (e.g. dimensions 2, 1, [3] and 21, 3, []) "
                    "get the same key and share one cached controller, "
                    "which then indexes arrays of the wrong size")
        rets = [e for e in p.events if e.kind == "return"]
        for _k, val in stored:
            if p.ended == "return" and not any(
                    r.value is not None and ast.unparse(r.value)
                    == ast.unparse(val) for r in rets):
                problems.append("what is cached is not what is returned")
    if not any_cache:
        ctx.ob(rid, fi, fi.node, True,
               "make_ann keeps no cache", construct="memo key",
               nontrivial=False)
        return
    ctx.ob(rid, fi, node, not problems,
           "controllers are cached under a key built from "
           f"{', '.join(fi.params)}; look-up and store use the same key"
           if not problems else "; ".join(dict.fromkeys(problems)),
           construct="memo key")


def _ambiguous_key(k: ast.expr) -> str:
    """Is the text key built by writing several numbers one after the other
    without anything between them (so that it cannot be split again)?"""
    for n in ast.walk(k):
        if isinstance(n, ast.Call) and isinstance(n.func, ast.Attribute) \
                and n.func.attr == "join" and isinstance(
                n.func.value, ast.Constant) and isinstance(
                n.func.value.value, str):
            sep = n.func.value.value
            if sep == "" or sep.isdigit():
                return ("joins the numbers with the separator "
                        f"{sep!r}")
        if isinstance(n, ast.JoinedStr):
            vals = n.values
            for a_, b_ in zip(vals, vals[1:]):
                if isinstance(a_, ast.FormattedValue) and isinstance(
                        b_, ast.FormattedValue) and not any(
                        isinstance(c, ast.Call) and isinstance(
                            c.func, ast.Attribute) and c.func.attr == "join"
                        for x_ in (a_, b_) for c in ast.walk(x_)):
                    return "writes two values directly after each other"
    return ""


def _system_outputs(repo: Any, kern: FuncInfo) -> list[Any]:
    try:
        env = eval_kernel(repo, kern, symbolic_consts={"pi": "pi"})
    except Unsupported:
        return []
    return [v for (arr, _), v in env.stores.items() if arr == kern.params[3]]


# ------------------------------------------------------------------ D16.0b
def _dispatch(ctx: Ctx, sites: list[Site]) -> None:
    """A controller for k state dimensions is handed out exactly to systems
    with k state dimensions (and the control dimension it was built for).

    Decided on the paths through the factory (locals inlined): the guards
    of every path that returns a controller must entail state_dims == k and
    control_dims == c for the k, c the controller was built with - whether
    the factory raises early, nests its branches or uses hoisted locals."""
    from sa.casesplit import equivalent
    from sa.kern import make_evaluator, py_calls
    from sa.pathinline import paths
    from sa.srcmodel import func_body
    from sa.symterm import (Env, Poly, Unsupported, _eq, c_and, c_not,
                            show_cond)
    repo = ctx.repo
    by_factory: dict[FuncInfo, list[Site]] = {}
    for s in sites:
        by_factory.setdefault(s.factory, []).append(s)
    n = 0
    for fac, ss in by_factory.items():
        if not fac.params:
            continue
        sysn = fac.params[0]
        ev = make_evaluator(repo, fac, extra_call=py_calls)
        SD = Poly.var(f"{sysn}.state_dims")
        CD = Poly.var(f"{sysn}.control_dims")
        try:
            ps = paths(func_body(fac))
        except ValueError:
            ps = []
        where: dict[tuple[int, int], list[Any]] = {}
        for q in ps:
            for e in q.events:
                if e.kind in ("return", "expr") and e.value is not None:
                    for x in ast.walk(e.value):
                        if isinstance(x, ast.Call):
                            where.setdefault((x.lineno, x.col_offset),
                                             []).append(q)
        for s in ss:
            qs = where.get((s.call.lineno, s.call.col_offset), [])
            if not qs:
                continue
            for what, var, want in (("state", SD, s.sd), ("control", CD,
                                                          s.cd)):
                if not isinstance(want, int):
                    continue
                ok = True
                shown = ""
                mentions = False
                for q in qs:
                    cs = []
                    for tst, truth in q.guards:
                        try:
                            c = ev.cond(Env(), tst)
                        except Unsupported:
                            continue
                        cs.append(c if truth else c_not(c))
                    pc = c_and(*cs) if cs else ("true",)
                    shown = show_cond(pc)[:100]
                    from sa.symterm import all_atoms
                    if var.as_atom() in all_atoms(pc):
                        mentions = True
                    # path => var == want
                    if not equivalent(c_and(pc, c_not(_eq(
                            var, Poly.const(want)))), ("false",))[0]:
                        ok = False
                if what == "control" and not mentions:
                    continue       # factories for any control dimension
                n += 1
                ctx.ob("D16.0", fac, s.call, ok,
                       f"{fac.name}: the controller built for {want} "
                       f"{what} dimension(s) is only handed out when "
                       f"{what}_dims == {want}" if ok else
                       f"{fac.name}: a controller for {want} {what} "
                       f"dimension(s) is returned under [{shown}]: "
                       + ("controllers with " + str(want) + " output(s) are "
                          "built although the guard does not require it"
                          if what == "control" else "a controller reading "
                          f"{want} state dimensions is returned for other "
                          "systems"),
                       construct=f"{fac.name} dispatch {what} "
                                 f"{s.name if hasattr(s, 'name') else ''}"
                                 f"@{s.call.lineno}")
    ctx.count("dispatch_guards", n)
