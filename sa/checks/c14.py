"""C14 - the decoders follow the documented bottom-left rule, statelessly."""
from __future__ import annotations

import ast
from typing import Any

from sa import ordenum
from sa.absint import Analyzer
from sa.cfg import CFG, calls_in
from sa.kern import make_evaluator
from sa.lin import Lin, entails
from sa.casesplit import equivalent
from sa.loopsum import INF, LoopSummariser, kvar
from sa.report import Ctx
from sa.srcmodel import FuncInfo, func_body, inline_locals
from sa.symterm import (Env, Poly, Unsupported, all_atoms, ite, show,
                        show_cond)

ENC = "moptipyapps.binpacking2d.encodings."
PK = "moptipyapps.binpacking2d.packing"


def cols(ctx: Ctx) -> dict[str, int]:
    m = ctx.repo.module(PK)
    out = {}
    for nm in ("IDX_ID", "IDX_BIN", "IDX_LEFT_X", "IDX_BOTTOM_Y",
               "IDX_RIGHT_X", "IDX_TOP_Y"):
        v = ctx.repo.const(m, ast.Name(id=nm))
        ctx.need(isinstance(v, int), f"packing.{nm}")
        out[nm] = v
    return out


def summarise(ctx: Ctx, fi: FuncInfo) -> Env:
    ls = LoopSummariser()
    ev = make_evaluator(ctx.repo, fi, loop_hook=ls.hook)
    ev.int_transparent = True
    return ev.block(Env(), func_body(fi))


def _cell(arr: str, row: Poly, col: int) -> Poly:
    return Poly.atom(("cell", arr, (row, Poly.const(col))))


def limit_of(ret: Any) -> tuple | None:
    """The min-reduction M such that the returned condition is `M > 0`.

    However it is spelled (0 < M, M >= 1, not M <= 0 - the coordinates are
    integers): decided by comparing the outcomes on all cases."""
    if isinstance(ret, tuple) and ret and isinstance(ret[0], str):
        for a in sorted({a for a in all_atoms(ret) if a[0] == "minred"},
                        key=repr):
            if equivalent(ret, ("lt", Poly.const(0), Poly.atom(a)))[0]:
                return a
    return None


def move_kernel(ctx: Ctx, fi: FuncInfo, kind: str, enc2: bool,
                C: dict[str, int], rule: str = "D14.3") -> dict[str, Any]:
    """Decide one move kernel against the documented rule.  Returns the
    pieces other checks (C01) reuse."""
    P = fi.params
    arr = P[0]
    # the kernel's parameters by position: (packing, [bin_id,] bin_start,
    # [bin_end,] i1)
    i1 = Poly.var(P[-1])
    k0 = kvar(0)
    own = {c: _cell(arr, i1, C[c]) for c in C}
    oth = {c: _cell(arr, k0, C[c]) for c in C}
    L1, B1, R1, T1 = (own[c] for c in ("IDX_LEFT_X", "IDX_BOTTOM_Y",
                                       "IDX_RIGHT_X", "IDX_TOP_Y"))
    L0, B0, R0, T0 = (oth[c] for c in ("IDX_LEFT_X", "IDX_BOTTOM_Y",
                                       "IDX_RIGHT_X", "IDX_TOP_Y"))
    info: dict[str, Any] = {"ok": False}
    name = f"{fi.module.name.split('.')[-1]}.{fi.name}"
    try:
        env = summarise(ctx, fi)
    except Unsupported as u:
        ctx.ob(rule, fi, u.node or fi.node, False,
               f"cannot summarise the kernel: {u}",
               construct=f"{name} normal form")
        return info
    ret = env.returned
    M = limit_of(ret)
    if M is None:
        ctx.ob(rule, fi, fi.node, False,
               "the kernel does not return `0 < min over the blockers`: "
               f"{show_cond(ret)[:120] if isinstance(ret, tuple) else ret}",
               construct=f"{name} returns moved")
        return info
    _k, lo, hi, term, init, guard = M[1], M[2], M[3], M[4], M[5], M[6]
    T = ite(guard, term, INF) if guard != ("true",) else term
    # ---- iteration window
    want_lo = Poly.var(P[2] if enc2 and len(P) >= 5 else P[1])
    want_hi = Poly.var(P[3]) if enc2 and len(P) >= 5 else i1
    okw = lo == want_lo and hi == want_hi
    ctx.ob(rule, fi, fi.node, okw,
           f"{name}: blockers are rows [{show(lo)}, {show(hi)}); "
           f"documented: [{show(want_lo)}, {show(want_hi)})",
           construct=f"{name} window")
    # ---- start value = own coordinate (so the item never leaves the bin
    # through the bottom / left side)
    want_init = B1 if kind == "down" else L1
    ctx.ob(rule, fi, fi.node, init == want_init,
           f"{name}: the move is limited by {show(init)} "
           f"(own {'bottom' if kind == 'down' else 'left'} coordinate)",
           construct=f"{name} initial bound")
    # ---- T against the reference on all orderings
    coords = [L1, B1, R1, T1, L0, B0, R0, T0]
    names = ["L1", "B1", "R1", "T1", "L0", "B0", "R0", "T0"]

    def side(m: ordenum.OrderModel) -> bool:
        r = [m.rank(x) for x in coords]
        return r[0] < r[2] and r[1] < r[3] and r[4] < r[6] and r[5] < r[7]

    def ref(m: ordenum.OrderModel) -> Poly:
        l1, b1, r1, t1, l0, b0, r0, t0 = (m.rank(x) for x in coords)
        if kind == "down":
            if r0 > l1 and l0 < r1 and b0 < t1:
                return B1 - T0
            return INF
        if l0 >= r1:
            return INF
        if r0 > l1 and l0 < r1:
            return (R1 - L0) if t0 == b1 else INF
        if t1 > b0 and b1 < t0:
            return L1 - R0
        return INF
    bin_eq = None
    if enc2:
        for a in all_atoms(T):
            pass
        from sa.symterm import _eq
        bin_eq = _eq(_cell(arr, k0, C["IDX_BIN"]), Poly.var(P[1]))
    n = 0
    bad = None
    try:
        for same_bin in ((True, False) if enc2 else (True,)):
            for m in ordenum.enumerate_models(coords, side):
                if bin_eq is not None:
                    m.fixed = {bin_eq: same_bin}
                n += 1
                got = m.select(T)
                want = ref(m) if same_bin else INF
                if got != want and bad is None:
                    bad = (m.describe(names), show(got), show(want),
                           same_bin)
    except Unsupported as u:
        bad = (str(u), "?", "?", True)
    ctx.count("orderings_enumerated", n)
    ctx.ob(rule, fi, fi.node, bad is None,
           f"{name}: per-blocker limit compared with the documented rule on "
           f"{n} weak orderings of the two boxes' coordinates"
           + ("" if bad is None else
              f"; for {bad[0]}{'' if bad[3] else ' (other bin)'} the kernel "
              f"uses {bad[1]} but the rule says {bad[2]}"),
           construct=f"{name} blocker rule",
           witness=None if bad is None else {
               "ordering": bad[0], "kernel": bad[1], "rule": bad[2]})
    # ---- the update: both edges move by the same M, iff M > 0
    Mp = Poly.atom(M)
    moved = ("lt", Poly.const(0), Mp)
    c1, c2 = ("IDX_BOTTOM_Y", "IDX_TOP_Y") if kind == "down" else (
        "IDX_LEFT_X", "IDX_RIGHT_X")
    want_st = {(arr, (i1, Poly.const(C[c1]))): ite(moved, own[c1] - Mp,
                                                    own[c1]),
               (arr, (i1, Poly.const(C[c2]))): ite(moved, own[c2] - Mp,
                                                   own[c2])}
    oku = set(env.stores) == set(want_st) and all(
        equivalent(env.stores[k], v)[0] for k, v in want_st.items())
    ctx.ob(rule, fi, fi.node, oku,
           f"{name}: iff the limit is positive, both "
           f"{'bottom and top' if kind == 'down' else 'left and right'} "
           "edges are lowered by exactly the limit (size preserved, nothing "
           "else written)" if oku else
           f"{name}: stores are {[(k[0], [show(i) for i in k[1]], show(v)[:80]) for k, v in env.stores.items()]}",
           construct=f"{name} update")
    info.update({"ok": okw and init == want_init and bad is None and oku,
                 "M": M})
    return info


def run(ctx: Ctx) -> None:
    ctx.explanation = (
        "D14.3: the four move kernels are summarised into a guarded-min "
        "normal form; the per-blocker limit is compared with the documented "
        "rule on ALL weak orderings of the two boxes' eight coordinates "
        "(L<R, B<T), the window, the start bound and the update are "
        "polynomial identities; encoding 2 must equal encoding 1 plus "
        "'same bin'. D14.2: the call-sequence automaton of the placement "
        "loop is down; on success down again; on failure left; left success "
        "-> down; left failure -> exit. D14.4: drop position (W-w, H, W, "
        "H+h), new-bin reset (0,0,w,h), next-fit vs ascending first-fit. "
        "D14.1: statelessness - every column of row i is written before it "
        "is read, other rows are read only below i (abstract "
        "interpretation), scratch cells are written before being read, the "
        "bin id is stored on every path, encoder fields are assigned only "
        "in __init__ and decode writes only y / y.n_bins / scratch.")
    for rid, txt in (("D14.1", "stateless: write-before-read"),
                     ("D14.2", "down first, then left (automaton)"),
                     ("D14.3", "move kernels == documented rule"),
                     ("D14.4", "drop position and bin policy")):
        ctx.rule(rid, txt)
    C = cols(ctx)
    repo = ctx.repo
    for enc, enc2 in (("ibl_encoding_1", False), ("ibl_encoding_2", True)):
        modn = ENC + enc
        down = repo.func(modn, "__move_down")
        left = repo.func(modn, "__move_left")
        move_kernel(ctx, down, "down", enc2, C)
        move_kernel(ctx, left, "left", enc2, C)
        dec = repo.func(modn, "_decode")
        _protocol(ctx, dec, down, left)
        _drop_and_bins(ctx, enc, enc2, C)
        _stateless_kernel(ctx, dec, enc2, C)
        _stateless_class(ctx, modn, dec)
    ctx.exhaustive = True
    ctx.assumptions += [
        "coordinates of already placed boxes satisfy L<R, B<T (C01 D1.2)",
        "P2: x is a signed permutation of item ids (never 0)",
    ]


# ------------------------------------------------------------------ D14.2
def _protocol(ctx: Ctx, dec: FuncInfo, down: FuncInfo, left: FuncInfo) \
        -> None:
    """The call-sequence automaton of the placement loop.

    The outcomes of the kernel calls are the only unknowns: a boolean local
    that holds such an outcome (`moved = down(..) or left(..)`) is rewritten
    as the branch that computes it, and the walk over the control flow graph
    carries the known values of boolean locals, so that `while A or B: pass`,
    `moved = True; while moved: moved = A or B` and `while True: if A:
    continue; if not B: break` all yield the same automaton."""
    import copy
    repo = ctx.repo

    def is_kernel(c: ast.AST) -> FuncInfo | None:
        if isinstance(c, ast.Call) and isinstance(c.func, ast.Name):
            r = repo.resolve(dec.module, c.func.id)
            if r is down or r is left:
                return r
        return None

    class Desugar(ast.NodeTransformer):
        def _rewrite(self, tg: ast.Name, value: ast.expr,
                     at: ast.stmt) -> ast.stmt:
            def asg(v: bool) -> ast.stmt:
                return ast.copy_location(ast.Assign(
                    targets=[ast.Name(id=tg.id, ctx=ast.Store())],
                    value=ast.Constant(value=v)), at)
            return ast.copy_location(ast.If(
                test=value, body=[asg(True)], orelse=[asg(False)]), at)

        def visit_Assign(self, n: ast.Assign) -> ast.AST:
            if len(n.targets) == 1 and isinstance(
                    n.targets[0], ast.Name) and any(
                    is_kernel(c) for c in ast.walk(n.value)):
                return self._rewrite(n.targets[0], n.value, n)
            return n

        def visit_AnnAssign(self, n: ast.AnnAssign) -> ast.AST:
            if n.value is not None and isinstance(
                    n.target, ast.Name) and any(
                    is_kernel(c) for c in ast.walk(n.value)):
                return self._rewrite(n.target, n.value, n)
            return n
    fn = ast.fix_missing_locations(Desugar().visit(copy.deepcopy(dec.node)))
    cfg = CFG(fn)

    def callee(n: Any) -> FuncInfo | None:
        if n.kind != "test":
            return None
        for c in calls_in(n.ast):
            r = is_kernel(c)
            if r is not None:
                return r
        return None
    tests = [n for n in cfg.nodes if callee(n) is not None]
    dn = [n for n in tests if callee(n) is down]
    lf = [n for n in tests if callee(n) is left]
    # kernel calls outside of branch conditions are not modelled
    n_calls = sum(1 for c in ast.walk(fn) if is_kernel(c))
    ok = len(dn) == 1 and len(lf) == 1 and n_calls == 2
    detail = (f"{len(dn)} move-down and {len(lf)} move-left calls whose "
              f"outcome is branched on ({n_calls} calls in total)")
    if ok:
        d, l_ = dn[0], lf[0]
        loop_nodes: set[int] = set()
        the_loop = None
        for w_ in ast.walk(fn):
            if isinstance(w_, (ast.While, ast.For)) and any(
                    is_kernel(c) for c in ast.walk(w_)) and not any(
                    isinstance(x, (ast.While, ast.For)) and x is not w_
                    and any(is_kernel(c) for c in ast.walk(x))
                    for x in ast.walk(w_)):
                loop_nodes = {id(x) for x in ast.walk(w_)}
                the_loop = w_

        def step_env(m: Any, env: frozenset) -> frozenset:
            a_ = m.ast
            if m.kind == "stmt" and isinstance(
                    a_, (ast.Assign, ast.AnnAssign, ast.AugAssign)):
                tgs = a_.targets if isinstance(a_, ast.Assign) \
                    else [a_.target]
                e = dict(env)
                for t in tgs:
                    for x in ast.walk(t):
                        if isinstance(x, ast.Name):
                            e.pop(x.id, None)
                v = getattr(a_, "value", None)
                if len(tgs) == 1 and isinstance(
                        tgs[0], ast.Name) and isinstance(
                        v, ast.Constant) and isinstance(v.value, bool) \
                        and not isinstance(a_, ast.AugAssign):
                    e[tgs[0].id] = v.value
                return frozenset(e.items())
            return env

        def walk_from(starts: list[tuple[Any, frozenset]]) -> frozenset:
            """Kernel tests reachable next without passing another one;
            "EXIT" = leaves the loop, "OTHER" = some other effectful
            statement or an undetermined test runs in between."""
            out: set[Any] = set()
            seen: set[tuple[int, frozenset]] = set()
            stack = list(starts)
            while stack:
                m, env = stack.pop()
                if (m.idx, env) in seen:
                    continue
                seen.add((m.idx, env))
                if callee(m) is not None:
                    out.add(m)
                    continue
                if m.ast is not None and id(m.ast) not in loop_nodes and \
                        m.kind != "join":
                    out.add("EXIT")
                    continue
                if m.kind in ("exit", "raise"):
                    out.add("EXIT")
                    continue
                if m.kind == "test":
                    cv = None
                    if isinstance(m.ast, ast.Constant):
                        cv = m.ast.value
                    elif isinstance(m.ast, ast.Name):
                        cv = dict(env).get(m.ast.id)
                    if cv is True or cv is False:
                        stack += [(x, env) for x, lb in m.succ if lb is cv]
                        continue
                    out.add("OTHER")
                    continue
                if m.kind == "stmt":
                    a_ = m.ast
                    pure_flag = isinstance(
                        a_, (ast.Assign, ast.AnnAssign)) and isinstance(
                        getattr(a_, "value", None), ast.Constant) and all(
                        isinstance(t, ast.Name) for t in (
                            a_.targets if isinstance(a_, ast.Assign)
                            else [a_.target]))
                    if not pure_flag and not isinstance(
                            a_, (ast.Pass, ast.Continue, ast.Break)):
                        out.add("OTHER")
                        continue
                    env = step_env(m, env)
                stack += [(x, env) for x, _ in m.succ]
            return frozenset(out)

        def nxt(n: Any, lab: bool) -> frozenset:
            return walk_from([(m, frozenset()) for m, lb in n.succ
                              if lb is lab])
        # entry: flags set right before the loop are known
        env0: dict[str, bool] = {}
        for blk in ast.walk(fn):
            for fld in ("body", "orelse"):
                seq = getattr(blk, fld, None)
                if isinstance(seq, list) and the_loop in seq:
                    for s_ in seq[:seq.index(the_loop)]:
                        if isinstance(s_, (ast.Assign, ast.AnnAssign)):
                            tgs = s_.targets if isinstance(
                                s_, ast.Assign) else [s_.target]
                            v = s_.value
                            for t in tgs:
                                if isinstance(t, ast.Name):
                                    env0.pop(t.id, None)
                                    if isinstance(
                                            v, ast.Constant) and isinstance(
                                            v.value, bool):
                                        env0[t.id] = v.value
        head = next((n for n in cfg.nodes if n.ast is the_loop), None)
        first = walk_from([(head, frozenset(env0.items()))]) \
            if head is not None else frozenset()
        ok = nxt(d, True) == {d} and nxt(d, False) == {l_} and \
            nxt(l_, True) == {d} and nxt(l_, False) == {"EXIT"} and \
            first == {d}
        detail = ("automaton: start -> down, down --ok--> down, "
                  "down --fail--> left, left --ok--> down, "
                  "left --fail--> exit" if ok else
                  "the placement loop does not follow down-first: "
                  f"start->{set(first)}, down ok->{set(nxt(d, True))}, "
                  f"down fail->{set(nxt(d, False))}, left ok->"
                  f"{set(nxt(l_, True))}, left fail->"
                  f"{set(nxt(l_, False))}")
    ctx.ob("D14.2", dec, dec.node, ok, detail,
           construct="move protocol automaton")


# ------------------------------------------------------------------ D14.4
def _item_loop(dec: FuncInfo) -> ast.For:
    for s in func_body(dec):
        if isinstance(s, ast.For):
            return s
    raise Unsupported("no item loop")


def _drop_and_bins(ctx: Ctx, enc: str, enc2: bool,
                   C: dict[str, int]) -> None:
    """D14.4 over the path model of the decoder (sa.decmodel)."""
    from sa.checks.ibl_rules import build_model, c14_rules
    model = build_model(ctx, enc, C)
    if model is not None:
        c14_rules(ctx, model, enc2, C)


# ------------------------------------------------------------------ D14.1
def _stateless_kernel(ctx: Ctx, dec: FuncInfo, enc2: bool,
                      C: dict[str, int]) -> None:
    from sa.checks.c13 import _decoder, _l1_hook
    repo = ctx.repo
    problems: list[tuple[ast.AST, str, str]] = []
    n_loads = [0]
    # the bin counter: the local that the decoder returns; the bin tables:
    # the decoder's last two parameters
    cnt_nm = next((n.id for r in ast.walk(dec.node) if isinstance(
        r, ast.Return) and r.value is not None for n in ast.walk(r.value)
        if isinstance(n, ast.Name) and n.id not in ("int",)), "bin_id")
    tables = tuple(dec.params[5:7]) if len(dec.params) >= 7 else (
        "bin_starts", "bin_ends")
    packing_nm = dec.params[1] if len(dec.params) > 1 else "y"

    def load_hook(an: Analyzer, st: Any, arr: Any, fixed: dict[int, Lin],
                  node: ast.AST) -> None:
        if not an.loop_syms:
            return
        k = Lin.sym(an.loop_syms[0])
        if arr.name == packing_nm and 0 in fixed:
            n_loads[0] += 1
            idx = fixed[0]
            cur = entails(st.facts, idx - k) and entails(st.facts, k - idx)
            older = entails(st.facts, k - 1 - idx) and entails(
                st.facts, idx)
            if not (cur or older):
                problems.append((node, an.cur.qualname,
                                 f"row {idx} of the packing is read while "
                                 f"item {k} is placed: it is neither the "
                                 "current row nor provably an earlier one "
                                 "(stale contents of the destination could "
                                 "leak into the result)"))
        if arr.name in tables and 0 in fixed:
            n_loads[0] += 1
            b = st.vals.get(cnt_nm)
            idx = fixed[0]
            if not (isinstance(b, Lin) and entails(
                    st.facts, b - 1 - idx) and entails(st.facts, idx)):
                problems.append((node, an.cur.qualname,
                                 f"{arr.name}[{idx}] is read but only cells "
                                 "below bin_id are known to be written in "
                                 "this call"))
    an = Analyzer(repo, dec, _decoder(enc2), infeasible=_l1_hook, peel=True)
    an.load_hook = load_hook
    an.run()
    ctx.count("packing_and_scratch_loads", n_loads[0])
    seen = set()
    for node, fn, why in problems:
        key = (getattr(node, "lineno", 0), why[:40])
        if key in seen:
            continue
        seen.add(key)
        ctx.ob("D14.1", dec, node, False, why, function=fn)
    if not problems:
        ctx.ob("D14.1", dec, dec.node, n_loads[0] > 0,
               f"{n_loads[0]} loads from the packing / bin tables: each row "
               "read is the current row or provably an earlier one; bin "
               "table cells read lie below bin_id",
               construct="reads of destination rows")
    # ---- write-before-read inside one iteration (path model)
    from sa.checks.ibl_rules import build_model, classify
    enc = dec.module.name.split(".")[-1]
    m = build_model(ctx, enc, C)
    if m is None:
        return
    loop = m.loop
    cn = {v: k for k, v in C.items()}
    for cname in ("IDX_LEFT_X", "IDX_BOTTOM_Y", "IDX_RIGHT_X", "IDX_TOP_Y"):
        ok = bool(m.moves) and all(
            mv.coords.get(C[cname]) is not None
            and not m.is_garbage(mv.coords[C[cname]]) for mv in m.moves)
        ctx.ob("D14.1", dec, loop, ok,
               f"column {cname} of the current row is written on every "
               "path before the move kernels read it" if ok else
               f"column {cname} of the current row may be read before it "
               "is written in this iteration",
               construct=f"write-before-read {cname}")
    # no value or decision of an iteration depends on what the row held
    # before (a cell of row i that the iteration did not write first)
    stale: set[str] = set()

    def scan(v: Any) -> None:
        if isinstance(v, (Poly, tuple)):
            for a_ in all_atoms(v):
                if a_[0] == "cell" and a_[1] == "y" and a_[2] and \
                        a_[2][0] == m.i:
                    cv = a_[2][1].const_value() if len(a_[2]) > 1 else None
                    stale.add(cn.get(int(cv), str(cv)) if cv is not None
                              else "?")
                if a_[0] == "var" and Poly.atom(a_) in m.garbage:
                    stale.add("coordinates left by a bin that did not fit")
    for st in m.finals:
        for c_, _t in st.trail:
            scan(c_)
        for v in st.env.stores.values():
            scan(v)
        for k_ in m.carried:
            scan(st.env.vars.get(k_))
    for mv in m.moves:
        for c_, _t in mv.trail:
            scan(c_)
        for v in mv.coords.values():
            scan(v)
        for _k, args, _c in mv.calls:
            for a_ in args:
                scan(a_)
    ctx.ob("D14.1", dec, loop, not stale,
           "no decision and no stored value of an iteration depends on "
           "what the current row held before the iteration" if not stale
           else "the previous contents of the current row are read: "
           + ", ".join(sorted(stale)), construct="stale row contents")
    for cname in ("IDX_ID", "IDX_BIN"):
        key = ("y", (m.i, Poly.const(C[cname])))
        ok = bool(m.finals) and all(
            st.env.stores.get(key) is not None for st in m.finals)
        ctx.ob("D14.1", dec, loop, ok,
               f"column {cname} is stored on every path through an "
               "iteration (later iterations and the objectives read it)"
               if ok else f"a path through an iteration leaves column "
                          f"{cname} of the row unwritten",
               construct=f"always written {cname}")
    if enc2:
        zero = (Poly.const(0),)
        ok0 = all((t, zero) in m.pre.stores
                  for t in ("bin_starts", "bin_ends"))
        from sa.checks.ibl_rules import counter_of
        cnt = counter_of(m)
        okp = cnt is not None
        if okp:
            c_in = (m.carried_sym[cnt],)
            for st in m.finals:
                kind, _mv = classify(m, st)
                if kind == "reset":
                    okp = okp and all((t, c_in) in st.env.stores
                                      for t in ("bin_starts", "bin_ends"))
        ctx.ob("D14.1", dec, loop, ok0 and okp,
               "bin tables: cell 0 is written before the loop and cell "
               "bin_id is written whenever bin_id is incremented "
               "(cells [0, bin_id) are always initialised)" if ok0 and okp
               else "bin tables may be read at cells that were not written "
                    "in this call", construct="bin table prefix")


def _stateless_class(ctx: Ctx, modn: str, dec: FuncInfo) -> None:
    repo = ctx.repo
    mod = repo.module(modn)
    cls = next((c for c in mod.classes.values()
                if "decode" in c.methods), None)
    ctx.need(cls is not None, f"{modn}: encoding class")
    bad = []
    for name, m in cls.methods.items():
        if name == "__init__":
            continue
        for n in ast.walk(m.node):
            if isinstance(n, (ast.Assign, ast.AugAssign, ast.AnnAssign)):
                for t in (n.targets if isinstance(n, ast.Assign)
                          else [n.target]):
                    if isinstance(t, ast.Attribute) and isinstance(
                            t.value, ast.Name) and t.value.id == "self":
                        bad.append(n)
            if isinstance(n, (ast.Global, ast.Nonlocal)):
                bad.append(n)
    ctx.ob("D14.1", cls.methods["decode"], bad[0] if bad else cls.node,
           not bad, "the encoding assigns its fields only in __init__" if
           not bad else f"`{ast.unparse(bad[0])[:60]}` changes encoder "
           "state outside __init__", construct="encoder fields immutable")
    d = cls.methods["decode"]
    ok = False
    for n in ast.walk(d.node):
        if isinstance(n, ast.Assign) and isinstance(
                n.targets[0], ast.Attribute) and \
                n.targets[0].attr == "n_bins":
            val = inline_locals(d.node, n.value)
            if isinstance(val, ast.Call) and repo.resolve_expr(
                    mod, val.func) is dec:
                args = val.args
                ok = len(args) >= 2 and [ast.unparse(a)
                                         for a in args[:2]] == \
                    d.params[1:3] and isinstance(
                    n.targets[0].value, ast.Name) and \
                    n.targets[0].value.id == d.params[2]
    ctx.ob("D14.1", d, d.node, ok,
           "decode(x, y) stores the kernel's bin count in y.n_bins and "
           "passes exactly (x, y, ...)", construct="decode wiring")
    eff_writes = []
    for n in ast.walk(d.node):
        if isinstance(n, (ast.Assign, ast.AugAssign, ast.AnnAssign)):
            for t in (n.targets if isinstance(n, ast.Assign)
                      else [n.target]):
                if isinstance(t, ast.Name):
                    continue                      # a local of decode()
                src = ast.unparse(t)
                if not src.startswith(d.params[2]):
                    eff_writes.append(n)
    ctx.ob("D14.1", d, eff_writes[0] if eff_writes else d.node,
           not eff_writes, "decode itself writes nothing but y.n_bins",
           construct="decode writes", nontrivial=False)
