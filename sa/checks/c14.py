"""C14 - the decoders follow the documented bottom-left rule, statelessly."""
from __future__ import annotations

import ast
from typing import Any

from sa import ordenum
from sa.absint import Analyzer
from sa.cfg import CFG, calls_in
from sa.kern import make_evaluator
from sa.lin import Lin, entails
from sa.loopsum import INF, LoopSummariser, kvar
from sa.report import Ctx
from sa.srcmodel import ClassInfo, FuncInfo, func_body
from sa.symterm import (Env, Poly, Unsupported, all_atoms, ite, show,
                        show_cond)

ENC = "moptipyapps.binpacking2d.encodings."
PK = "moptipyapps.binpacking2d.packing"


def cols(ctx: Ctx) -> dict[str, int]:
    m = ctx.repo.module(PK)
    out = {}
    for nm in ("IDX_ID", "IDX_BIN", "IDX_LEFT_X", "IDX_BOTTOM_Y",
               "IDX_RIGHT_X", "IDX_TOP_Y"):
        v = ctx.repo.const(m, ast.Name(id=nm))
        ctx.need(isinstance(v, int), f"packing.{nm}")
        out[nm] = v
    return out


def summarise(ctx: Ctx, fi: FuncInfo) -> Env:
    ls = LoopSummariser()
    ev = make_evaluator(ctx.repo, fi, loop_hook=ls.hook)
    ev.int_transparent = True
    return ev.block(Env(), func_body(fi))


def _cell(arr: str, row: Poly, col: int) -> Poly:
    return Poly.atom(("cell", arr, (row, Poly.const(col))))


def move_kernel(ctx: Ctx, fi: FuncInfo, kind: str, enc2: bool,
                C: dict[str, int], rule: str = "D14.3") -> dict[str, Any]:
    """Decide one move kernel against the documented rule.  Returns the
    pieces other checks (C01) reuse."""
    P = fi.params
    arr = P[0]
    i1 = Poly.var("i1")
    k0 = kvar(0)
    own = {c: _cell(arr, i1, C[c]) for c in C}
    oth = {c: _cell(arr, k0, C[c]) for c in C}
    L1, B1, R1, T1 = (own[c] for c in ("IDX_LEFT_X", "IDX_BOTTOM_Y",
                                       "IDX_RIGHT_X", "IDX_TOP_Y"))
    L0, B0, R0, T0 = (oth[c] for c in ("IDX_LEFT_X", "IDX_BOTTOM_Y",
                                       "IDX_RIGHT_X", "IDX_TOP_Y"))
    info: dict[str, Any] = {"ok": False}
    name = f"{fi.module.name.split('.')[-1]}.{fi.name}"
    try:
        env = summarise(ctx, fi)
    except Unsupported as u:
        ctx.ob(rule, fi, u.node or fi.node, False,
               f"cannot summarise the kernel: {u}",
               construct=f"{name} normal form")
        return info
    ret = env.returned
    M = None
    if isinstance(ret, tuple) and ret[0] == "lt" and ret[1] == Poly.const(0):
        a = ret[2].as_atom()
        if a is not None and a[0] == "minred":
            M = a
    if M is None:
        ctx.ob(rule, fi, fi.node, False,
               "the kernel does not return `0 < min over the blockers`: "
               f"{show_cond(ret)[:120] if isinstance(ret, tuple) else ret}",
               construct=f"{name} returns moved")
        return info
    _k, lo, hi, term, init, guard = M[1], M[2], M[3], M[4], M[5], M[6]
    T = ite(guard, term, INF) if guard != ("true",) else term
    # ---- iteration window
    want_lo = Poly.var("bin_start")
    want_hi = Poly.var("bin_end") if enc2 else i1
    okw = lo == want_lo and hi == want_hi
    ctx.ob(rule, fi, fi.node, okw,
           f"{name}: blockers are rows [{show(lo)}, {show(hi)}); "
           f"documented: [{show(want_lo)}, {show(want_hi)})",
           construct=f"{name} window")
    # ---- start value = own coordinate (so the item never leaves the bin
    # through the bottom / left side)
    want_init = B1 if kind == "down" else L1
    ctx.ob(rule, fi, fi.node, init == want_init,
           f"{name}: the move is limited by {show(init)} "
           f"(own {'bottom' if kind == 'down' else 'left'} coordinate)",
           construct=f"{name} initial bound")
    # ---- T against the reference on all orderings
    coords = [L1, B1, R1, T1, L0, B0, R0, T0]
    names = ["L1", "B1", "R1", "T1", "L0", "B0", "R0", "T0"]

    def side(m: ordenum.OrderModel) -> bool:
        r = [m.rank(x) for x in coords]
        return r[0] < r[2] and r[1] < r[3] and r[4] < r[6] and r[5] < r[7]

    def ref(m: ordenum.OrderModel) -> Poly:
        l1, b1, r1, t1, l0, b0, r0, t0 = (m.rank(x) for x in coords)
        if kind == "down":
            if r0 > l1 and l0 < r1 and b0 < t1:
                return B1 - T0
            return INF
        if l0 >= r1:
            return INF
        if r0 > l1 and l0 < r1:
            return (R1 - L0) if t0 == b1 else INF
        if t1 > b0 and b1 < t0:
            return L1 - R0
        return INF
    bin_eq = None
    if enc2:
        for a in all_atoms(T):
            pass
        from sa.symterm import _eq
        bin_eq = _eq(_cell(arr, k0, C["IDX_BIN"]), Poly.var("bin_id"))
    n = 0
    bad = None
    try:
        for same_bin in ((True, False) if enc2 else (True,)):
            for m in ordenum.enumerate_models(coords, side):
                if bin_eq is not None:
                    m.fixed = {bin_eq: same_bin}
                n += 1
                got = m.select(T)
                want = ref(m) if same_bin else INF
                if got != want and bad is None:
                    bad = (m.describe(names), show(got), show(want),
                           same_bin)
    except Unsupported as u:
        bad = (str(u), "?", "?", True)
    ctx.count("orderings_enumerated", n)
    ctx.ob(rule, fi, fi.node, bad is None,
           f"{name}: per-blocker limit compared with the documented rule on "
           f"{n} weak orderings of the two boxes' coordinates"
           + ("" if bad is None else
              f"; for {bad[0]}{'' if bad[3] else ' (other bin)'} the kernel "
              f"uses {bad[1]} but the rule says {bad[2]}"),
           construct=f"{name} blocker rule",
           witness=None if bad is None else {
               "ordering": bad[0], "kernel": bad[1], "rule": bad[2]})
    # ---- the update: both edges move by the same M, iff M > 0
    Mp = Poly.atom(M)
    moved = ("lt", Poly.const(0), Mp)
    c1, c2 = ("IDX_BOTTOM_Y", "IDX_TOP_Y") if kind == "down" else (
        "IDX_LEFT_X", "IDX_RIGHT_X")
    want_st = {(arr, (i1, Poly.const(C[c1]))): ite(moved, own[c1] - Mp,
                                                    own[c1]),
               (arr, (i1, Poly.const(C[c2]))): ite(moved, own[c2] - Mp,
                                                   own[c2])}
    oku = dict(env.stores) == want_st
    ctx.ob(rule, fi, fi.node, oku,
           f"{name}: iff the limit is positive, both "
           f"{'bottom and top' if kind == 'down' else 'left and right'} "
           "edges are lowered by exactly the limit (size preserved, nothing "
           "else written)" if oku else
           f"{name}: stores are {[(k[0], [show(i) for i in k[1]], show(v)[:80]) for k, v in env.stores.items()]}",
           construct=f"{name} update")
    info.update({"ok": okw and init == want_init and bad is None and oku,
                 "M": M})
    return info


def run(ctx: Ctx) -> None:
    ctx.explanation = (
        "D14.3: the four move kernels are summarised into a guarded-min "
        "normal form; the per-blocker limit is compared with the documented "
        "rule on ALL weak orderings of the two boxes' eight coordinates "
        "(L<R, B<T), the window, the start bound and the update are "
        "polynomial identities; encoding 2 must equal encoding 1 plus "
        "'same bin'. D14.2: the call-sequence automaton of the placement "
        "loop is down; on success down again; on failure left; left success "
        "-> down; left failure -> exit. D14.4: drop position (W-w, H, W, "
        "H+h), new-bin reset (0,0,w,h), next-fit vs ascending first-fit. "
        "D14.1: statelessness - every column of row i is written before it "
        "is read, other rows are read only below i (abstract "
        "interpretation), scratch cells are written before being read, the "
        "bin id is stored on every path, encoder fields are assigned only "
        "in __init__ and decode writes only y / y.n_bins / scratch.")
    for rid, txt in (("D14.1", "stateless: write-before-read"),
                     ("D14.2", "down first, then left (automaton)"),
                     ("D14.3", "move kernels == documented rule"),
                     ("D14.4", "drop position and bin policy")):
        ctx.rule(rid, txt)
    C = cols(ctx)
    repo = ctx.repo
    for enc, enc2 in (("ibl_encoding_1", False), ("ibl_encoding_2", True)):
        modn = ENC + enc
        down = repo.func(modn, "__move_down")
        left = repo.func(modn, "__move_left")
        move_kernel(ctx, down, "down", enc2, C)
        move_kernel(ctx, left, "left", enc2, C)
        dec = repo.func(modn, "_decode")
        _protocol(ctx, dec, down, left)
        _drop_and_bins(ctx, dec, enc2, C)
        _stateless_kernel(ctx, dec, enc2, C)
        _stateless_class(ctx, modn, dec)
    ctx.exhaustive = True
    ctx.assumptions += [
        "coordinates of already placed boxes satisfy L<R, B<T (C01 D1.2)",
        "P2: x is a signed permutation of item ids (never 0)",
    ]


# ------------------------------------------------------------------ D14.2
def _protocol(ctx: Ctx, dec: FuncInfo, down: FuncInfo, left: FuncInfo) \
        -> None:
    repo = ctx.repo
    cfg = CFG(dec.node)

    def callee(n: Any) -> FuncInfo | None:
        if n.kind != "test":
            return None
        for c in calls_in(n.ast):
            if isinstance(c.func, ast.Name):
                r = repo.resolve(dec.module, c.func.id)
                if r in (down, left):
                    return r
        return None
    tests = [n for n in cfg.nodes if callee(n) is not None]
    dn = [n for n in tests if callee(n) is down]
    lf = [n for n in tests if callee(n) is left]
    ok = len(dn) == 1 and len(lf) == 1
    detail = f"{len(dn)} move-down and {len(lf)} move-left tests"
    if ok:
        d, l_ = dn[0], lf[0]

        loop_nodes = set()
        for w_ in ast.walk(dec.node):
            if isinstance(w_, ast.While) and any(
                    isinstance(c, ast.Call) and isinstance(
                        c.func, ast.Name) and repo.resolve(
                        dec.module, c.func.id) in (down, left)
                    for c in ast.walk(w_)):
                loop_nodes = {id(x) for x in ast.walk(w_)}

        def nxt(n: Any, lab: bool) -> frozenset:
            """Move tests reachable next from outcome `lab` of test n
            without passing another move test; "EXIT" = leaves the loop,
            "OTHER" = some other effectful statement runs in between."""
            out = set()
            seen = set()
            stack = [m for m, lb in n.succ if lb is lab]
            while stack:
                m = stack.pop()
                if m in seen:
                    continue
                seen.add(m)
                if callee(m) is not None:
                    out.add(m)
                    continue
                if m.ast is not None and id(m.ast) not in loop_nodes and \
                        m.kind != "join":
                    out.add("EXIT")
                    continue
                if m.kind in ("exit", "raise"):
                    out.add("EXIT")
                    continue
                if m.kind == "test":
                    cv = m.ast.value if isinstance(
                        m.ast, ast.Constant) else None
                    if cv is True or cv is False:
                        stack += [x for x, lb in m.succ if lb is cv]
                        continue
                    out.add("OTHER")
                    continue
                if m.kind == "stmt" and not isinstance(
                        m.ast, (ast.Pass, ast.Continue, ast.Break)):
                    out.add("OTHER")
                    continue
                stack += [x for x, _ in m.succ]
            return frozenset(out)
        ok = nxt(d, True) == {d} and nxt(d, False) == {l_} and \
            nxt(l_, True) == {d} and nxt(l_, False) == {"EXIT"}
        detail = ("automaton: down --ok--> down, down --fail--> left, "
                  "left --ok--> down, left --fail--> exit" if ok else
                  "the placement loop does not follow down-first: "
                  f"down ok->{set(nxt(d, True))}, down fail->"
                  f"{set(nxt(d, False))}, left ok->{set(nxt(l_, True))}, "
                  f"left fail->{set(nxt(l_, False))}")
        # arguments: same row for both, the current item
        for n in (d, l_):
            for c in calls_in(n.ast):
                if isinstance(c.func, ast.Name) and repo.resolve(
                        dec.module, c.func.id) in (down, left):
                    last = c.args[-1]
                    if not (isinstance(last, ast.Name)):
                        ok = False
                        detail += "; moved row is not the loop index"
    ctx.ob("D14.2", dec, dec.node, ok, detail,
           construct="move protocol automaton")


# ------------------------------------------------------------------ D14.4
def _item_loop(dec: FuncInfo) -> ast.For:
    for s in func_body(dec):
        if isinstance(s, ast.For):
            return s
    raise Unsupported("no item loop")


def _drop_and_bins(ctx: Ctx, dec: FuncInfo, enc2: bool,
                   C: dict[str, int]) -> None:
    loop = _item_loop(dec)
    ev = make_evaluator(ctx.repo, dec)
    ev.int_transparent = True
    W, H = Poly.var("bin_width"), Poly.var("bin_height")
    w, h = Poly.var("w"), Poly.var("h")
    i = Poly.var(loop.target.elts[0].id) if isinstance(
        loop.target, ast.Tuple) else Poly.var("i")
    loop_i = loop.target.elts[0].id if isinstance(
        loop.target, ast.Tuple) else "i"

    def stores_of(stmts: list[ast.stmt]) -> dict[int, Poly]:
        env = Env()
        env.vars.update({"w": w, "h": h})
        out: dict[int, Poly] = {}
        for s in stmts:
            if isinstance(s, ast.Assign) and isinstance(
                    s.targets[0], ast.Subscript) and isinstance(
                    s.targets[0].value, ast.Name) and \
                    s.targets[0].value.id == "y":
                try:
                    idx = ev.index(env, s.targets[0].slice)
                    val = ev.num(env, s.value)
                except Unsupported:
                    continue
                cv = idx[1].const_value()
                if idx[0] == i and cv is not None:
                    out[int(cv)] = val
        return out
    # the block that holds the while loop (loop body in enc1, the bin loop
    # in enc2)
    holder: list[ast.stmt] = loop.body
    binloop = None
    if enc2:
        binloop = next((s for s in loop.body if isinstance(s, ast.For)),
                       None)
        ctx.need(binloop is not None, "encoding 2: loop over the open bins")
        holder = binloop.body
    widx = next((k for k, s in enumerate(holder)
                 if isinstance(s, ast.While)), None)
    if widx is None:
        ctx.ob("D14.2", dec, holder[0], False,
               "there is no loop that repeats the down/left moves until the "
               "item rests", construct="placement loop")
        return
    drop = stores_of(holder[:widx])
    want = {C["IDX_LEFT_X"]: W - w, C["IDX_BOTTOM_Y"]: H,
            C["IDX_RIGHT_X"]: W, C["IDX_TOP_Y"]: H + h}
    got = {k: v for k, v in drop.items() if k in want}
    ctx.ob("D14.4", dec, holder[0], got == want,
           "drop position is (W-w, H, W, H+h): the item starts on top of "
           "the bin, flush right" if got == want else
           "drop position is "
           f"{ {k: show(v) for k, v in sorted(got.items())} }",
           construct="drop position")
    # the new-bin block: an If whose body increments bin_id
    newbin = None
    for s in ast.walk(loop):
        if isinstance(s, ast.If) and any(
                isinstance(x, ast.Assign) and isinstance(
                    x.targets[0], ast.Name) and x.targets[0].id == "bin_id"
                for x in s.body):
            newbin = s
    ctx.need(newbin is not None, "new-bin branch")
    reset = stores_of(newbin.body)
    want_r = {C["IDX_LEFT_X"]: Poly.const(0), C["IDX_BOTTOM_Y"]:
              Poly.const(0), C["IDX_RIGHT_X"]: w, C["IDX_TOP_Y"]: h}
    got_r = {k: v for k, v in reset.items() if k in want_r}
    ctx.ob("D14.4", dec, newbin, got_r == want_r,
           "a new bin places the item at (0, 0, w, h)" if got_r == want_r
           else f"new-bin reset is "
                f"{ {k: show(v) for k, v in sorted(got_r.items())} }",
           construct="new-bin reset")
    inc = [x for x in newbin.body if isinstance(x, ast.Assign) and isinstance(
        x.targets[0], ast.Name) and x.targets[0].id == "bin_id"]
    ok_inc = len(inc) == 1 and ast.unparse(inc[0].value).replace(
        " ", "") in ("bin_id+1", "1+bin_id")
    ctx.ob("D14.4", dec, inc[0] if inc else newbin, ok_inc,
           "a new bin increments the bin counter by one",
           construct="bin counter increment")
    if not enc2:
        # next fit: the window start moves to the new item, the new-bin
        # condition is the failed fit test
        bs = [x for x in newbin.body if isinstance(x, ast.Assign)
              and isinstance(x.targets[0], ast.Name)
              and x.targets[0].id == "bin_start"]
        okb = len(bs) == 1 and isinstance(bs[0].value, ast.Name) and \
            Poly.var(bs[0].value.id) == i
        env = Env()
        try:
            c = ev.cond(env, newbin.test)
        except Unsupported:
            c = None
        yr = Poly.atom(("cell", "y", (i, Poly.const(C["IDX_RIGHT_X"]))))
        yt = Poly.atom(("cell", "y", (i, Poly.const(C["IDX_TOP_Y"]))))
        want_c = ("or", ("lt", W, yr), ("lt", H, yt))
        okc = c == want_c
        ctx.ob("D14.4", dec, newbin, bool(okb and okc),
               "next-fit: a new bin is opened iff the settled item sticks "
               "out (right > W or top > H); later items only see the new "
               "bin" if okb and okc else
               f"next-fit broken: condition [{show_cond(c) if c else '?'}], "
               f"bin_start updated: {okb}", construct="next-fit policy")
        n_assign = sum(1 for x in ast.walk(dec.node) if (isinstance(
            x, ast.Assign) and isinstance(x.targets[0], ast.Name)
            and x.targets[0].id == "bin_start") or (isinstance(
                x, ast.AnnAssign) and x.value is not None and isinstance(
                x.target, ast.Name) and x.target.id == "bin_start"))
        init0 = [x for x in func_body(dec) if isinstance(
            x, (ast.Assign, ast.AnnAssign)) and x.value is not None and
            isinstance(x.targets[0] if isinstance(x, ast.Assign)
                       else x.target, ast.Name) and (
                x.targets[0] if isinstance(x, ast.Assign)
                else x.target).id == "bin_start"]
        ok0 = len(init0) == 1 and ctx.repo.const(
            dec.module, init0[0].value) == 0
        ctx.ob("D14.4", dec, dec.node, n_assign == 2 and ok0,
               "bin_start is set only initially (0) and when a bin is "
               "opened: the window [bin_start, i) holds exactly the boxes "
               "of the current bin" if n_assign == 2 and ok0 else
               "the window of the current bin does not start at the first "
               "box (bin_start initial value / extra assignments)",
               construct="bin_start assignments")
        # the move kernels are called on (packing, window start, new item)
        for mk in ("__move_down", "__move_left"):
            cs = [c_ for c_ in ast.walk(dec.node) if isinstance(c_, ast.Call)
                  and isinstance(c_.func, ast.Name) and c_.func.id == mk]
            okm = bool(cs) and all(
                not c_.keywords and [ast.unparse(a) for a in c_.args] == [
                    dec.params[1], "bin_start", loop_i]
                for c_ in cs)
            ctx.ob("D14.4", dec, cs[0] if cs else dec.node, okm,
                   f"{mk}(packing, bin_start, i): the item just placed is "
                   "moved against the boxes of its bin" if okm else
                   f"{mk} is not called as (packing, bin_start, current "
                   "index)", construct=f"arguments of {mk}")
    else:
        it = binloop.iter
        okr = isinstance(it, ast.Call) and isinstance(
            it.func, ast.Name) and it.func.id == "range" and len(
            it.args) == 2 and ast.unparse(it.args[0]) == "1" and \
            ast.unparse(it.args[1]).replace(" ", "") in (
                "bin_id+1", "1+bin_id")
        ctx.ob("D14.4", dec, binloop, okr,
               "first fit: bins 1..bin_id are tried in ascending order",
               construct="first-fit bin order")
        # the fit test ends the search at the first fit
        fit = next((s for s in binloop.body if isinstance(s, ast.If)), None)
        okf = False
        if fit is not None:
            env = Env()
            try:
                c = ev.cond(env, fit.test)
            except Unsupported:
                c = None
            yr = Poly.atom(("cell", "y", (i, Poly.const(C["IDX_RIGHT_X"]))))
            yt = Poly.atom(("cell", "y", (i, Poly.const(C["IDX_TOP_Y"]))))
            okf = c == ("and", ("le", yr, W), ("le", yt, H)) and isinstance(
                fit.body[-1], ast.Break)
        ctx.ob("D14.4", dec, fit or binloop, okf,
               "the search stops (`break`) at the first bin in which the "
               "settled item lies inside the bin", construct="first fit")
        # windows come from the tables, indexed by bin - 1
        okw = True
        for nm, tab in (("bin_start", "bin_starts"), ("bin_end",
                                                      "bin_ends")):
            a = [x for x in binloop.body if isinstance(x, ast.Assign)
                 and isinstance(x.targets[0], ast.Name)
                 and x.targets[0].id == nm]
            okw = okw and len(a) == 1 and ast.unparse(a[0].value).replace(
                " ", "") == f"{tab}[item_bin-1]"
        ctx.ob("D14.4", dec, binloop, okw,
               "each bin's window is [bin_starts[b-1], bin_ends[b-1])",
               construct="bin windows")
        # ---- the window tables follow the boxes: every box of bin b has an
        # index in [starts[b-1], ends[b-1])
        def table_stores(stmts: list[ast.stmt]) -> dict[str, tuple]:
            env = Env()
            env.vars["bin_id"] = Poly.var("bin_id")
            env.vars["item_bin"] = Poly.var("item_bin")
            env.vars[loop_i] = i
            out: dict[str, tuple] = {}
            for st in stmts:
                if isinstance(st, ast.Assign) and isinstance(
                        st.targets[0], ast.Subscript) and isinstance(
                        st.targets[0].value, ast.Name) and \
                        st.targets[0].value.id in ("bin_starts", "bin_ends"):
                    try:
                        k_ = ev.num(env, st.targets[0].slice)
                        v_ = ev.num(env, st.value)
                    except Unsupported:
                        continue
                    out[st.targets[0].value.id] = (k_, v_)
                elif isinstance(st, ast.Assign) and isinstance(
                        st.targets[0], ast.Name) and \
                        st.targets[0].id == "bin_id":
                    try:
                        env = ev.stmt(env, st)
                    except Unsupported:
                        pass
            return out
        one = Poly.const(1)
        B, ib = Poly.var("bin_id"), Poly.var("item_bin")
        t_problems = []
        init = table_stores([s for s in func_body(dec)
                             if s is not loop])
        if init.get("bin_starts") != (Poly.const(0), Poly.const(0)):
            t_problems.append("bin 1's window does not start at box 0")
        e0 = init.get("bin_ends")
        if e0 is None or e0[0] != Poly.const(0) or (
                e0[1].const_value() is None or e0[1].const_value() > 0):
            t_problems.append("bin 1's window is not initially empty")
        placed = table_stores(fit.body if fit is not None else [])
        if placed.get("bin_ends") != (ib - one, i + one) or \
                "bin_starts" in placed:
            t_problems.append(
                "placing item i in bin b must extend the window: "
                "bin_ends[b-1] = i + 1 (found "
                + str({k: (show(a), show(b)) for k, (a, b)
                       in placed.items()}) + ")")
        opened = table_stores(newbin.body)
        if opened.get("bin_starts") != (B, i) or opened.get(
                "bin_ends") != (B, i + one):
            t_problems.append(
                "opening bin B+1 must set its window to [i, i+1): "
                "bin_starts[B] = i, bin_ends[B] = i + 1 before the counter "
                "is incremented (found "
                + str({k: (show(a), show(b)) for k, (a, b)
                       in opened.items()}) + ")")
        ctx.ob("D14.4", dec, newbin, not t_problems,
               "the window tables follow the boxes: bin 1 starts as [0, 0), "
               "placing item i in bin b sets bin_ends[b-1] = i + 1, opening "
               "a bin records [i, i+1) - every box of a bin lies inside its "
               "window" if not t_problems else "; ".join(t_problems),
               construct="window tables updated")
        for mk in ("__move_down", "__move_left"):
            cs = [c_ for c_ in ast.walk(dec.node) if isinstance(c_, ast.Call)
                  and isinstance(c_.func, ast.Name) and c_.func.id == mk]
            okm = bool(cs) and all(
                not c_.keywords and [ast.unparse(a).replace(" ", "")
                                     for a in c_.args] in (
                    [dec.params[1], "item_bin", "int(bin_start)",
                     "int(bin_end)", loop_i],
                    [dec.params[1], "item_bin", "bin_start", "bin_end",
                     loop_i]) for c_ in cs)
            ctx.ob("D14.4", dec, cs[0] if cs else dec.node, okm,
                   f"{mk}(packing, bin, window start, window end, i)"
                   if okm else f"{mk} is not called as (packing, bin, "
                   "window start, window end, current index)",
                   construct=f"arguments of {mk}")


# ------------------------------------------------------------------ D14.1
def _stateless_kernel(ctx: Ctx, dec: FuncInfo, enc2: bool,
                      C: dict[str, int]) -> None:
    from sa.checks.c13 import _decoder, _l1_hook
    repo = ctx.repo
    problems: list[tuple[ast.AST, str, str]] = []
    n_loads = [0]

    def load_hook(an: Analyzer, st: Any, arr: Any, fixed: dict[int, Lin],
                  node: ast.AST) -> None:
        if not an.loop_syms:
            return
        k = Lin.sym(an.loop_syms[0])
        if arr.name == "y" and 0 in fixed:
            n_loads[0] += 1
            idx = fixed[0]
            cur = entails(st.facts, idx - k) and entails(st.facts, k - idx)
            older = entails(st.facts, k - 1 - idx) and entails(
                st.facts, idx)
            if not (cur or older):
                problems.append((node, an.cur.qualname,
                                 f"row {idx} of the packing is read while "
                                 f"item {k} is placed: it is neither the "
                                 "current row nor provably an earlier one "
                                 "(stale contents of the destination could "
                                 "leak into the result)"))
        if arr.name in ("bin_starts", "bin_ends") and 0 in fixed:
            n_loads[0] += 1
            b = st.vals.get("bin_id")
            idx = fixed[0]
            if not (isinstance(b, Lin) and entails(
                    st.facts, b - 1 - idx) and entails(st.facts, idx)):
                problems.append((node, an.cur.qualname,
                                 f"{arr.name}[{idx}] is read but only cells "
                                 "below bin_id are known to be written in "
                                 "this call"))
    an = Analyzer(repo, dec, _decoder(enc2), infeasible=_l1_hook, peel=True)
    an.load_hook = load_hook
    an.run()
    ctx.count("packing_and_scratch_loads", n_loads[0])
    seen = set()
    for node, fn, why in problems:
        key = (getattr(node, "lineno", 0), why[:40])
        if key in seen:
            continue
        seen.add(key)
        ctx.ob("D14.1", dec, node, False, why, function=fn)
    if not problems:
        ctx.ob("D14.1", dec, dec.node, n_loads[0] > 0,
               f"{n_loads[0]} loads from the packing / bin tables: each row "
               "read is the current row or provably an earlier one; bin "
               "table cells read lie below bin_id",
               construct="reads of destination rows")
    # ---- write-before-read inside one iteration (CFG)
    loop = _item_loop(dec)
    cfg = CFG(loop.body)

    def stores_col(n: Any, col: int) -> bool:
        a = n.ast
        if n.kind != "stmt" or not isinstance(a, ast.Assign):
            return False
        t = a.targets[0]
        return isinstance(t, ast.Subscript) and isinstance(
            t.value, ast.Name) and t.value.id == "y" and isinstance(
            t.slice, ast.Tuple) and len(t.slice.elts) == 2 and \
            repo.const(dec.module, t.slice.elts[1]) == col

    movers = [n for n in cfg.nodes if n.kind == "test" and any(
        isinstance(c.func, ast.Name) and c.func.id.startswith("__move")
        for c in calls_in(n.ast))]
    ctx.need(movers, "move-kernel calls in the item loop")
    for cname in ("IDX_LEFT_X", "IDX_BOTTOM_Y", "IDX_RIGHT_X", "IDX_TOP_Y"):
        ok = all(cfg.dominated_by(m, lambda n, c=C[cname]: stores_col(n, c))
                 for m in movers)
        ctx.ob("D14.1", dec, loop, ok,
               f"column {cname} of the current row is written on every "
               "path before the move kernels read it" if ok else
               f"column {cname} of the current row may be read before it "
               "is written in this iteration",
               construct=f"write-before-read {cname}")
    for cname in ("IDX_ID", "IDX_BIN"):
        ok = cfg.postdominated_by(
            cfg.entry, lambda n, c=C[cname]: stores_col(n, c))
        if not ok:
            ok = _flag_protocol(loop, lambda st_, c=C[cname]: _is_store(
                repo, dec, st_, c))
        ctx.ob("D14.1", dec, loop, ok,
               f"column {cname} is stored on every path through an "
               "iteration (later iterations and the objectives read it)"
               if ok else f"a path through an iteration leaves column "
                          f"{cname} of the row unwritten",
               construct=f"always written {cname}")
    if enc2:
        # prefix initialisation of the bin tables
        body = func_body(dec)
        first_loop = body.index(loop)
        init0 = {t: False for t in ("bin_starts", "bin_ends")}
        for s in body[:first_loop]:
            if isinstance(s, ast.Assign) and isinstance(
                    s.targets[0], ast.Subscript) and isinstance(
                    s.targets[0].value, ast.Name) and \
                    s.targets[0].value.id in init0 and \
                    ast.unparse(s.targets[0].slice) == "0":
                init0[s.targets[0].value.id] = True
        ok0 = all(init0.values())
        # cell bin_id written right before the increment
        okp = False
        for s in ast.walk(loop):
            if isinstance(s, ast.If):
                names = [ast.unparse(x.targets[0]) for x in s.body
                         if isinstance(x, ast.Assign)]
                if "bin_id" in names:
                    i_inc = names.index("bin_id")
                    okp = "bin_starts[bin_id]" in names[:i_inc] and \
                        "bin_ends[bin_id]" in names[:i_inc]
        ctx.ob("D14.1", dec, loop, ok0 and okp,
               "bin tables: cell 0 is written before the loop and cell "
               "bin_id is written immediately before bin_id is incremented "
               "(cells [0, bin_id) are always initialised)" if ok0 and okp
               else "bin tables may be read at cells that were not written "
                    "in this call", construct="bin table prefix")


def _is_store(repo: Any, dec: FuncInfo, a: ast.stmt, col: int) -> bool:
    if not isinstance(a, ast.Assign):
        return False
    t = a.targets[0]
    return isinstance(t, ast.Subscript) and isinstance(
        t.value, ast.Name) and t.value.id == "y" and isinstance(
        t.slice, ast.Tuple) and len(t.slice.elts) == 2 and \
        repo.const(dec.module, t.slice.elts[1]) == col


def _flag_protocol(loop: ast.For, is_store: Any) -> bool:
    """`flag = True; for ..: if fit: flag = False; <store>; break` followed
    by `if flag: <store>`: the store happens on every path although no
    single statement post-dominates the iteration."""
    body = loop.body
    for i, s in enumerate(body):
        if not (isinstance(s, (ast.Assign, ast.AnnAssign)) and isinstance(
                s.value, ast.Constant) and s.value.value is True):
            continue
        tg = s.targets[0] if isinstance(s, ast.Assign) else s.target
        if not isinstance(tg, ast.Name):
            continue
        flag = tg.id
        clears = [n for n in ast.walk(ast.Module(body=body[i + 1:],
                                                 type_ignores=[]))
                  if isinstance(n, ast.If) and any(
                      isinstance(x, ast.Assign) and isinstance(
                          x.targets[0], ast.Name) and x.targets[0].id == flag
                      and isinstance(x.value, ast.Constant)
                      and x.value.value is False for x in n.body)]
        uses = [n for n in body[i + 1:] if isinstance(n, ast.If)
                and isinstance(n.test, ast.Name) and n.test.id == flag]
        others = [n for n in ast.walk(ast.Module(body=body[i + 1:],
                                                 type_ignores=[]))
                  if isinstance(n, (ast.Assign, ast.AnnAssign)) and any(
                      isinstance(t, ast.Name) and t.id == flag for t in (
                          n.targets if isinstance(n, ast.Assign)
                          else [n.target]))
                  and not (isinstance(n.value, ast.Constant)
                           and n.value.value is False)]
        if clears and len(uses) == 1 and not others and all(
                any(is_store(x) for x in c.body) for c in clears) and any(
                is_store(x) for x in uses[0].body):
            return True
    return False


def _stateless_class(ctx: Ctx, modn: str, dec: FuncInfo) -> None:
    repo = ctx.repo
    mod = repo.module(modn)
    cls = next((c for c in mod.classes.values()
                if "decode" in c.methods), None)
    ctx.need(cls is not None, f"{modn}: encoding class")
    bad = []
    for name, m in cls.methods.items():
        if name == "__init__":
            continue
        for n in ast.walk(m.node):
            if isinstance(n, (ast.Assign, ast.AugAssign, ast.AnnAssign)):
                for t in (n.targets if isinstance(n, ast.Assign)
                          else [n.target]):
                    if isinstance(t, ast.Attribute) and isinstance(
                            t.value, ast.Name) and t.value.id == "self":
                        bad.append(n)
            if isinstance(n, (ast.Global, ast.Nonlocal)):
                bad.append(n)
    ctx.ob("D14.1", cls.methods["decode"], bad[0] if bad else cls.node,
           not bad, "the encoding assigns its fields only in __init__" if
           not bad else f"`{ast.unparse(bad[0])[:60]}` changes encoder "
           "state outside __init__", construct="encoder fields immutable")
    d = cls.methods["decode"]
    ok = False
    for n in ast.walk(d.node):
        if isinstance(n, ast.Assign) and isinstance(
                n.targets[0], ast.Attribute) and \
                n.targets[0].attr == "n_bins" and isinstance(
                n.value, ast.Call) and repo.resolve_expr(
                mod, n.value.func) is dec:
            args = n.value.args
            ok = len(args) >= 2 and [ast.unparse(a) for a in args[:2]] == \
                d.params[1:3] and isinstance(
                n.targets[0].value, ast.Name) and \
                n.targets[0].value.id == d.params[2]
    ctx.ob("D14.1", d, d.node, ok,
           "decode(x, y) stores the kernel's bin count in y.n_bins and "
           "passes exactly (x, y, ...)", construct="decode wiring")
    eff_writes = []
    for n in ast.walk(d.node):
        if isinstance(n, (ast.Assign, ast.AugAssign)):
            for t in (n.targets if isinstance(n, ast.Assign)
                      else [n.target]):
                src = ast.unparse(t)
                if not src.startswith(d.params[2]):
                    eff_writes.append(n)
    ctx.ob("D14.1", d, eff_writes[0] if eff_writes else d.node,
           not eff_writes, "decode itself writes nothing but y.n_bins",
           construct="decode writes", nontrivial=False)

