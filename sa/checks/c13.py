"""C13 - compiled kernels never access memory outside their arrays."""
from __future__ import annotations

import ast
import os
from concurrent.futures import ProcessPoolExecutor
from typing import Any

from sa.absint import Analyzer, Contract
from sa.lin import Lin, entails
from sa.report import Ctx
from sa.srcmodel import ClassInfo, FuncInfo, Repo, func_body, inline_locals

M = "moptipyapps."


# --------------------------------------------------------------------------
# Layer 2: the contract table (what each kernel may assume).  Every entry is
# tied to the construct that establishes it (layer 3, `_establish`).
# --------------------------------------------------------------------------
def _decoder(enc2: bool) -> Contract:
    c = Contract()
    c.arrays = {
        "x": {"dims": ["n"], "abs_lo": 1, "abs_hi": "nd"},
        "y": {"dims": ["n", 6], "store_cols": {1: (1, "n")}},
        "instance": {"dims": ["nd", 3]},
    }
    if enc2:
        c.arrays["bin_starts"] = {"dims": ["n"], "scratch": True}
        c.arrays["bin_ends"] = {"dims": ["n"], "scratch": True}
    c.ints = {"bin_width": (1, None), "bin_height": (1, None)}
    c.facts = [lambda s: [s["n"] - 1, s["nd"] - 1]]
    c.lemmas = ["L1: the first item always fits the empty first bin "
                "(backed by C01 D1.1, the rotation lemma)"]
    return c


def _packing_kernel(extra: dict[str, Any] | None = None,
                    ints: dict[str, Any] | None = None) -> Contract:
    c = Contract()
    c.arrays = {"y": {"dims": ["n", 6], "cols": {
        0: (1, None), 1: (1, "n"), 2: (0, None), 3: (0, None),
        4: (0, None), 5: (0, None)}}}
    c.arrays.update(extra or {})
    c.ints = ints or {}
    c.facts = [lambda s: [s["n"] - 1]]
    return c


def _ttp(arrays: dict[str, Any], ints: dict[str, Any] | None = None) \
        -> Contract:
    c = Contract()
    c.arrays = {"y": {"dims": ["days", "teams"], "abs_lo": 0,
                      "abs_hi": "teams"}}
    c.arrays.update(arrays)
    c.ints = ints or {}
    c.facts = [lambda s: [s["teams"] - 2, s["days"] - 1]]
    return c


def _tsp_move(fea: bool) -> Contract:
    c = Contract()
    c.arrays = {"dist": {"dims": ["n_cities", "n_cities"]},
                "x": {"dims": ["n_cities"], "perm": True}}
    c.ints = {"i": (0, None), "j": (None, ("n_cities", -2)),
              "n_cities": (2, None), "y": (0, None)}
    c.facts = [lambda s: [s["j"] - s["i"] - 1]]
    if fea:
        c.arrays["h"] = {"dims": [("ub", 1)]}
        c.ints["y"] = (0, "ub")
        c.index_lemmas = {("rev_if_h_not_worse", "h", 0): (0, "ub")}
        c.lemmas = ["L2: the indices into h (y and the new length y + "
                    "delta) are true tour lengths, hence within "
                    "[0, tour_length_upper_bound] (backed by C05 D5.1/D5.4 "
                    "and C06 D6.1-D6.5)"]
    return c


def table(repo: Repo) -> dict[str, Contract]:
    """kernel "module:name" -> contract."""
    t: dict[str, Contract] = {}
    enc = M + "binpacking2d.encodings."
    t[enc + "ibl_encoding_1:_decode"] = _decoder(False)
    t[enc + "ibl_encoding_2:_decode"] = _decoder(True)
    ob = M + "binpacking2d.objectives."
    t[ob + "bin_count_and_last_empty:bin_count_and_last_empty"] = \
        _packing_kernel()
    t[ob + "bin_count_and_last_small:bin_count_and_last_small"] = \
        _packing_kernel(ints={"bin_area": (1, None)})
    t[ob + "bin_count_and_empty:bin_count_and_empty"] = _packing_kernel(
        {"temp": {"dims": ["n"]}})
    t[ob + "bin_count_and_small:bin_count_and_small"] = _packing_kernel(
        {"temp": {"dims": ["n"]}}, {"bin_area": (1, None)})
    for k in ("bin_count_and_last_skyline", "bin_count_and_lowest_skyline"):
        t[ob + f"{k}:{k}"] = _packing_kernel(
            ints={"bin_width": (1, None), "bin_height": (1, None)})
    c = Contract()
    c.arrays = {"instance": {"dims": ["n", "n"]},
                "x": {"dims": ["n"], "perm": True}}
    c.facts = [lambda s: [s["n"] - 2]]
    t[M + "tsp.tour_length:tour_length"] = c
    t[M + "tsp.ea1p1_revn:rev_if_not_worse"] = _tsp_move(False)
    t[M + "tsp.fea1p1_revn:rev_if_h_not_worse"] = _tsp_move(True)
    t[M + "ttp.errors:count_errors"] = _ttp(
        {"temp_1": {"dims": [Lin.sym("tri(teams)")]},
         "temp_2": {"dims": ["teams", "teams"]}},
        {k: (None, None) for k in (
            "home_streak_min", "home_streak_max", "away_streak_min",
            "away_streak_max", "separation_min", "separation_max")})
    t[M + "ttp.plan_length:game_plan_length"] = _ttp(
        {"distances": {"dims": ["teams", "teams"]}},
        {"bye_penalty": (0, None)})
    c = Contract()
    c.arrays = {"x": {"dims": ["m"]}, "y": {"dims": ["days", "n"]}}
    c.facts = [lambda s: [s["n"] - 2, s["days"] - 1]]
    t[M + "ttp.game_encoding:map_games"] = c
    c = Contract()
    c.arrays = {"x": {"dims": ["n"], "perm": True},
                "distances": {"dims": ["n", "n"]},
                "flows": {"dims": ["n", "n"]}}
    c.facts = [lambda s: [s["n"] - 1]]
    t[M + "qap.objective:_evaluate"] = c
    c = Contract()
    c.arrays = {"distances": {"dims": ["n", "n"]},
                "flows": {"dims": ["n", "n"]}}
    t[M + "qap.instance:trivial_bounds"] = c
    c = Contract()
    c.arrays = {"p1": {"dims": ["n"], "perm": True},
                "p2": {"dims": ["n"], "perm": True}}
    t[M + "order1d.distances:swap_distance"] = c
    c = Contract()
    c.arrays = {"x": {"dims": ["n"], "float": True}}
    t[M + "dynamic_control.ode:_is_ok"] = c
    c = Contract()
    c.arrays = {"ode": {"dims": ["R", "C"], "float": True},
                "dest": {"dims": ["L"], "float": True}}
    c.ints = {"state_dim": (1, ("C", -2)), "use_state_dims": (1, None)}
    c.facts = [lambda s: [s["R"] - 2, s["state_dim"] - s["use_state_dims"]]]
    c.lemmas = ["dest[index]: the counter store is sized by the polynomial "
                "identity of C10 D10.5 and is NOT decided here"]
    c.undecided = {"dest"}
    t[M + "dynamic_control.ode:__j_from_ode_compute"] = c
    c = Contract()
    c.arrays = {"x": {"dims": ["p"], "float": True},
                "pin": {"dims": ["rows", "sd"], "float": True},
                "pout": {"dims": ["rows", "sd"], "float": True},
                "temp_1": {"dims": ["rows"], "float": True},
                "temp_2": {"dims": ["sd"], "float": True}}
    t[M + "dynamic_control.model_objective:_evaluate"] = c
    c = Contract()
    c.arrays = {"x": {"dims": ["len"], "float": True}}
    c.ints = {"dim": (1, None)}
    t[M + "dynamic_control.starting_points:interesting_point_transform"] = c
    c = Contract()
    c.arrays = {"x": {"dims": ["len"], "float": True},
                "other": {"dims": ["m", "dim"], "float": True}}
    c.ints = {"dim": (1, None)}
    t[M + "dynamic_control.starting_points:interesting_point_objective"] = c
    return t


def _dyn_contracts(ctx: Ctx, t: dict[str, Contract]) -> None:
    """Controllers and systems: dimensions come from the factories."""
    from sa.checks.c16 import SYS_PKG, controller_sites
    repo = ctx.repo
    for s in controller_sites(ctx):
        if s.kernel is None or not all(
                isinstance(v, int) for v in (s.sd, s.cd, s.pd)):
            continue
        k = s.kernel
        if len(k.params) != 4:
            continue
        c = Contract()
        st, _t, pa, ou = k.params
        c.arrays = {st: {"dims": [s.sd], "float": True},
                    pa: {"dims": [s.pd], "float": True},
                    ou: {"dims": [s.cd], "float": True}}
        key = f"{k.module.name}:{k.name}"
        old = t.get(key)
        if old is not None:
            # the same kernel in two factories: keep the smaller dims
            for nm in (st, pa, ou):
                d0 = old.arrays[nm]["dims"][0]
                d1 = c.arrays[nm]["dims"][0]
                c.arrays[nm]["dims"] = [min(d0, d1)]
        t[key] = c
    sysc = repo.cls("moptipyapps.dynamic_control.system", "System")
    init = sysc.methods["__init__"]
    for mname in sorted(repo.modules):
        if not mname.startswith(SYS_PKG + "."):
            continue
        mod = repo.modules[mname]
        for fi in mod.funcs.values():
            if fi.njit is not None:
                continue
            kern = None
            dims = None
            for n in ast.walk(fi.node):
                if isinstance(n, ast.Assign) and isinstance(
                        n.targets[0], ast.Attribute) and \
                        n.targets[0].attr == "equations":
                    r = repo.resolve_expr(mod, n.value)
                    if isinstance(r, FuncInfo):
                        kern = r
                if isinstance(n, ast.Call):
                    r = repo.resolve_expr(mod, n.func)
                    if isinstance(r, ClassInfo) and sysc in repo.mro(r):
                        vals = [repo.const_in(fi, a) for a in n.args[:3]]
                        if all(isinstance(v, int) for v in vals[1:3]):
                            dims = (vals[1], vals[2])
            if kern is not None and dims is not None and len(
                    kern.params) == 4:
                c = Contract()
                st, _t, co, ou = kern.params
                c.arrays = {st: {"dims": [dims[0]], "float": True},
                            co: {"dims": [dims[1]], "float": True},
                            ou: {"dims": [dims[0]], "float": True}}
                t[f"{kern.module.name}:{kern.name}"] = c
    del init


def _l1_hook(an: Analyzer, node: ast.AST, st: Any) -> bool:
    """Lemma L1: in the first iteration of the item loop of `_decode` the
    new-bin branch (the one that increments bin_id) is not taken."""
    if an.cur.name != "_decode" or not an.loop_syms or not isinstance(
            node, ast.If):
        return False
    counters = {n.id for r in ast.walk(an.cur.node)
                if isinstance(r, ast.Return) and r.value is not None
                for n in ast.walk(r.value) if isinstance(n, ast.Name)
                and n.id != "int"}
    inc = any(isinstance(s, (ast.Assign, ast.AnnAssign, ast.AugAssign))
              and any(isinstance(t, ast.Name) and t.id in counters
                      for t in (s.targets if isinstance(s, ast.Assign)
                                else [s.target]))
              for s in node.body)
    first_round = entails(st.facts, -Lin.sym(an.loop_syms[0]))
    if not inc:
        # the same branch written as fall-through: `if placed: continue`
        # followed by the statements that open the new bin
        if first_round and node.body and isinstance(
                node.body[-1], ast.Continue) and not node.orelse:
            for blk in ast.walk(an.cur.node):
                for fld in ("body", "orelse"):
                    b = getattr(blk, fld, None)
                    if isinstance(b, list) and node in b:
                        rest = b[b.index(node) + 1:]
                        if any(isinstance(s_, (ast.Assign, ast.AnnAssign,
                                               ast.AugAssign))
                               and any(isinstance(t_, ast.Name)
                                       and t_.id in counters
                                       for t_ in (s_.targets if isinstance(
                                           s_, ast.Assign) else [s_.target]))
                               for s_ in rest):
                            return "else"     # type: ignore
        return False
    return first_round


def _analyse(args: tuple[str, str, str]) -> dict[str, Any]:
    root, modn, name = args
    repo = Repo(root)
    t = table(repo)

    class _C:        # minimal ctx for _dyn_contracts
        pass
    from sa.report import Ctx as RCtx
    rc = RCtx("C13", "quick", repo)
    _dyn_contracts(rc, t)
    fi = repo.func(modn, name)
    c = t[f"{modn}:{name}"]
    is_dec = name == "_decode"
    an = Analyzer(repo, fi, c, infeasible=_l1_hook if is_dec else None,
                  peel=is_dec)
    import time
    t0 = time.time()
    an.run()
    dt = time.time() - t0
    sites: dict[tuple, dict[str, Any]] = {}
    undecided = getattr(c, "undecided", set())
    for o in an.obligations:
        key = (o.func.module.relpath, getattr(o.node, "lineno", 0),
               getattr(o.node, "col_offset", 0), o.func.qualname,
               " ".join(ast.unparse(o.node).split())[:80])
        s = sites.setdefault(key, {"ok": True, "detail": o.detail,
                                   "desc": o.desc, "n": 0,
                                   "undecided": False, "real": 0})
        s["n"] += 1
        s["real"] += 1
        if not o.ok:
            if any(o.desc.startswith(u + " ") or o.desc.startswith(
                    u + "[") for u in undecided):
                s["undecided"] = True
            if s["ok"]:
                s["detail"] = o.detail
                s["desc"] = o.desc
            s["ok"] = False
    inlined = sorted({o.func.qualname for o in an.obligations
                      if o.func is not fi})
    # coverage: every subscript of the kernel and of its inlined callees
    # must have been reached by the analysis
    unreached = []
    funcs = [fi] + [f for f in repo.all_funcs()
                    if f.qualname in inlined and f.module is fi.module]
    for f in funcs:
        ann: set[int] = set()
        for nd in ast.walk(f.node):
            if isinstance(nd, ast.AnnAssign):
                ann |= {id(x) for x in ast.walk(nd.annotation)}
            if isinstance(nd, ast.arg) and nd.annotation is not None:
                ann |= {id(x) for x in ast.walk(nd.annotation)}
        if f.node.returns is not None:
            ann |= {id(x) for x in ast.walk(f.node.returns)}
        for nd in ast.walk(f.node):
            if isinstance(nd, ast.Subscript) and id(nd) not in ann:
                if (f.qualname, nd.lineno, nd.col_offset) not in an.visited:
                    unreached.append((f.module.relpath, nd.lineno,
                                      nd.col_offset, f.qualname,
                                      " ".join(ast.unparse(nd).split())))
    return {"kernel": f"{modn}:{name}", "sites": [
        {"file": k[0], "line": k[1], "col": k[2], "func": k[3],
         "src": k[4], **v} for k, v in sites.items()],
        "positions": an.n_index_positions, "inlined": inlined,
        "unreached": unreached,
        "notes": sorted(set(an.notes))[:10], "lemmas": c.lemmas,
        "seconds": round(dt, 2)}


def _control_width(ctx: Ctx) -> None:
    """The controller kernels write `out[0..control_dims-1]`, the system
    kernels read as many cells of `control`; both arrays are allocated by
    `run_ode` from its parameter `controller_dim`, which defaults to 1.
    Every call site of run_ode / multi_run_ode must therefore hand over the
    control width of the controller / system it simulates."""
    from sa.srcmodel import bound_args, inline_locals
    repo = ctx.repo
    mod = repo.module("moptipyapps.dynamic_control.ode")
    targets = [f for f in (mod.funcs.get("run_ode"),
                           mod.funcs.get("multi_run_ode")) if f is not None]
    ctx.need(len(targets) == 2, "run_ode and multi_run_ode")
    n = 0
    for fi in repo.all_funcs():
        if not fi.module.name.startswith("moptipyapps.dynamic_control"):
            continue
        for c in ast.walk(fi.node):
            if not isinstance(c, ast.Call):
                continue
            callee = repo.resolve_expr(fi.module, c.func)
            if callee not in targets:
                continue
            n += 1
            args = bound_args(c, list(callee.params))
            a = args.get("controller_dim")
            what = f"{callee.name} call in {fi.qualname}"
            if a is None:
                ctx.ob("D13.3", fi, c, False,
                       f"{fi.qualname}: {callee.name}(...) does not pass "
                       "`controller_dim`: the control arrays get the default "
                       "width 1, but the controller and the equations it "
                       "simulates index them up to their control_dims - 1",
                       construct=what + " (control width)")
                continue
            e = inline_locals(fi.node, a)
            leaf = e.attr if isinstance(e, ast.Attribute) else (
                e.id if isinstance(e, ast.Name) else None)
            ok = leaf in ("controller_dim", "control_dims")
            why = ""
            if not ok and isinstance(e, ast.Attribute) and isinstance(
                    e.value, ast.Name) and e.value.id == "self" and \
                    fi.cls is not None:
                # a field of the object: initialised from `.control_dims`
                init = repo.lookup_method(fi.cls, "__init__")
                for st in ast.walk(init.node) if init else []:
                    tg = st.targets[0] if isinstance(
                        st, ast.Assign) and len(st.targets) == 1 else (
                        st.target if isinstance(st, ast.AnnAssign)
                        and st.value is not None else None)
                    if isinstance(tg, ast.Attribute) and tg.attr.lstrip(
                            "_") == e.attr.lstrip("_").split("__")[-1]:
                        v = inline_locals(init.node, st.value)
                        lf = v.attr if isinstance(v, ast.Attribute) else (
                            v.id if isinstance(v, ast.Name) else None)
                        ok = lf in ("controller_dim", "control_dims")
                        why = f" (field set from `{ast.unparse(v)}`)"
            const = isinstance(e, ast.Constant)
            ctx.ob("D13.3", fi, c, ok,
                   f"{fi.qualname}: {callee.name} receives the control "
                   f"width `{ast.unparse(a)}`{why}" if ok else
                   f"{fi.qualname}: {callee.name} receives the constant "
                   f"{ast.unparse(e)} as control width, not the "
                   "controller's control_dims" if const else
                   f"{fi.qualname}: the control width `{ast.unparse(a)}` "
                   f"handed to {callee.name} is not recognised as the "
                   "controller's control_dims",
                   construct=what + " (control width)")
    ctx.floor("control_width_call_sites", n, 3)


def run(ctx: Ctx) -> None:
    repo = ctx.repo
    ctx.explanation = (
        "Three layers. (1) Every subscript position of every "
        "boundscheck=False njit kernel is an obligation -extent <= index "
        "<= extent-1, discharged by abstract interpretation (linear facts "
        "over symbolic shapes, Houdini template invariants at loop heads, "
        "element-range summaries, exact Fourier-Motzkin entailment, a "
        "triangular-number lemma) under the kernel's contract. (2) The "
        "contract table names shapes and element ranges per kernel "
        "parameter. (3) Each contract is discharged at the allocation, "
        "validator or sibling check that establishes it. A kernel without "
        "a contract, or a site that cannot be proven, is reported.")
    ctx.rule("D13.1", "in-kernel: every index position proven in range "
             "under the contract")
    ctx.rule("D13.2", "every kernel has a contract or is inlined into one "
             "that has")
    ctx.rule("D13.3", "contracts are established by the allocations / "
             "validators of the package")
    t = table(repo)
    _dyn_contracts(ctx, t)
    _control_width(ctx)
    # generated network kernels index state / params / out by the dimensions
    # they were generated for (C16 D16.4/D16.7): the cache must hand one out
    # only for exactly those dimensions
    from sa.checks.c16 import _memo_key
    _memo_key(ctx, repo.func(
        "moptipyapps.dynamic_control.controllers.ann", "make_ann"), "D13.3")
    kernels = repo.kernels()
    ctx.floor("kernels", len(kernels), 57)
    jobs = []
    by_key = {f"{k.module.name}:{k.name}": k for k in kernels}
    for key in sorted(t):
        if key not in by_key:
            # contract for a vanished kernel: the table is stale
            from sa.srcmodel import AnalysisError
            raise AnalysisError(f"contract table names missing kernel {key}")
        modn, name = key.split(":")
        jobs.append((repo.root, modn, name))
    workers = min(16, len(jobs), os.cpu_count() or 4)
    with ProcessPoolExecutor(max_workers=workers) as ex:
        results = list(ex.map(_analyse, jobs))
    slow = sorted(((r["seconds"], r["kernel"]) for r in results),
                  reverse=True)[:4]
    ctx.notes.append("slowest kernels: " + ", ".join(
        f"{k.split(':')[1]} {s_}s" for s_, k in slow))
    covered: set[str] = set()
    positions = 0
    n_sites = 0
    for res in results:
        kern = by_key[res["kernel"]]
        covered.add(kern.qualname + "@" + kern.module.name)
        for q in res["inlined"]:
            covered.add(q)
        positions += res["positions"]
        for lem in res["lemmas"]:
            if lem not in ctx.assumptions:
                ctx.assumptions.append(lem)
        for s in res["sites"]:
            n_sites += 1
            mod = next(m for m in repo.modules.values()
                       if m.relpath == s["file"])

            class _N:
                lineno = s["line"]
                col_offset = s["col"]
            if s["real"] == 0:
                ctx.ob("D13.1", mod, _N, False,
                       "this site was only reached under contradictory "
                       "facts: either dead code or an artefact of the "
                       "analysis - not accepted as a proof",
                       function=s["func"], construct=s["src"])
                continue
            if s["undecided"]:
                ctx.count("sites_not_decided")
                ctx.notes.append(
                    f"{s['file']}:{s['line']} `{s['src']}` not decided "
                    "(see lemma list)")
                continue
            ctx.ob("D13.1", mod, _N, s["ok"], s["detail"][:900],
                   function=s["func"], construct=s["src"],
                   nontrivial="index " in s["detail"])
        for u in res["unreached"]:
            mod = next(m for m in repo.modules.values()
                       if m.relpath == u[0])

            class _U:
                lineno = u[1]
                col_offset = u[2]
            ctx.ob("D13.1", mod, _U, False,
                   "the analysis never reached this subscript under "
                   "consistent facts (dead code, or the facts leading here "
                   "are contradictory): not accepted as proven",
                   function=u[3], construct=u[4])
        for n in res["notes"]:
            if n not in ctx.notes:
                ctx.notes.append(n)
    ctx.count("index_positions", positions)
    ctx.count("sites", n_sites)
    # ---- D13.2: every kernel covered
    inl_names = {q for q in covered if "@" not in q}
    for k in kernels:
        key = k.qualname + "@" + k.module.name
        has = key in covered or k.qualname in inl_names
        ann = {id(x) for n in ast.walk(k.node)
               for a_ in ([n.annotation] if isinstance(
                   n, (ast.AnnAssign, ast.arg)) and n.annotation is not None
                   else [k.node.returns] if n is k.node and k.node.returns
                   is not None else [])
               for x in ast.walk(a_)}
        trivial = not any(isinstance(n, ast.Subscript) and id(n) not in ann
                          for n in ast.walk(k.node))
        ctx.ob("D13.2", k, k.node, has or trivial,
               "kernel has a contract" if key in covered else
               "kernel is analysed inlined into its caller" if has else
               "kernel has no subscripts" if trivial else
               "NEW kernel without a contract: its index safety is not "
               "established", construct=f"contract for {k.name}",
               nontrivial=False)
    ctx.floor("kernel_sites", n_sites, 300)
    _establish(ctx)
    ctx.assumptions += [
        "N3: a negative index k is in range iff -extent <= k",
        "N4: basic slices are clamped and cannot fault",
        "P1/P2: Permutations / SignedPermutations element ranges",
        "reads of scratch arrays only touch cells written in the same call "
        "(decided under C14 D14.1)",
    ]


# --------------------------------------------------------------------------
# Layer 3: establishment of the contracts
# --------------------------------------------------------------------------
def _alloc_size(repo: Repo, cls: ClassInfo, attr: str) \
        -> tuple[FuncInfo, ast.AST, Any] | None:
    """`self.<attr> = np.empty(<size>, ...)` in __init__ -> symterm size."""
    from sa.kern import make_evaluator
    from sa.srcmodel import mangle
    from sa.symterm import Env, Poly, Unsupported
    init = cls.methods.get("__init__")
    if init is None:
        return None
    ev = make_evaluator(repo, init)
    env = Env()
    for s in func_body(init):
        if isinstance(s, (ast.Assign, ast.AnnAssign)) and getattr(
                s, "value", None) is not None:
            tg = s.targets[0] if isinstance(s, ast.Assign) else s.target
            if isinstance(tg, ast.Attribute) and isinstance(
                    tg.value, ast.Name) and tg.value.id == "self" and \
                    mangle(cls.name, tg.attr) == mangle(cls.name, attr):
                v = s.value
                shape_kw = next((k_.value for k_ in getattr(
                    v, "keywords", []) if k_.arg == "shape"), None)
                if isinstance(v, ast.Call) and isinstance(
                        v.func, ast.Attribute) and v.func.attr in (
                        "empty", "zeros") and (v.args or shape_kw
                                               is not None):
                    try:
                        a0 = v.args[0] if v.args else shape_kw
                        if isinstance(a0, ast.Tuple):
                            return init, s, tuple(
                                ev.num(env, x) for x in a0.elts)
                        return init, s, ev.num(env, a0)
                    except Unsupported:
                        return init, s, None
            try:
                env = ev.stmt(env, s)
            except Unsupported:
                for n in ast.walk(s):
                    if isinstance(n, ast.Name) and isinstance(
                            n.ctx, ast.Store):
                        env.vars[n.id] = Poly.var(n.id + "?")
    return None


def _new_shape(repo: Repo, new: FuncInfo) -> tuple[Any, ast.AST | None]:
    """The shape tuple handed to `super().__new__(cls, <shape>, ...)`, as
    values (locals of __new__ evaluated in order)."""
    from sa.kern import make_evaluator, py_calls
    from sa.symterm import Env, Unsupported
    from sa.srcmodel import inline_locals
    ev = make_evaluator(repo, new, extra_call=py_calls)
    ev.int_transparent = True
    for nd in ast.walk(new.node):
        if isinstance(nd, ast.Call) and isinstance(
                nd.func, ast.Attribute) and nd.func.attr == "__new__" \
                and (len(nd.args) >= 2 or any(
                    k_.arg == "shape" for k_ in nd.keywords)):
            shp = nd.args[1] if len(nd.args) >= 2 else next(
                k_.value for k_ in nd.keywords if k_.arg == "shape")
            try:
                v = ev.expr(Env(), inline_locals(new.node, shp))
            except Unsupported:
                return None, nd
            return (v if isinstance(v, tuple) else None), nd
    return None, None


def _qap_shape_guards(repo: Repo, qi: FuncInfo) -> bool:
    """Raising guards reject: len(shape) != 2, shape[0] != shape[1] and
    shape != flows.shape (compared as conditions over values)."""
    from sa.casesplit import equivalent
    from sa.guards import GuardWalk, is_opaque
    from sa.kern import make_evaluator, py_calls
    from sa.symterm import Env, Poly, _eq, c_not
    ev = make_evaluator(repo, qi, extra_call=py_calls)
    gw = GuardWalk(ev)
    gw.walk(Env(), func_body(qi))
    dpar, fpar = qi.params[1], qi.params[2]
    sh = Poly.var(f"{dpar}.shape")
    fsh = Poly.var(f"{fpar}.shape")
    c0 = Poly.atom(("cell", f"{dpar}.shape", (Poly.const(0),)))
    c1 = Poly.atom(("cell", f"{dpar}.shape", (Poly.const(1),)))
    ln = Poly.atom(("app", "len", (sh,)))
    wants = [c_not(_eq(ln, Poly.const(2))), c_not(_eq(c0, c1)),
             c_not(_eq(sh, fsh))]
    conds = [e.cond for e in gw.exits if e.kind == "raise"
             and not is_opaque(e.cond)]
    return all(any(equivalent(c, w)[0] for c in conds) for w in wants)


def _establish(ctx: Ctx) -> None:
    from sa.symterm import Poly, show
    repo = ctx.repo
    R = "D13.3"
    # ---- TTP scratch arrays
    ecls = repo.cls(M + "ttp.errors", "Errors")
    n = Poly.var("instance.n_cities")
    a = _alloc_size(repo, ecls, "__temp_1")
    want = Poly.atom(("app", "floordiv", (n * (n - Poly.const(1)),
                                          Poly.const(2))))
    ok = a is not None and a[2] == want
    ctx.ob(R, a[0] if a else None, a[1] if a else None, ok,
           f"Errors.__temp_1 has {show(a[2]) if a and a[2] is not None else '?'}"
           " cells; count_errors assumes n(n-1)/2 (triangular pair index)",
           function="Errors.__init__", construct="len(temp_1) = n(n-1)/2")
    a = _alloc_size(repo, ecls, "__temp_2")
    ok = a is not None and a[2] == (n, n)
    ctx.ob(R, a[0] if a else None, a[1] if a else None, ok,
           "Errors.__temp_2 is allocated as (n, n)",
           function="Errors.__init__", construct="temp_2 shape (n, n)")
    # ---- scratch arrays of the packing encodings / objectives
    for modn, cls, attr in (
            (M + "binpacking2d.encodings.ibl_encoding_2",
             "ImprovedBottomLeftEncoding2", "__bin_starts"),
            (M + "binpacking2d.encodings.ibl_encoding_2",
             "ImprovedBottomLeftEncoding2", "__bin_ends"),
            (M + "binpacking2d.objectives.bin_count_and_empty",
             "BinCountAndEmpty", "__temp"),
            (M + "binpacking2d.objectives.bin_count_and_small",
             "BinCountAndSmall", "__temp")):
        c = repo.cls(modn, cls)
        init = c.methods.get("__init__")
        a_ = _alloc_size(repo, c, attr)
        ipar = init.params[1] if init is not None and len(
            init.params) > 1 else "instance"
        ok = a_ is not None and a_[2] == Poly.var(f"{ipar}.n_items")
        ctx.ob(R, init, (a_[1] if a_ else None) or (
            init.node if init else None), ok,
               f"{cls}.{attr} is allocated with n_items cells" if ok else
               f"{cls}.{attr}: allocation with n_items cells not found",
               construct=f"len({attr}) = n_items")
    # ---- wrappers bind scratch / matrix fields to the kernel parameter of
    # the same name (a swap of two equally typed arrays would still run)
    n_bind = 0
    for k in repo.kernels():
        pn = [p_.strip("_") for p_ in k.params]
        for mod in repo.modules.values():
            if not mod.name.startswith("moptipyapps."):
                continue
            for fi in mod.funcs.values():
                if fi.njit is not None:
                    continue
                for c in ast.walk(fi.node):
                    if not (isinstance(c, ast.Call) and isinstance(
                            c.func, ast.Name)):
                        continue
                    if repo.resolve(mod, c.func.id) is not k:
                        continue
                    for pos, a in enumerate(c.args):
                        a = inline_locals(fi.node, a)
                        if isinstance(a, ast.Attribute):
                            fld = a.attr.strip("_")
                            if fld in pn and pos < len(pn):
                                n_bind += 1
                                okb = pn[pos] == fld
                                ctx.ob(R, fi, c, okb,
                                       f"{fi.qualname}: field `{a.attr}` is "
                                       f"passed as parameter `{k.params[pos]}`"
                                       f" of {k.name}" + ("" if okb else
                                       f" although the kernel has a "
                                       f"parameter named `{fld}`: swapped "
                                       "arguments"),
                                       construct=f"{k.name} arg {fld}")
    ctx.count("kernel_field_bindings", n_bind)
    # ---- shapes of Packing and GamePlan
    for modn, cls, want_src in (
            (M + "binpacking2d.packing", "Packing",
             ("instance.n_items", "6")),
            (M + "ttp.game_plan", "GamePlan", None)):
        c = repo.cls(modn, cls)
        new = ctx.need(c.methods.get("__new__"), f"{cls}.__new__")
        shape, shape_node = _new_shape(repo, new)
        ipar = new.params[1] if len(new.params) > 1 else "instance"
        if cls == "Packing":
            ok = shape == (Poly.var(f"{ipar}.n_items"), Poly.const(6))
            msg = "Packing is allocated as (instance.n_items, 6)"
        else:
            nc = Poly.var(f"{ipar}.n_cities")
            ok = shape == ((nc - Poly.const(1)) * Poly.var(
                f"{ipar}.rounds"), nc)
            msg = "GamePlan is allocated as ((n-1)*rounds, n), n = n_cities"
        ctx.ob(R, new, shape_node or new.node, ok, msg,
               construct=f"{cls} shape")
        del want_src
    # ---- element range of game plans: GamePlanSpace.validate
    _plan_range(ctx)
    # ---- cross references to sibling checks that establish contracts
    ctx.notes += [
        "packing bin column in [1, n_items]: producer side = store "
        "obligations of both decoders (this check); parsed packings = C04 "
        "D4.1 clause F3",
        "scratch size of packing objectives: also C02 D2.3",
        "TSP move indices 0 <= i < j <= n-2 and h table size: C06 D6.5",
        "QAP matrices square and of equal shape: see D13.3 below",
        "controller / system array sizes: taken from the Controller(...) "
        "and System(...) factory calls; index use vs declared size is also "
        "C16 D16.0",
    ]
    qi = repo.func(M + "qap.instance", "Instance.__init__")
    ok = _qap_shape_guards(repo, qi)
    ctx.ob(R, qi, qi.node, ok,
           "QAP Instance rejects non-square distances and a flow matrix of "
           "another shape", construct="QAP matrix shapes")
    # FEA frequency table: one cell per possible tour length 0..UB
    fs = repo.func(M + "tsp.fea1p1_revn", "TSPFEA1p1revn.solve")
    okh = False
    hn: ast.AST = fs.node
    from sa.kern import make_evaluator as _mk
    from sa.symterm import Env as _Env, Poly as _Poly, Unsupported as _Uns
    for nd in ast.walk(fs.node):
        if isinstance(nd, ast.Call) and isinstance(
                nd.func, ast.Attribute) and nd.func.attr in (
                "zeros", "empty") and (nd.args or any(
                    k_.arg == "shape" for k_ in nd.keywords)):
            size_e = inline_locals(fs.node, nd.args[0] if nd.args else next(
                k_.value for k_ in nd.keywords if k_.arg == "shape"))
            src = ast.unparse(size_e).replace(" ", "")
            if "tour_length_upper_bound" in src:
                hn = nd
                # by value: size - upper bound == 1 (the bound may be read
                # through a local alias of the instance)
                try:
                    ev_ = _mk(repo, fs)
                    ev_.int_transparent = True
                    sz = ev_.num(_Env(), size_e)
                    ubs = [a_ for a_ in sz.atoms() if a_[0] == "var"
                           and str(a_[1]).endswith(
                               "tour_length_upper_bound")]
                    okh = len(ubs) == 1 and (
                        sz - _Poly.atom(ubs[0])).const_value() == 1
                except _Uns:
                    okh = src.endswith("tour_length_upper_bound+1") or \
                        src.startswith("1+")
    ctx.ob(R, fs, hn, okh,
           "the FEA's frequency table has tour_length_upper_bound + 1 "
           "cells (the kernel indexes it with lengths 0..UB)" if okh else
           "the FEA's frequency table is not sized tour_length_upper_bound "
           "+ 1: the kernel's h[y] can reach beyond its end",
           construct="len(h) = UB + 1")
    # j_from_ode guards
    jf = repo.func(M + "dynamic_control.ode", "j_from_ode")
    from sa.casesplit import equivalent
    from sa.kern import make_evaluator, py_calls
    from sa.symterm import Env, Poly, Unsupported
    jev = make_evaluator(repo, jf, extra_call=py_calls)
    rows = Poly.atom(("app", "len", (Poly.var(jf.params[0]),)))
    ok = False
    for nd in ast.walk(jf.node):
        if isinstance(nd, ast.If) and nd.body and isinstance(
                nd.body[-1], ast.Return):
            try:
                c = jev.cond(Env(), nd.test)
            except Unsupported:
                continue
            # integer row counts: len < 2, len <= 1, not len > 1 ... alike
            ok = ok or equivalent(c, ("le", rows, Poly.const(1)))[0]
    if not ok:
        # the same guard written the other way round (`if 1 < rows:
        # <compute>`): every path that reaches the kernel implies rows >= 2
        from sa.lin import Lin, entails
        from sa.pathinline import paths as _paths
        from sa.symterm import c_not
        try:
            reach = []
            for q in _paths(func_body(jf)):
                if any("__j_from_ode_compute" in ast.unparse(e_.value)
                       for e_ in q.events if e_.kind == "expr"
                       and isinstance(e_.value, ast.AST)):
                    facts = []
                    for t_, tr_ in q.guards:
                        c_ = jev.cond(Env(), t_)
                        if not tr_:
                            c_ = c_not(c_)
                        for cc in (c_[1:] if c_[0] == "and" else [c_]):
                            if cc[0] in ("lt", "le") and all(
                                    isinstance(x_, Poly) for x_ in cc[1:]):
                                d_ = cc[2] - cc[1]
                                co = d_.terms.get(
                                    ((rows.as_atom(), 1),), 0)
                                k0 = d_.terms.get((), 0)
                                if set(d_.terms) <= {(), ((rows.as_atom(),
                                                           1),)}:
                                    ln = Lin({"rows": co}, k0)
                                    facts.append(
                                        ln - 1 if cc[0] == "lt" else ln)
                    reach.append(entails(facts, Lin.sym("rows") - 2))
            ok = bool(reach) and all(reach)
        except Exception:  # noqa: BLE001
            ok = False
    ctx.ob(R, jf, jf.node, ok, "j_from_ode reaches the kernel only when "
           "the simulation has at least two rows" if ok else
           "j_from_ode is not recognised as reaching the kernel only with "
           "at least two rows",
           construct="j_from_ode row guard", nontrivial=False)


def _cond_atoms(c: Any) -> set:
    from sa.symterm import Poly, all_atoms
    out: set = set()
    if isinstance(c, Poly):
        return set(all_atoms(c))
    if isinstance(c, tuple):
        for x in c[1:]:
            out |= _cond_atoms(x)
    return out


def _plan_range(ctx: Ctx) -> None:
    from sa.guards import GuardWalk, is_opaque
    from sa.kern import make_evaluator, py_calls
    from sa.symterm import Env, Poly, c_and, show_cond
    repo = ctx.repo
    vf = repo.func(M + "ttp.game_plan_space", "GamePlanSpace.validate")
    ev = make_evaluator(repo, vf, extra_call=py_calls)
    ev.int_transparent = True
    ev.compose_rows = True
    gw = GuardWalk(ev)
    env = Env()
    env.vars["self"] = Poly.var("self")
    gw.walk(env, func_body(vf))
    n = Poly.var("self.instance.n_cities")
    ok = False
    from sa.guards import opaque_note
    detail = opaque_note(gw.exits, lambda e: len(e.loops) == 2) + \
        "no raising range check over all cells found"
    node: ast.AST = vf.node
    import dataclasses as _dc
    for e in gw.exits:
        if e.kind != "raise" or len(e.loops) != 2 or is_opaque(e.cond):
            continue
        if e.cond == ("true",) and not is_opaque(e.path):
            # an unconditional raise behind `if <in range>: continue`: the
            # condition is what is left of the path of this round
            e = _dc.replace(e, cond=e.path)
        lv = [lp.target.id for lp in e.loops
              if isinstance(lp.target, ast.Name)]
        enum_form = False
        if len(lv) != 2:
            # for i, row in enumerate(x): for j, v in enumerate(row): all
            # cells of x, whatever its shape
            lo_, li_ = e.loops

            def en(lp: ast.For) -> tuple[str, str, str] | None:
                if isinstance(lp.iter, ast.Call) and isinstance(
                        lp.iter.func, ast.Name) and \
                        lp.iter.func.id == "enumerate" and len(
                        lp.iter.args) == 1 and isinstance(
                        lp.iter.args[0], ast.Name) and isinstance(
                        lp.target, ast.Tuple) and len(
                        lp.target.elts) == 2 and all(isinstance(
                            t, ast.Name) for t in lp.target.elts):
                    return (lp.iter.args[0].id, lp.target.elts[0].id,
                            lp.target.elts[1].id)
                return None
            eo, ei = en(lo_), en(li_)
            if eo is None or ei is None or eo[0] != vf.params[1] or \
                    ei[0] != eo[2]:
                continue
            v = Poly.var(ei[2])
            enum_form = True
        else:
            v = Poly.atom(("cell", vf.params[1], (Poly.var(lv[0]),
                                                  Poly.var(lv[1]))))
        want = ("not", c_and(("le", -n, v), ("le", v, n)))
        from sa.checks.c05 import _same_cond
        alt = ("or", ("lt", v, -n), ("lt", n, v))
        from sa.casesplit import equivalent as _equiv
        try:
            same = _same_cond(e.cond, want) or e.cond == alt or \
                _same_cond(e.cond, alt) or _equiv(e.cond, want)[0]
        except Exception:  # noqa: BLE001
            same = False
        if not same and not ok:
            mentions = v.as_atom() in _cond_atoms(e.cond)
            if mentions:
                detail = (f"the check of the cells raises when "
                          f"[{show_cond(e.cond)[:200]}], which is not "
                          f"`cell < -n or n < cell` (n = number of teams): "
                          "plans with legal entries are rejected or "
                          "illegal ones accepted")
                node = e.node
        if same:
            full = []
            for lp, hi in zip(() if enum_form else e.loops, ((
                    n - Poly.const(1)) * Poly.var(
                    "self.instance.rounds"), n)):
                it = lp.iter
                try:
                    full.append(isinstance(it, ast.Call) and len(
                        it.args) == 1 and ev.num(
                        gw.loop_envs[id(lp)], it.args[0]) == hi)
                except Exception:  # noqa: BLE001
                    full.append(False)
            ok = all(full)
            detail = (f"validate raises when [{show_cond(e.cond)}] for "
                      "every cell" + ("" if ok else " - but the loops do "
                                      "not cover the whole plan"))
            node = e.node
    ctx.ob("D13.3", vf, node, ok, detail,
           construct="game plan entries in [-n, n]")
