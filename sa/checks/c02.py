"""C02 - packing objectives agree with bin count, definitions and bounds."""
from __future__ import annotations

import ast
from fractions import Fraction
from typing import Any

from sa.cfg import CFG
from sa.guards import GuardWalk, is_opaque
from sa.kern import make_evaluator
from sa.loopsum import LoopSummariser, has_opaque, kvar, r_cell
from sa.report import Ctx
from sa.srcmodel import (ClassInfo, FuncInfo, func_body, inline_locals,
                         mangle)
from sa.symterm import (Env, Evaluator, Poly, Unsupported, all_atoms,
                        nested_polys, show, show_cond)

PR = "moptipyapps.binpacking2d.packing_result"
PK = "moptipyapps.binpacking2d.packing"
N_ITEMS = Poly.var("INST.n_items")


class ClassModel:
    """Field table of an objective class (from the __init__ chain)."""

    def __init__(self, ctx: Ctx, cls: ClassInfo) -> None:
        self.ctx = ctx
        self.cls = cls
        self.fields: dict[str, Any] = {}
        repo = ctx.repo
        for c in reversed([c for c in repo.mro(cls)
                           if isinstance(c, ClassInfo)]):
            init = c.methods.get("__init__")
            if init is None:
                continue
            ev = make_evaluator(repo, init, extra_call=self._calls)
            ev.int_transparent = True
            env = Env()
            if len(init.params) >= 2:
                env.vars[init.params[1]] = Poly.var("INST")
            for s in func_body(init):
                if isinstance(s, (ast.Assign, ast.AnnAssign)) and getattr(
                        s, "value", None) is not None:
                    tg = s.targets[0] if isinstance(s, ast.Assign) \
                        else s.target
                    if isinstance(tg, ast.Attribute) and isinstance(
                            tg.value, ast.Name) and tg.value.id == "self":
                        try:
                            v = ev.expr(env, s.value)
                        except Unsupported:
                            v = None
                        self.fields[mangle(c.name, tg.attr)] = v
                    elif isinstance(tg, ast.Name):
                        # a local of the constructor (hoisted value)
                        try:
                            env = ev.stmt(env, s)
                        except Unsupported:
                            env.vars.pop(tg.id, None)

    @staticmethod
    def _calls(ev: Evaluator, env: Env, n: ast.Call) -> Any:
        f = n.func
        if isinstance(f, ast.Attribute) and f.attr in (
                "empty", "zeros") and n.args:
            return Poly.atom(("app", "newarray", (ev.num(env, n.args[0]),)))
        return NotImplemented

    def resolve(self, p: Any, owner: ClassInfo) -> Any:
        """Replace `self.<field>` variables by their constructor values."""
        if not isinstance(p, Poly):
            return p
        mapping = {}
        for a in all_atoms(p):
            if a[0] == "var" and isinstance(a[1], str) and \
                    a[1].startswith("self."):
                parts = a[1].split(".")
                fld = mangle(owner.name, parts[1])
                val = self.fields.get(fld)
                if val is None:
                    # inherited non-private field
                    val = self.fields.get(parts[1])
                if isinstance(val, Poly):
                    if len(parts) == 2:
                        mapping[a] = val
                    else:
                        at = val.as_atom()
                        if at is not None and at[0] == "var":
                            mapping[a] = Poly.var(
                                ".".join([at[1]] + parts[2:]))
        return p.subst(mapping)


def _method_calls(ev: Evaluator, env: Env, n: ast.Call) -> Any:
    f = n.func
    if isinstance(f, ast.Name) and f.id == "ceil_div" and len(n.args) == 2:
        return Poly.atom(("app", "ceil_div", (ev.num(env, n.args[0]),
                                              ev.num(env, n.args[1]))))
    return NotImplemented


def _eval_method(ctx: Ctx, cm: ClassModel, name: str) \
        -> tuple[FuncInfo, Any]:
    repo = ctx.repo
    fi = ctx.need(repo.lookup_method(cm.cls, name),
                  f"{cm.cls.name}.{name}")
    ev = make_evaluator(repo, fi, extra_call=_method_calls,
                        loop_hook=LoopSummariser().hook)
    ev.int_transparent = True
    ev.tolerant_loops = True
    try:
        env = ev.block(Env(), func_body(fi))
        val = cm.resolve(env.returned, fi.cls)
    except Unsupported as u:
        val = ("unsupported", str(u))
    return fi, val


def run(ctx: Ctx) -> None:
    repo = ctx.repo
    ctx.explanation = (
        "For each class in DEFAULT_OBJECTIVES the njit kernel reached from "
        "evaluate() is summarised into a closed form (loop-reduction "
        "recognisers) with the wrapper's arguments substituted. D2.1: the "
        "value must have the shape S*(B-1)+T with B the maximum of the bin "
        "column, and the same S must be the divisor of to_bin_count, the "
        "factor of n_items in upper_bound and the factor of "
        "lower_bound_bins in lower_bound. D2.2: T must be the documented "
        "reduction (count / covered area of the rows of the last bin; "
        "minimum over bins 0..B-1 of the per-bin count / area accumulated "
        "into a zero-filled scratch). D2.3 scratch arrays have n_items "
        "cells and are reset. D2.4 the cross-objective bin-count guard "
        "exists. D2.5 instance matrix entries pass through int() before "
        "arithmetic in the pure-Python bound methods. D2.6 both skyline "
        "sweeps compute the area under the skyline of a bin: the scan step "
        "is compared with the fold 'running strict maximum of top over the "
        "items of the bin covering the position, with the right edge of "
        "the maximal one; running minimum of the starts beyond the "
        "position' on every outcome of its comparisons, the segment ends "
        "at min(use_right, next_left), adds (length x height) and the "
        "sweep continues there from 0 until the bin width; the kernels "
        "receive the instance's bin_width / bin_height in this order. Not "
        "decided: validity of lower_bound() (for the objectives with a "
        "secondary term), dominance between packings.")
    for rid, txt in (
            ("D2.1", "value = S*(B-1)+T; S agrees across kernel / "
             "to_bin_count / upper_bound / lower_bound"),
            ("D2.2", "tie-breaker T is the documented reduction"),
            ("D2.3", "scratch arrays sized n_items"),
            ("D2.4", "cross-objective bin-count agreement guard"),
            ("D2.5", "int() before arithmetic on instance entries")):
        ctx.rule(rid, txt)
    prm = repo.module(PR)
    tup = ctx.need(prm.assigns.get("DEFAULT_OBJECTIVES"),
                   "DEFAULT_OBJECTIVES")
    classes = []
    for e in tup.elts:
        c = repo.resolve_expr(prm, e)
        ctx.need(isinstance(c, ClassInfo), f"objective class {ast.unparse(e)}")
        classes.append(c)
    ctx.floor("objective_classes", len(classes), 7)
    idx_bin = repo.const(repo.module(PK), ast.Name(id="IDX_BIN"))
    for c in classes:
        _check_class(ctx, c, idx_bin)
    _guard(ctx)
    ctx.rule("D2.6", "the skyline sweeps compute the area under the "
             "skyline")
    OBJ = "moptipyapps.binpacking2d.objectives."
    _skyline_sweep(ctx, OBJ + "bin_count_and_last_skyline",
                   "bin_count_and_last_skyline", False)
    _skyline_sweep(ctx, OBJ + "bin_count_and_lowest_skyline",
                   "bin_count_and_lowest_skyline", True)
    ctx.assumptions += [
        "Packing shape contract: len(y) = instance.n_items, 6 columns",
        "N1: kernel integer scalars are 64 bit",
        "packings are feasible (bins 1..B, B >= 1)",
    ]


def _area(k: Poly, cols: dict[str, int]) -> Poly:
    def c(nm: str) -> Poly:
        return r_cell("y", k, cols[nm])
    return (c("IDX_RIGHT_X") - c("IDX_LEFT_X")) * (
        c("IDX_TOP_Y") - c("IDX_BOTTOM_Y"))


def _norm_shift(p: Poly) -> Poly:
    """A per-bin accumulator `acc[key + c]` reduced over `acc[a:b]` is the
    accumulator `acc[key]` reduced over `acc[a - c:b - c]` (whether the
    scratch table is indexed by the bin id or by the bin id minus one is not
    observable): the constant part of the key is moved into the bounds."""
    mapping: dict[Any, Poly] = {}
    for a in all_atoms(p):
        if a[0] != "slicered" or len(a) != 5:
            continue
        acc = a[2].as_atom() if isinstance(a[2], Poly) else None
        if acc is None or acc[0] != "keyacc" or not isinstance(
                acc[4], Poly):
            continue
        c = Poly.const(acc[4].terms.get((), 0))
        if c.is_zero():
            continue
        acc2 = acc[:4] + (acc[4] - c,) + acc[5:]
        mapping[a] = Poly.atom(("slicered", a[1], Poly.atom(acc2),
                                a[3] - c, a[4] - c))
    return p.subst(mapping) if mapping else p


#: what the tie-breaker of a class measures (read off the class docs):
#: `one` - constant 1; `count` - the items of one bin; `area` - the area of
#: the items of one bin; `skyline` - the area under the skyline of one bin
_TIE_KIND = {
    "BinCount": "one", "BinCountAndLastEmpty": "count",
    "BinCountAndEmpty": "count", "BinCountAndLastSmall": "area",
    "BinCountAndSmall": "area", "BinCountAndLastSkyline": "skyline",
    "BinCountAndLowestSkyline": "skyline"}


def _poly_at(p: Poly, val: dict[str, int]) -> Fraction | None:
    """The value of an instance-only polynomial for given field values."""
    tot = Fraction(0)
    for mono, c in p.terms.items():
        t = Fraction(c)
        for a, e in mono:
            if a[0] == "var" and str(a[1]) in val:
                v: Fraction | None = Fraction(val[str(a[1])])
            elif a[0] == "app" and a[1] in ("min", "max"):
                vs = [_poly_at(q, val) for q in a[2]]
                if any(x is None for x in vs):
                    return None
                v = min(vs) if a[1] == "min" else max(vs)   # type: ignore
            else:
                return None
            t *= v ** e
        tot += t
    return tot


def _upper_bound_verdict(name: str, ub: Any, S: Poly) -> tuple[bool, str]:
    """Every value S*(B-1)+T is at most the declared upper bound.

    The generic bound is n_items*S (at most n_items bins, T <= S); anything
    coefficient-wise above it is valid too.  A tighter bound is compared,
    by evaluating the polynomial (never the program), with the values that
    two families of feasible packings are known to have: one item that
    fills its W x H bin (B = 1, T = its count / area / skyline area), and n
    unit squares, one per bin, each at the top of its bin (B = n, T = 1 for
    count and area, T = H for the skyline)."""
    if not isinstance(ub, Poly):
        return False, "cannot normalise the upper bound: not recognised"
    gen = N_ITEMS * S
    d = ub - gen
    if all(c >= 0 for c in d.terms.values()) and not any(
            a[0] != "var" for a in all_atoms(d)):
        return True, (f"= n_items * {show(S)}" if d.is_zero() else
                      f">= n_items * {show(S)} (all coefficients of the "
                      "difference are non-negative)")
    kind = _TIE_KIND.get(name)
    if kind is None:
        return False, f"tie-breaker kind of {name} is not recognised"
    for w in (1, 2, 3, 7, 10):
        for h in (1, 2, 3, 7, 10):
            for n in (1, 2, 3, 5):
                fams = [("one item filling the bin", {
                    "INST.n_items": 1, "INST.bin_width": w,
                    "INST.bin_height": h, "INST.total_item_area": w * h,
                    "INST.n_different_items": 1,
                    "INST.lower_bound_bins": 1}, 1, {
                    "one": 1, "count": 1, "area": w * h,
                    "skyline": w * h})]
                if n <= w * h and n > 1:
                    fams.append((f"{n} unit squares, one per bin, at the "
                                 "top of the bin", {
                        "INST.n_items": n, "INST.bin_width": w,
                        "INST.bin_height": h, "INST.total_item_area": n,
                        "INST.n_different_items": 1,
                        "INST.lower_bound_bins": 1}, n, {
                        "one": 1, "count": 1, "area": 1, "skyline": h}))
                for what, val, bins, tmax in fams:
                    u = _poly_at(ub, val)
                    sv = _poly_at(S, val)
                    if u is None or sv is None:
                        return False, ("cannot normalise the upper bound "
                                       "(fields besides n_items, "
                                       "n_different_items, bin_width, bin_height, total_item_area): not "
                                       "recognised")
                    v = sv * (bins - 1) + tmax[kind]
                    if u < v:
                        return False, (
                            f"for a {val['INST.bin_width']} x "
                            f"{val['INST.bin_height']} bin and {what} the "
                            f"objective value is {v} but upper_bound() "
                            f"gives {u}: a feasible packing lies above "
                            "the declared upper bound")
    e = ub - S * (N_ITEMS - Poly.const(1))
    if kind == "area" and e == Poly.atom(("app", "min", tuple(sorted(
            (S, Poly.var("INST.total_item_area")), key=lambda q: q.key())))):
        return True, ("= (n_items-1)*S + min(S, total_item_area): the items "
                      "of one bin cover at most the bin and at most the "
                      "total item area")
    return False, (f"a bound below n_items * {show(S)} that is not "
                   "recognised as valid for this tie-breaker: cannot decide")


def _lb_at(p: Any, val: dict[str, int], smallest: int) -> Fraction | None:
    """Value of a lower-bound expression: polynomial over instance fields
    with max/min, if-then-else on the field values and (at most) one
    unrecognised running minimum over the item areas (`smallest`)."""
    if not isinstance(p, Poly):
        return None
    tot = Fraction(0)
    for mono, c in p.terms.items():
        t = Fraction(c)
        for a, e in mono:
            v: Fraction | None
            if a[0] == "var" and str(a[1]) in val:
                v = Fraction(val[str(a[1])])
            elif a[0] == "app" and a[1] in ("min", "max"):
                vs = [_lb_at(q, val, smallest) for q in a[2]]
                if any(x is None for x in vs):
                    return None
                v = min(vs) if a[1] == "min" else max(vs)    # type: ignore
            elif a[0] == "ite":
                cnd = _lb_cond(a[1], val, smallest)
                if cnd is None:
                    return None
                v = _lb_at(a[2] if cnd else a[3], val, smallest)
            elif a[0] == "opaque":
                v = Fraction(smallest)
            else:
                return None
            if v is None:
                return None
            t *= v ** e
        tot += t
    return tot


def _lb_cond(c: tuple, val: dict[str, int], smallest: int) -> bool | None:
    k = c[0]
    if k in ("true", "false"):
        return k == "true"
    if k == "not":
        r = _lb_cond(c[1], val, smallest)
        return None if r is None else not r
    if k in ("and", "or"):
        rs = [_lb_cond(x, val, smallest) for x in c[1:]]
        if any(r is None for r in rs):
            return None
        return all(rs) if k == "and" else any(rs)
    if k in ("lt", "le", "eq"):
        a, b = _lb_at(c[1], val, smallest), _lb_at(c[2], val, smallest)
        if a is None or b is None:
            return None
        return a < b if k == "lt" else (a <= b if k == "le" else a == b)
    return None


def _lower_bound_witness(name: str, lb: Any, S: Poly) -> str | None:
    """None, or the description of a feasible packing whose objective value
    is below the declared lower bound (polynomial evaluation only).

    An unrecognised running minimum in the bound is read as the smallest
    item area - the only instance reduction the bounds use; if the bound
    cannot be evaluated nothing is claimed."""
    kind = _TIE_KIND.get(name)
    if kind is None or not isinstance(lb, Poly):
        return None
    n_opaque = len({a for a in all_atoms(lb) if a[0] == "opaque"})
    if n_opaque > 1:
        return None
    for w in (1, 2, 3, 7, 10):
        for h in (1, 2, 3, 7, 10):
            fams = [("one item filling the bin", {
                "INST.n_items": 1, "INST.bin_width": w, "INST.bin_height": h,
                "INST.total_item_area": w * h, "INST.n_different_items": 1,
                "INST.lower_bound_bins": 1}, w * h, 1, {
                "one": 1, "count": 1, "area": w * h, "skyline": w * h}),
                ("two items that each fill a bin", {
                    "INST.n_items": 2, "INST.bin_width": w,
                    "INST.bin_height": h, "INST.total_item_area": 2 * w * h,
                    "INST.n_different_items": 1,
                    "INST.lower_bound_bins": 2}, w * h, 2, {
                    "one": 1, "count": 1, "area": w * h, "skyline": w * h})]
            for n in (2, 3, 5):
                if n <= w:
                    fams.append((f"{n} unit squares side by side on the "
                                 "floor of one bin", {
                        "INST.n_items": n, "INST.bin_width": w,
                        "INST.bin_height": h, "INST.total_item_area": n,
                        "INST.n_different_items": 1,
                        "INST.lower_bound_bins": 1}, 1, 1, {
                        "one": 1, "count": n, "area": n, "skyline": n}))
            for what, val, smallest, bins, t in fams:
                b = _lb_at(lb, val, smallest)
                sv = _poly_at(S, val)
                if b is None or sv is None:
                    return None
                v = sv * (bins - 1) + t[kind]
                if b > v:
                    return (f"{name}.lower_bound(): for a "
                            f"{val['INST.bin_width']} x "
                            f"{val['INST.bin_height']} bin and {what} the "
                            f"objective value is {v} but lower_bound() "
                            f"gives {b}: a feasible packing lies below the "
                            "declared lower bound")
    return None


def _check_class(ctx: Ctx, cls: ClassInfo, idx_bin: int) -> None:
    repo = ctx.repo
    cm = ClassModel(ctx, cls)
    evm = ctx.need(repo.lookup_method(cls, "evaluate"),
                   f"{cls.name}.evaluate")
    rets = [r for r in ast.walk(evm.node) if isinstance(r, ast.Return)]
    ctx.need(len(rets) == 1, f"{cls.name}.evaluate has one return")
    # temporaries of the wrapper are looked through
    rv = inline_locals(evm.node, rets[0].value)
    xname = evm.params[1]
    value: Any = None
    kern: FuncInfo | None = None
    if isinstance(rv, ast.Call):
        tgt = repo.resolve_expr(evm.module, rv.func)
        if isinstance(tgt, FuncInfo) and tgt.njit is not None:
            from sa.srcmodel import kernel_normalised
            kern = kernel_normalised(tgt)
    cols = {nm: repo.const(repo.module(PK), ast.Name(id=nm))
            for nm in ("IDX_LEFT_X", "IDX_BOTTOM_Y", "IDX_RIGHT_X",
                       "IDX_TOP_Y")}
    try:
        if kern is not None:
            ev = make_evaluator(repo, kern,
                                loop_hook=LoopSummariser().hook)
            ev.int_transparent = True
            ev.tolerant_loops = True
            wev = make_evaluator(repo, evm)
            wenv = Env()
            env = Env()
            from sa.srcmodel import bound_args
            kargs = bound_args(rv, list(kern.params))
            ctx.need(set(kargs) == set(kern.params),
                     f"{cls.name}.evaluate passes all kernel arguments")
            for p in kern.params:
                a = kargs[p]
                if isinstance(a, ast.Name) and a.id == xname:
                    env.vars[p] = ("array", "y")
                else:
                    v = cm.resolve(wev.expr(wenv, a), evm.cls)
                    at = v.as_atom() if isinstance(v, Poly) else None
                    if at is not None and at[0] == "app" and \
                            at[1] == "newarray":
                        env.vars[p] = ("array", f"scratch_{p}")
                        ok = at[2][0] == N_ITEMS
                        ctx.ob("D2.3", evm, a, ok,
                               f"scratch `{ast.unparse(a)}` has "
                               f"{show(at[2][0])} cells; the kernel indexes "
                               "it by bin id - 1 < n_items",
                               construct=f"scratch size {cls.name}")
                        _scratch_type(ctx, cls, evm, a, kern, p)
                    else:
                        env.vars[p] = v
                        if p in ("bin_width", "bin_height"):
                            okb = isinstance(v, Poly) and show(v).endswith(p)
                            ctx.ob("D2.1", evm, a, okb,
                                   f"kernel parameter `{p}` receives "
                                   f"{show(v) if isinstance(v, Poly) else v}"
                                   + ("" if okb else f": not the instance's "
                                      f"{p}"),
                                   construct=f"{cls.name} passes {p}")
            value = ev.block(env, func_body(kern)).returned
        else:
            ev = make_evaluator(repo, evm)
            ev.int_transparent = True
            env = Env()
            env.vars[xname] = ("array", "y")
            value = ev.expr(env, rv)
    except Unsupported as u:
        stored = [n for n in ast.walk(rv) if isinstance(
            n, ast.Attribute) and isinstance(n.value, ast.Name)
            and n.value.id == xname and n.attr in ("n_bins",)]
        if stored:
            ctx.ob("D2.1", evm, stored[0], False,
                   f"{cls.name}.evaluate returns the stored attribute "
                   f"`{ast.unparse(stored[0])}` instead of computing the "
                   "number of bins from the rows of the packing: a record "
                   "whose attribute is unset or stale gets a value that is "
                   "not the documented function of the packing (and may "
                   "lie outside the declared bounds)",
                   construct=f"value of {cls.name}")
            return
        ctx.ob("D2.1", kern or evm, u.node or evm.node, False,
               f"cannot normalise the objective value: {u}",
               construct=f"value of {cls.name}")
        return
    len_y = Poly.atom(("app", "len", (Poly.var("y"),)))
    value = value.subst({len_y.as_atom(): N_ITEMS}) if isinstance(
        value, Poly) else value
    where = kern or evm
    if not isinstance(value, Poly):
        ctx.ob("D2.1", where, where.node, False,
               "objective value is not numeric", construct=cls.name)
        return
    # ---- locate the bin maximum M and split value = S*(B-1) + T
    k0 = kvar(0)
    bincell = r_cell("y", k0, idx_bin)
    cands = []
    for mono in value.terms:
        for a, e in mono:
            if a[0] == "colred" and a[1] == "max" and a[2] == "y" and \
                    a[3] == Poly.const(idx_bin):
                cands.append((a, 1))
            elif a[0] == "maxred" and a[2] == Poly.const(0) and \
                    a[3] == N_ITEMS and a[6] == ("true",):
                iv = a[5].const_value()
                if a[4] == bincell and iv is not None and iv <= 1:
                    cands.append((a, 1))
                elif a[4] == bincell - Poly.const(1) and iv is not None \
                        and iv <= 0:
                    cands.append((a, 0))
    cands = list(dict.fromkeys(cands))
    if len(cands) != 1:
        ctx.ob("D2.1", where, where.node, False,
               f"value {show(value)[:200]} does not contain exactly one "
               "maximum over the bin column at top level",
               construct=f"shape S*(B-1)+T of {cls.name}")
        return
    M, minus = cands[0]
    S = Poly()
    rest = Poly()
    ok_lin = True
    for mono, c in value.terms.items():
        es = [e for a, e in mono if a == M]
        if not es:
            rest = rest + Poly({mono: c})
        elif es[0] == 1:
            S = S + Poly({tuple((a, e) for a, e in mono if a != M): c})
        else:
            ok_lin = False
    T = rest + (S if minus else Poly())
    s_atoms = all_atoms(S)
    ok_s = ok_lin and not S.is_zero() and all(
        a[0] == "var" and str(a[1]).startswith("INST.") for a in s_atoms)
    ctx.ob("D2.1", where, where.node, ok_s,
           f"{cls.name}: value = S*(B-1) + T with S = {show(S)}, "
           f"T = {show(T)[:160]}" if ok_s else
           f"{cls.name}: cannot write the value as S*(B-1)+T with an "
           f"instance-only scale (S = {show(S)[:80]})",
           construct=f"shape S*(B-1)+T of {cls.name}")
    if not ok_s:
        return
    # ---- S agreement with to_bin_count / upper_bound / lower_bound
    fi, tb = _eval_method(ctx, cm, "to_bin_count")
    z = Poly.var(fi.params[1])
    if S == Poly.const(1):
        ok = tb == z
        got = show(tb) if isinstance(tb, Poly) else str(tb)
    else:
        want = Poly.atom(("app", "ceil_div", (z, S)))
        ok = tb == want
        got = show(tb) if isinstance(tb, Poly) else str(tb)
    ctx.ob("D2.1", fi, fi.node, ok,
           f"{cls.name}.to_bin_count(z) = {got}; the kernel's scale is "
           f"{show(S)}", construct=f"to_bin_count scale {cls.name}")
    fi, ub = _eval_method(ctx, cm, "upper_bound")
    ok, why = _upper_bound_verdict(cls.name, ub, S)
    ctx.ob("D2.1", fi, fi.node, ok,
           f"{cls.name}.upper_bound() = "
           f"{show(ub) if isinstance(ub, Poly) else ub}; {why}",
           construct=f"upper_bound scale {cls.name}")
    fi, lb = _eval_method(ctx, cm, "lower_bound")
    lbv = Poly.var("INST.lower_bound_bins")
    found = False
    ok = True
    if isinstance(lb, Poly):
        for p in [lb] + [q for a in all_atoms(lb) for q in nested_polys(a)]:
            if p is not lb and (p - lbv).const_value() is not None:
                continue     # the bare bound inside a comparison
            coeff = Poly()
            for mono, c in p.terms.items():
                if any(a == lbv.as_atom() and e == 1 for a, e in mono):
                    coeff = coeff + Poly({tuple(
                        (a, e) for a, e in mono if a != lbv.as_atom()): c})
            if not coeff.is_zero():
                found = True
                if coeff != S:
                    ok = False
    ctx.ob("D2.1", fi, fi.node, bool(found and ok),
           f"{cls.name}.lower_bound() = "
           f"{show(lb)[:160] if isinstance(lb, Poly) else lb}; "
           f"lower_bound_bins must be scaled by {show(S)}",
           construct=f"lower_bound scale {cls.name}")
    wl = _lower_bound_witness(cls.name, lb, S)
    ctx.ob("D2.1", fi, fi.node, wl is None,
           f"{cls.name}.lower_bound() stays at or below the value of three "
           "families of feasible packings whose value is known (one item "
           "filling the bin; n unit squares in a row in one bin; two items "
           "that each fill a bin)" if wl is None else wl,
           construct=f"lower_bound witnesses {cls.name}")
    # ---- D2.2 tie breaker
    name = cls.name
    want_t: Poly | None = None
    if name == "BinCount":
        want_t = Poly.const(1)
    elif name == "BinCountAndLastEmpty":
        want_t = Poly.atom(("argmaxgroup", k0, Poly.const(0), N_ITEMS,
                            bincell, Poly.const(1)))
    elif name == "BinCountAndLastSmall":
        want_t = Poly.atom(("argmaxgroup", k0, Poly.const(0), N_ITEMS,
                            bincell, _area(k0, cols)))
    elif name in ("BinCountAndEmpty", "BinCountAndSmall"):
        term = Poly.const(1) if name == "BinCountAndEmpty" \
            else _area(k0, cols)
        # the per-bin accumulator indexed by bin-1, minimum over 0..B-1
        for a in all_atoms(T):
            if a[0] == "slicered":
                scratch = [x for x in all_atoms(T) if x[0] == "keyacc"]
                for sc in scratch:
                    ref_acc = ("keyacc", k0, Poly.const(0), N_ITEMS,
                               bincell - Poly.const(1), term, Poly.const(0))
                    bm1 = Poly.atom(M) - Poly.const(1) if minus \
                        else Poly.atom(M)
                    want_t = Poly.atom(("slicered", "min", Poly.atom(
                        ref_acc), Poly.const(0), bm1 + Poly.const(1)))
        if want_t is None:
            want_t = Poly.var("<min over bins of the per-bin accumulator>")
    if want_t is not None:
        ok = T == want_t or _norm_shift(T) == _norm_shift(want_t)
        ctx.ob("D2.2", where, where.node, ok,
               f"{name}: tie-breaker T = {show(T)[:200]}" + (
                   "" if ok else f"; documented: {show(want_t)[:200]}"),
               construct=f"tie-breaker of {name}")
    else:
        ctx.notes.append(f"{name}: tie-breaker (skyline sweep) not decided")
        ctx.count("tie_breakers_not_decided")
        # necessary shape only: T is one row-dependent quantity, with no
        # additive instance-only offset (which would shift the bin count)
        at = T.as_atom()
        ctx.ob("D2.2", where, where.node, at is not None,
               f"{name}: T = {show(T)[:120]} is a single data-dependent "
               "term" if at is not None else
               f"{name}: T = {show(T)[:160]} has an additive offset besides "
               "the skyline area: (bins-1)*S is shifted",
               construct=f"tie-breaker offset of {name}")
    # ---- D2.5 in pure-Python bound methods
    for meth in ("lower_bound", "upper_bound", "to_bin_count"):
        fi = repo.lookup_method(cls, meth)
        if fi is not None:
            _narrow_arith(ctx, fi)


def _narrow_arith(ctx: Ctx, fi: FuncInfo) -> None:
    """Operands that are elements of the instance matrix (subscripts of the
    instance or of a row obtained by iterating it) must be wrapped in int()
    before + - * (N2: numpy scalars keep their narrow dtype)."""
    key = ("narrow", fi)
    if key in ctx.counters:
        return
    ctx.counters[key] = 1  # type: ignore[index]
    rows: set[str] = set()
    for n in ast.walk(fi.node):
        if isinstance(n, ast.For) and isinstance(n.target, ast.Name):
            src = ast.unparse(n.iter)
            if src.endswith("_instance") or src.endswith("instance") \
                    or src == "inst":
                rows.add(n.target.id)
    bad = []
    n_ops = 0
    for n in ast.walk(fi.node):
        if isinstance(n, ast.BinOp) and isinstance(
                n.op, (ast.Mult, ast.Add, ast.Sub)):
            for side in (n.left, n.right):
                if isinstance(side, ast.Subscript):
                    base = side.value
                    src = ast.unparse(base)
                    if (isinstance(base, ast.Name) and base.id in rows) or \
                            src.endswith("instance") or src == "inst":
                        bad.append(n)
                    n_ops += 1
    ctx.counters.pop(key, None)  # type: ignore[arg-type]
    ctx.ob("D2.5", fi, bad[0] if bad else fi.node, not bad,
           "no arithmetic on raw instance-matrix elements" if not bad else
           f"`{ast.unparse(bad[0])}` multiplies/adds numpy scalars of the "
           "instance's narrow dtype without int(): may wrap around",
           construct="int() before arithmetic", nontrivial=False)


def _guard(ctx: Ctx) -> None:
    repo = ctx.repo
    fi = repo.func(PR, "from_packing_and_end_result")

    def hook(ev: Evaluator, env: Env, n: ast.Call) -> Any:
        f = n.func
        if isinstance(f, ast.Attribute) and f.attr in (
                "to_bin_count", "evaluate") and len(n.args) == 1:
            base = ev.expr(env, f.value) if isinstance(
                f.value, ast.Name) else Poly.var(ast.unparse(f.value))
            return Poly.atom(("app", f.attr, (base, ev.expr(
                env, n.args[0]))))
        return NotImplemented
    ev = make_evaluator(repo, fi, extra_call=hook)
    gw = GuardWalk(ev)
    gw.walk(Env(), func_body(fi))
    hit = None
    for e in gw.exits:
        if e.kind != "raise" or not e.loops:
            continue
        # the path must contain an inequality between a to_bin_count value
        # of an evaluate() result and something else (other conjuncts, e.g.
        # type tests the analysis cannot normalise, do not matter)
        def has_tbc(c: tuple) -> bool:
            if c[0] == "opaque":
                return any(has_tbc(x) for x in c[1:]
                           if isinstance(x, tuple) and x)
            if c[0] == "not" and c[1][0] == "eq":
                for p in (c[1][1], c[1][2]):
                    a = p.as_atom()
                    if a is not None and a[0] == "app" and \
                            a[1] == "to_bin_count":
                        inner = a[2][1].as_atom()
                        if inner is not None and inner[0] == "app" and \
                                inner[1] == "evaluate":
                            return True
            if c[0] == "and":
                return any(has_tbc(x) for x in c[1:])
            return False
        if has_tbc(e.cond):
            hit = e
    ok = hit is not None
    detail = "no raise guarded by a disagreement of to_bin_count(evaluate" \
             "(packing)) values inside the loop over the objectives"
    if hit is not None:
        lp = hit.loops[-1]
        detail = (f"loop `for {ast.unparse(lp.target)} in "
                  f"{ast.unparse(lp.iter)}` raises when "
                  f"[{show_cond(hit.cond)[:120]}]")
        # the remembered value must itself be a to_bin_count value
        carried_ok = False
        for s in ast.walk(lp):
            if isinstance(s, ast.Assign) and len(s.targets) == 1 and \
                    isinstance(s.targets[0], ast.Name):
                if isinstance(s.value, ast.Name):
                    carried_ok = True
        ok = carried_ok
    ctx.ob("D2.4", fi, hit.node if hit else fi.node, ok, detail,
           construct="bin-count agreement guard")


# ------------------------------------------------------------------ D2.6
def _skyline_sweep(ctx: Ctx, modname: str, fname: str, per_bin: bool) \
        -> None:
    """The sweep computes the area under the skyline of one bin.

    Argument (checked pieces in brackets): at position c the inner scan
    folds over all rows of the bin [F0] the running strict maximum of `top`
    among the items with left <= c < right together with the right edge of
    the item attaining it [F1, step-function agreement], and the running
    minimum of `left` among the items with c < left [F2]; all items covering
    a point x in [c, e), e = min(use_right, next_left) [F3], also cover c
    (none starts in (c, x]) and the maximal one reaches beyond x, hence the
    skyline is use_top on [c, e) and the segment adds (e - c) * use_top
    [F4]; the sweep continues at e > c [F5] from 0 until the bin width [F6].

    All pieces are compared as values (term normaliser + case analysis):
    local names, operand orders, `min()` versus `if`, `continue` versus
    nesting and hoisted temporaries do not matter.
    """
    from sa.casesplit import Splitter, describe, equivalent
    from sa.kern import make_evaluator
    from sa.srcmodel import inline_locals
    from sa.symterm import Env, ite
    repo = ctx.repo
    from sa.srcmodel import kernel_normalised
    fi = kernel_normalised(repo.func(modname, fname))
    yp, wp, hp = fi.params[:3]
    body = func_body(fi)
    problems: list[str] = []
    construct = f"skyline sweep of {fname}"

    def src(n: ast.AST) -> str:
        return ast.unparse(n).replace(" ", "")

    def names_stored(stmts: list[ast.stmt]) -> list[str]:
        out: list[str] = []
        for st_ in stmts:
            for n in ast.walk(st_):
                if isinstance(n, ast.Name) and isinstance(
                        n.ctx, ast.Store) and n.id not in out:
                    out.append(n.id)
        return out
    ev = make_evaluator(repo, fi)
    ev.int_transparent = True
    C = repo.module("moptipyapps.binpacking2d.packing")
    IDX = {k: repo.const(C, ast.Name(id=k, ctx=ast.Load())) for k in (
        "IDX_BIN", "IDX_LEFT_X", "IDX_RIGHT_X", "IDX_TOP_Y")}
    W, c = Poly.var("W"), Poly.var("c")
    ut, ur, nl = Poly.var("use_top"), Poly.var("use_right"), \
        Poly.var("next_left")
    i = Poly.var("i")
    ub = Poly.var("use_bin")
    zero = Poly.const(0)
    last_bin = Poly.atom(("colred", "max", "y", Poly.const(IDX["IDX_BIN"])))

    def pre_env(stmts: list[ast.stmt], base: Env) -> Env:
        e = base.copy()
        for st_ in stmts:
            if isinstance(st_, (ast.Assign, ast.AnnAssign, ast.AugAssign)):
                try:
                    e = ev.stmt(e, st_)
                except Unsupported:
                    for nm in names_stored([st_]):
                        e.vars.pop(nm, None)
        return e
    base = Env()
    base.vars[yp] = ("array", "y")
    base.vars[wp] = W
    scope: list[ast.stmt] = body
    bin_loop = None
    env_f = pre_env([s_ for s_ in body if not isinstance(
        s_, (ast.For, ast.While))], base)
    if per_bin:
        bin_loop = next((s_ for s_ in body if isinstance(s_, ast.For)
                         and any(isinstance(x, ast.While)
                                 for x in s_.body)), None)
        if bin_loop is None or not isinstance(bin_loop.target, ast.Name):
            problems.append("no loop over the bins")
        else:
            scope = bin_loop.body
            it = bin_loop.iter
            ok_it = isinstance(it, ast.Call) and isinstance(
                it.func, ast.Name) and it.func.id == "range" and len(
                it.args) == 2 and not it.keywords
            recognised = ok_it
            if ok_it:
                try:
                    e_b = pre_env(body[:body.index(bin_loop)], base)
                    lo_ = ev.num(e_b, it.args[0])
                    hi_ = ev.num(e_b, it.args[1])
                    ok_it = lo_ == Poly.const(1) and hi_ == last_bin + \
                        Poly.const(1)
                except Unsupported:
                    ok_it = recognised = False
            if not ok_it:
                problems.append(
                    "the bins are not enumerated as 1..bins" if recognised
                    else "the enumeration of the bins is not recognised "
                    f"(`{ast.unparse(it)}`)")
    sweep = next((s_ for s_ in scope if isinstance(s_, ast.While)), None)
    if sweep is None:
        ctx.ob("D2.6", fi, fi.node, False, "no sweep loop",
               construct=construct)
        return
    scan = next((s_ for s_ in sweep.body if isinstance(s_, ast.For)), None)
    pre = scope[:scope.index(sweep)]
    assigned_sweep = names_stored(sweep.body)
    # F6: the position: the variable of the loop test that the loop changes
    tnames = [n.id for n in ast.walk(sweep.test) if isinstance(n, ast.Name)
              and n.id in assigned_sweep]
    cn = tnames[0] if len(set(tnames)) == 1 else None
    if cn is None:
        problems.append("the sweep loop test is not recognised "
                        f"(`{ast.unparse(sweep.test)}`)")
    else:
        e_t = Env()
        e_t.vars.update({wp: W, cn: c})
        try:
            same, _why = equivalent(ev.cond(e_t, sweep.test), ("lt", c, W))
        except Unsupported:
            same = False
        if not same:
            problems.append("the sweep does not run while position < bin "
                            "width")
    ok_scan = scan is not None and isinstance(scan.target, ast.Name) and \
        src(inline_locals(fi.node, scan.iter)) == f"range(len({yp}))"
    if not ok_scan:
        it_s = scan.iter if scan is not None else None
        is_range = isinstance(it_s, ast.Call) and isinstance(
            it_s.func, ast.Name) and it_s.func.id == "range" and isinstance(
            scan.target, ast.Name)
        problems.append(
            "the scan does not visit every row of the packing" if is_range
            else "the scan over the rows of the packing is not recognised")
    if per_bin:
        # the values at the start of a round of the bin loop: what the loop
        # itself assigns is carried over from the previous bin, hence
        # unknown unless the round sets it again before the sweep
        e_loop = pre_env(body[:body.index(bin_loop)]
                         if bin_loop is not None else [], base)
        if bin_loop is not None:
            for nm_ in names_stored(bin_loop.body):
                e_loop.vars.pop(nm_, None)
        e_pre = pre_env(pre, e_loop)
    else:
        e_pre = pre_env(pre, env_f)
    if cn is not None and e_pre.vars.get(cn) != zero:
        problems.append("the sweep does not start at x = 0")
    if problems or scan is None or cn is None:
        soft = [p_ for p_ in problems if "not recognised" in p_]
        hard = [p_ for p_ in problems if p_ not in soft]
        if hard or not soft:
            ctx.ob("D2.6", fi, sweep, False, "; ".join(hard),
                   construct=construct)
        if soft:
            ctx.ob("D2.6", fi, sweep, False, "; ".join(soft),
                   construct=construct + " (shape)")
        return
    iv = scan.target.id
    # the bin the scan looks at: the name compared with y[i, IDX_BIN]
    bin_names = set()
    for n in ast.walk(scan):
        if isinstance(n, ast.Compare) and len(n.ops) == 1:
            sides = [n.left, n.comparators[0]]
            for a_, b_ in (sides, sides[::-1]):
                if isinstance(a_, ast.Subscript) and isinstance(
                        a_.slice, ast.Tuple) and len(
                        a_.slice.elts) == 2 and repo.const(
                        fi.module, a_.slice.elts[1]) == IDX["IDX_BIN"] \
                        and isinstance(b_, ast.Name):
                    bin_names.add(b_.id)
    bin_src = next(iter(bin_names)) if len(bin_names) == 1 else None
    if bin_src is None:
        problems.append("the scan does not select the rows of one bin")
    elif per_bin:
        if bin_loop is None or bin_src != bin_loop.target.id:
            problems.append("the scanned bin is not the bin of the outer "
                            "loop")
    elif e_pre.vars.get(bin_src) != last_bin:
        problems.append("the swept bin is not the last bin")
    assigned = [nm for nm in names_stored(scan.body)]
    init_stmts = sweep.body[:sweep.body.index(scan)]
    env = e_pre.copy()
    env.vars.update({wp: W, cn: c, iv: i})
    if bin_src is not None:
        env.vars[bin_src] = ub
    try:
        e0 = env
        for s_ in init_stmts:
            e0 = ev.stmt(e0, s_)
    except Unsupported as u:
        problems.append(f"cannot normalise the scan initialisation: {u}")
        e0 = None
    tops = [nm for nm in assigned if e0 is not None
            and e0.vars.get(nm) == zero]
    wides = [nm for nm in assigned if e0 is not None
             and e0.vars.get(nm) == W]
    if e0 is not None and (len(tops) != 1 or len(wides) != 2):
        problems.append("the scan does not start from (height 0, right "
                        "= W, next start = W)")
    roles: dict[str, str] = {}
    if not problems:
        def cell(col: str) -> Poly:
            return Poly.atom(("cell", "y", (i, Poly.const(IDX[col]))))
        b, l, r, tp = (cell(k) for k in ("IDX_BIN", "IDX_LEFT_X",
                                         "IDX_RIGHT_X", "IDX_TOP_Y"))
        in_bin = ("eq", *sorted((b, ub), key=lambda p: repr(p.key())))
        covers = ("and", ("le", l, c), ("lt", c, r), ("lt", ut, tp))
        ref_t = ite(in_bin, ite(covers, tp, ut), ut)
        ref_r = ite(in_bin, ite(covers, r, ur), ur)
        ref_n = ite(in_bin, ite(("and", ("lt", c, l), ("lt", l, nl)),
                                l, nl), nl)
        best: list[str] | None = None
        n_cases = 0
        for rn, nn in (wides, wides[::-1]):
            trial = {"top": tops[0], "right": rn, "next": nn}
            tp_: list[str] = []
            env2 = e0.copy()
            env2.vars[trial["top"]] = ut
            env2.vars[trial["right"]] = ur
            env2.vars[trial["next"]] = nl
            try:
                out = ev.block(env2, scan.body)
            except Unsupported as u:
                tp_.append(f"cannot normalise the scan step: {u}")
                out = None
            if out is not None:
                sp = Splitter()
                for what, g, rf in (
                        ("the running maximum height", out.vars.get(
                            trial["top"]), ref_t),
                        ("the right edge of the highest covering item",
                         out.vars.get(trial["right"]), ref_r),
                        ("the next start of an item", out.vars.get(
                            trial["next"]), ref_n)):
                    try:
                        for facts, (a_, b_), trail in sp.cases((g, rf)):
                            if not sp.equal(a_, b_, facts):
                                tp_.append(
                                    f"[{describe(trail)[:200]}] {what} "
                                    f"becomes {show(a_)[:80]}, the sweep "
                                    f"needs {show(b_)[:80]}")
                                break
                    except Unsupported as u:
                        tp_.append(f"{what}: {u}")
                n_cases = max(n_cases, sp.n_cases)
            if not tp_:
                roles = trial
                best = []
                break
            if best is None or len(tp_) < len(best):
                best = tp_
                roles = trial
        ctx.count("sweep_step_cases", n_cases)
        problems += best or []
        # F3-F5 after the scan
        post = sweep.body[sweep.body.index(scan) + 1:]
        env3 = e0.copy()
        A = Poly.var("A")
        cand_acc = [nm for nm in names_stored(post) if nm != cn
                    and nm not in roles.values()]
        carried = [nm for nm in cand_acc if nm in e_pre.vars]
        acc = carried[0] if len(carried) == 1 else None
        if acc is None and len(cand_acc) == 1 and per_bin:
            problems.append(
                f"the area accumulator `{cand_acc[0]}` is not set to 0 at "
                "the start of every bin: it carries the area of the bins "
                "swept before")
        env3.vars.update({roles["top"]: ut, roles["right"]: ur,
                          roles["next"]: nl})
        if acc is None:
            if not any("accumulator" in p_ for p_ in problems):
                problems.append("no area accumulator after the scan")
        else:
            env3.vars[acc] = A
            try:
                for s_ in post:
                    env3 = ev.stmt(env3, s_)
                e_ = ite(("lt", ur, nl), ur, nl)
                gotA, gotc = env3.vars.get(acc), env3.vars.get(cn)

                def unmin(p: Any) -> Any:
                    if not isinstance(p, Poly):
                        return p
                    sub = {}
                    for a_ in p.atoms():
                        if a_[0] == "app" and a_[1] == "min" and len(
                                a_[2]) == 2:
                            x_, y_ = a_[2]
                            sub[a_] = ite(("lt", x_, y_), x_, y_)
                    return p.subst(sub) if sub else p
                okA, whyA = equivalent(unmin(gotA), A + (e_ - c) * ut) \
                    if isinstance(gotA, Poly) else (False, "not a number")
                if not okA:
                    problems.append(
                        f"a segment does not add (min(use_right, next_left)"
                        f" - position) * height: {whyA[:160]}")
                okc, _w = equivalent(unmin(gotc), e_) if isinstance(
                    gotc, Poly) else (False, "")
                if not okc:
                    problems.append("the sweep does not continue at "
                                    "min(use_right, next_left)")
            except Unsupported as u:
                problems.append(f"cannot normalise the segment update: {u}")
            if e_pre.vars.get(acc) != zero:
                problems.append("the area does not start at 0")
    ctx.ob("D2.6", fi, sweep, not problems,
           f"{fname}: the sweep adds, segment by segment, (segment length) "
           "x (greatest top among the items of the bin covering it); scan "
           "step, segment end, accumulation and continuation agree with "
           "the skyline definition on every outcome of their comparisons"
           if not problems else "; ".join(dict.fromkeys(problems)),
           construct=construct)
    del hp





def _scratch_type(ctx: Ctx, cls: ClassInfo, evm: FuncInfo, a: ast.expr,
                  kern: FuncInfo, p: str) -> None:
    """D2.3 continued: the scratch cells hold what the kernel accumulates in
    them.  A kernel that adds products (areas w*h, up to the bin area) needs
    the 64-bit integer type the objective values are computed in; one that
    only counts (at most n_items) may also use the instance's own type."""
    repo = ctx.repo
    fld = a.attr if isinstance(a, ast.Attribute) else None
    alloc = None
    for c in repo.mro(cls) if hasattr(repo, "mro") else [cls]:
        init = c.methods.get("__init__")
        for st in ast.walk(init.node) if init else []:
            tg = st.targets[0] if isinstance(st, ast.Assign) and len(
                st.targets) == 1 else (st.target if isinstance(
                    st, ast.AnnAssign) and st.value is not None else None)
            if isinstance(tg, ast.Attribute) and fld is not None and \
                    tg.attr.lstrip("_").split("__")[-1] == fld.lstrip(
                    "_").split("__")[-1] and isinstance(st.value, ast.Call):
                alloc = st.value
    if alloc is None:
        return
    dt = alloc.args[1] if len(alloc.args) >= 2 else next(
        (k.value for k in alloc.keywords if k.arg == "dtype"), None)
    products = any(
        isinstance(n, ast.AugAssign) and isinstance(
            n.target, ast.Subscript) and isinstance(
            n.target.value, ast.Name) and n.target.value.id == p and any(
            isinstance(m, ast.BinOp) and isinstance(m.op, ast.Mult)
            for m in ast.walk(n.value)) for n in ast.walk(kern.node)) or any(
        isinstance(n, ast.Assign) and isinstance(
            n.targets[0], ast.Subscript) and isinstance(
            n.targets[0].value, ast.Name) and n.targets[0].value.id == p
        and any(isinstance(m, ast.BinOp) and isinstance(m.op, ast.Mult)
                for m in ast.walk(n.value)) for n in ast.walk(kern.node))
    src = ast.unparse(dt) if dt is not None else "(none: float64)"
    leaf = src.split(".")[-1]
    wide = leaf in ("int", "int64", "DEFAULT_INT", "int_", "intp",
                    "longlong")
    inst = leaf == "dtype" and "inst" in src
    narrow = leaf in ("int32", "int16", "int8", "uint32", "uint16", "uint8",
                      "intc", "short", "float32")
    if products:
        ok = wide
        why = (f"scratch `{ast.unparse(a)}` accumulates areas (products) "
               f"in cells of type `{src}`")
        if not ok:
            why += (": narrower than the 64-bit integers of the objective "
                    "value - a per-bin area sum beyond that type wraps "
                    "(bins up to 10^12 x 10^12 are accepted)" if narrow
                    or inst else ": this cell type is not recognised")
    else:
        ok = wide or inst
        why = (f"scratch `{ast.unparse(a)}` holds counts (<= n_items) in "
               f"cells of type `{src}`")
        if not ok:
            why += (": may not hold n_items" if narrow else
                    ": this cell type is not recognised")
    ctx.ob("D2.3", evm, alloc, ok, why,
           construct=f"scratch cell type {cls.name}", nontrivial=False)
