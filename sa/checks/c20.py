"""C20 - ordering instances encode neighbour ranks (decided part)."""
from __future__ import annotations

import ast
from typing import Any

from sa.kern import make_evaluator
from sa.report import Ctx
from sa.srcmodel import FuncInfo, func_body, inline_locals
from sa.symterm import Env, Poly, Unsupported, show

MOD = "moptipyapps.order1d.instance"


def run(ctx: Ctx) -> None:
    global _FOLD
    from sa.srcmodel import fold_consts
    _mod = ctx.repo.module(MOD)
    _FOLD = lambda e: fold_consts(ctx.repo, _mod, e)   # noqa: E731
    ctx.explanation = (
        "D20.1 the position-distance matrix starts as zeros and receives "
        "dist[i,j] = dist[j,i] = j - i for all j > i (hence |i - j|); D20.2 "
        "the flow matrix starts as zeros and the only store is skipped for "
        "i == j and for ranks beyond the horizon; D20.3 the stored flow "
        "depends on (i, j) only through the rank flows[i, j] = "
        "rankdata(distances, axis=1, method='average') - 1; D20.4 the stored "
        "expression is antitone in the rank (monotonicity analysis of the "
        "expression tree under flow_power > 0, multiplier > 0) and the base "
        "of the power is >= 1 (linear entailment from rank <= horizon, rank "
        "<= n - 1 and max_val = min(n - 1, horizon)): a nearer neighbour "
        "never gets a smaller flow, equal ranks get equal flows; D20.5 "
        "swap_distance counts the cycles of p2[argsort(p1)] (cycle-walk "
        "protocol: every unvisited position starts one cycle which is "
        "followed and marked until it closes) and returns n - cycles, the "
        "minimum number of transpositions; D20.6 from_sequence_and_distance "
        "validates each distance, removes an object at distance 0 from an "
        "earlier representative (list entry and matrix column), records it "
        "with the representative's index and re-examines the position, "
        "builds symmetric rows with a zero diagonal, records every "
        "representative with its own index, and passes (matrix, flow_power, "
        "horizon, titles, tags) to the constructor in this order. NOT "
        "decided: the multiplier that makes half ranks integral (it does "
        "not affect the clauses above), tag bookkeeping.")
    for rid, txt in (("D20.1", "dist = |i-j|"),
                     ("D20.2", "flow zero on diagonal / beyond horizon"),
                     ("D20.3", "flow depends on rank only"),
                     ("D20.4", "flow antitone in rank")):
        ctx.rule(rid, txt)
    repo = ctx.repo
    fi = repo.func(MOD, "Instance.__init__")
    body = func_body(fi)
    ev = make_evaluator(repo, fi)
    # ---- locate matrices passed to the base constructor
    sup = None
    for n in ast.walk(fi.node):
        if isinstance(n, ast.Call) and isinstance(
                n.func, ast.Attribute) and n.func.attr == "__init__" and \
                isinstance(n.func.value, ast.Call) and ast.unparse(
                n.func.value.func) == "super":
            sup = n
    from sa.srcmodel import bound_args
    base_init = repo.func("moptipyapps.qap.instance", "Instance.__init__")
    sargs = bound_args(sup, list(base_init.params[1:])) if sup is not None \
        else {}
    if sup is None or "distances" not in sargs or "flows" not in sargs:
        ctx.ob("D20.1", fi, fi.node, False,
               "the constructed matrices are never handed to the QAP base "
               "class (super().__init__(distances, flows) not found)",
               construct="matrices passed on")
        return
    dname, fname = ast.unparse(sargs["distances"]), ast.unparse(
        sargs["flows"])
    from sa.kern import py_calls as _pc
    ev = make_evaluator(repo, fi, extra_call=_pc)
    npar = Poly.atom(("app", "len", (Poly.var(fi.params[1]),)))

    def zeros_init(nm: str) -> bool:
        """`nm = np.zeros((n, n), ...)` with n = len(<matrix parameter>),
        by value."""
        for s in body:
            if isinstance(s, (ast.Assign, ast.AnnAssign)) and isinstance(
                    s.value, ast.Call) and ast.unparse(s.value.func) in (
                    "np.zeros",) and ast.unparse(
                    s.targets[0] if isinstance(s, ast.Assign)
                    else s.target) == nm and s.value.args:
                sh = inline_locals(fi.node, s.value.args[0])
                if isinstance(sh, ast.Tuple) and len(sh.elts) == 2:
                    try:
                        if all(ev.num(Env(), x_) == npar for x_ in sh.elts):
                            return True
                    except Unsupported:
                        pass
        return False

    def stores(nm: str) -> list[tuple[ast.Assign, list[ast.AST]]]:
        out = []

        def walk(stmts: list[ast.stmt], ctxs: list[ast.AST]) -> None:
            for s in stmts:
                if isinstance(s, ast.Assign) and any(
                        isinstance(t, ast.Subscript) and ast.unparse(
                            t.value) == nm for t in s.targets):
                    out.append((s, list(ctxs)))
                for fld in ("body", "orelse"):
                    sub = getattr(s, fld, None)
                    if isinstance(sub, list) and sub and isinstance(
                            sub[0], ast.stmt):
                        walk(sub, ctxs + [s])
        walk(body, [])
        return out
    # ---- the two loop nests, path by path with every local inlined
    from sa.casesplit import equivalent
    from sa.pathinline import Path, paths, subst
    from sa.symterm import _eq, c_and, c_not, show_cond
    top = paths(body)
    tp = next((p_ for p_ in top if p_.ended != "raise"), None)
    npar = Poly.atom(("app", "len", (Poly.var(fi.params[1]),)))
    from sa.kern import py_calls
    ev = make_evaluator(repo, fi, extra_call=py_calls)

    def nest_of(nm: str) -> tuple[Any, list[ast.For]] | None:
        """(loop event, [outer, inner]) of the loop nest that stores into
        matrix `nm`."""
        if tp is None:
            return None
        for e in tp.events:
            if e.kind == "loop" and isinstance(e.node, ast.For) and any(
                    isinstance(x, ast.Subscript) and isinstance(
                        x.ctx, ast.Store) and ast.unparse(x.value) == nm
                    for x in ast.walk(e.node)):
                inner = [x for x in e.node.body if isinstance(x, ast.For)]
                if len(inner) == 1 and len(e.node.body) == 1:
                    return e, [e.node, inner[0]]
        return None

    def rng(lp: ast.For, env: dict, vars_: dict[str, Poly]) \
            -> tuple[Poly, Poly] | None:
        it = subst(lp.iter, env)
        if not (isinstance(it, ast.Call) and isinstance(
                it.func, ast.Name) and it.func.id == "range" and len(
                it.args) in (1, 2) and not it.keywords and isinstance(
                lp.target, ast.Name)):
            return None
        e_ = Env()
        e_.vars.update(vars_)
        try:
            vals = [ev.num(e_, a_) for a_ in it.args]
        except Unsupported:
            return None
        return (Poly.const(0) if len(vals) == 1 else vals[0]), vals[-1]

    def stores_of(q: Any, nm: str) -> list[Any]:
        return [e for e in q.events if e.kind == "store" and isinstance(
            e.value, ast.Subscript) and ast.unparse(e.value.value) == nm]
    # ---- D20.1
    ok1 = zeros_init(dname)
    detail = "no loop nest stores into the distance matrix"
    dn = nest_of(dname)
    d_node: ast.AST = fi.node
    if ok1 and dn is not None:
        evn, (lo_, li_) = dn
        d_node = lo_
        iv, jv = lo_.target.id, li_.target.id
        I, J = Poly.var("i"), Poly.var("j")
        r0 = rng(lo_, evn.extra, {})
        r1 = rng(li_, evn.extra, {iv: I})
        qs = paths(li_.body, Path(env=dict(evn.extra)))
        got = {}
        clean = len(qs) == 1 and not qs[0].guards
        if clean:
            e_ = Env()
            e_.vars.update({iv: I, jv: J})
            for st in stores_of(qs[0], dname):
                try:
                    idx = ev.index(e_, st.value.slice)
                    got[idx] = ev.num(e_, st.extra)
                except Unsupported:
                    clean = False
            clean = clean and len(qs[0].events) == len(got) == 2
        one = Poly.const(1)
        upper = r0 is not None and r0[0] == Poly.const(0) and r0[1] in (
            npar, npar - one) and r1 == (I + one, npar) and got == {
            (I, J): J - I, (J, I): J - I}
        # the mirrored scan: every pair j < i, both cells get i - j
        lower = r0 is not None and r0[0] in (Poly.const(0), one) and \
            r0[1] == npar and r1 == (Poly.const(0), I) and got == {
            (I, J): I - J, (J, I): I - J}
        ok1 = clean and (upper or lower)
        detail = (f"for i in [{show(r0[0]) if r0 else '?'}, "
                  f"{show(r0[1]) if r0 else '?'}), j in ["
                  f"{show(r1[0]) if r1 else '?'}, "
                  f"{show(r1[1]) if r1 else '?'}): stores "
                  + str({tuple(show(x) for x in k): show(v)
                         for k, v in got.items()}))
    else:
        ok1 = False
    ctx.ob("D20.1", fi, d_node, ok1,
           "position distance: zeros, then " + detail + " - i.e. |i - j|"
           if ok1 else "the position-distance matrix is not |i - j|: "
           + detail, construct="distance matrix")
    # ---- D20.2 / D20.3 / D20.4
    fn_ = nest_of(fname)
    if not zeros_init(fname) or fn_ is None:
        ctx.ob("D20.2", fi, fi.node, False,
               "the flow matrix is not a zero matrix filled by one loop "
               "nest", construct="flow store")
        return
    evn, (lo_, li_) = fn_
    iv, jv = lo_.target.id, li_.target.id
    I, J = Poly.var("i"), Poly.var("j")
    ok_l = rng(lo_, evn.extra, {}) == (Poly.const(0), npar) and rng(
        li_, evn.extra, {iv: I}) == (Poly.const(0), npar)
    qs = paths(li_.body, Path(env=dict(evn.extra)))
    e_ = Env()
    e_.vars.update({iv: I, jv: J})
    H = Poly.var("horizon")
    store_conds = []
    s_evt = None
    rank_expr = None
    tgt_ok = True
    extra_events = False
    for q in qs:
        sts = stores_of(q, fname)
        if [e for e in q.events if e not in sts] or q.ended in (
                "break", "return", "raise"):
            extra_events = True
        if not sts:
            continue
        if len(sts) != 1:
            tgt_ok = False
            continue
        s_evt = sts[0]
        try:
            tgt_ok = tgt_ok and ev.index(e_, s_evt.value.slice) == (I, J)
            store_conds.append(q.guards)
        except Unsupported:
            tgt_ok = False
    # the rank: the subscript [i, j] of the row-wise rank matrix
    if s_evt is not None:
        for x in ast.walk(s_evt.extra):
            if isinstance(x, ast.Subscript) and ast.unparse(
                    x.slice).replace(" ", "") in (f"{iv},{jv}",
                                                 f"({iv},{jv})"):
                rank_expr = x
    rank_cell = None
    if rank_expr is not None:
        try:
            rank_cell = ev.num(e_, ast.Subscript(
                value=ast.Name(id="RANKS$", ctx=ast.Load()),
                slice=rank_expr.slice, ctx=ast.Load()))
        except Unsupported:
            rank_cell = None
    conds_txt = "?"
    ok_skip = False
    if store_conds and rank_expr is not None and rank_cell is not None:
        from sa.symterm import c_or, map_atom

        def canon(c: tuple) -> tuple:
            # the rank matrix by one name, whatever expression denotes it
            return c
        # evaluate the guards again with the rank matrix named RANKS$
        rk_src = ast.unparse(rank_expr.value)
        sc2 = []
        ok_eval = True
        for q in qs:
            if not stores_of(q, fname):
                continue
            cs = []
            for tst, truth in q.guards:
                class R(ast.NodeTransformer):
                    def visit_Subscript(self, n: ast.Subscript) -> ast.AST:
                        if ast.unparse(n.value) == rk_src:
                            return ast.Subscript(
                                value=ast.Name(id="RANKS$", ctx=ast.Load()),
                                slice=n.slice, ctx=ast.Load())
                        return self.generic_visit(n)
                import copy as _copy
                t2 = ast.fix_missing_locations(R().visit(
                    _copy.deepcopy(tst)))
                try:
                    c = ev.cond(e_, t2)
                except Unsupported:
                    ok_eval = False
                    continue
                cs.append(c if truth else c_not(c))
            sc2.append(c_and(*cs) if cs else ("true",))
        want = c_and(c_not(_eq(I, J)), c_not(("lt", H, rank_cell)))
        got_c = c_or(*sc2) if sc2 else ("false",)
        conds_txt = show_cond(got_c)[:160]
        ok_skip = ok_eval and equivalent(got_c, want, integer=False)[0]
        del map_atom, canon
    ctx.ob("D20.2", fi, s_evt.node if s_evt else li_,
           bool(ok_l and ok_skip and tgt_ok and not extra_events),
           f"flow[{iv},{jv}] is written exactly when [{conds_txt}]: the "
           "diagonal and ranks beyond the horizon stay zero" if ok_l and
           ok_skip and tgt_ok and not extra_events else
           f"flow store happens under [{conds_txt}] (needs exactly i != j "
           f"and not rank > horizon); loops full: {ok_l}",
           construct="flow skip conditions")
    if s_evt is None or rank_expr is None:
        ctx.ob("D20.3", fi, li_, False,
               "the stored flow does not read the rank of the pair",
               construct="flow depends on rank only")
        return
    # ---- D20.3: the value depends on (i, j) only through the rank
    rk_src = ast.unparse(rank_expr.value)

    class RK(ast.NodeTransformer):
        def visit_Subscript(self, n: ast.Subscript) -> ast.AST:
            if ast.unparse(n) == ast.unparse(rank_expr):
                return ast.Name(id="RANK$", ctx=ast.Load())
            return self.generic_visit(n)

        def visit_Call(self, n: ast.Call) -> ast.AST:
            # max_val = min(n - 1, horizon), by value
            if isinstance(n.func, ast.Name) and n.func.id == "min" and len(
                    n.args) == 2 and not n.keywords:
                try:
                    vals = {ev.num(Env(), a_) for a_ in n.args}
                except Unsupported:
                    vals = set()
                if vals == {npar - Poly.const(1), H}:
                    return ast.Name(id="max_val", ctx=ast.Load())
            return self.generic_visit(n)
    import copy as _copy
    val2 = ast.fix_missing_locations(RK().visit(_copy.deepcopy(s_evt.extra)))
    names = {n.id for n in ast.walk(val2) if isinstance(n, ast.Name)}
    ok3 = "RANK$" in names and iv not in names and jv not in names and \
        not any(isinstance(x, ast.Subscript) for x in ast.walk(val2))
    # rank comes from the row-wise ranks of the input distances
    ok_rk = False
    v = rank_expr.value
    if isinstance(v, ast.BinOp) and isinstance(v.op, ast.Sub) and \
            repo.const(fi.module, v.right) == 1 and isinstance(
            v.left, ast.Call) and ast.unparse(
            v.left.func) == "rankdata" and len(
            v.left.args) == 1 and ast.unparse(
            v.left.args[0]) == fi.params[1]:
        kw = {k.arg: repo.const(fi.module, k.value)
              for k in v.left.keywords}
        ok_rk = kw.get("axis") == 1 and kw.get("method") == "average"
    ctx.ob("D20.3", fi, s_evt.node, bool(ok3 and ok_rk),
           f"the stored flow is a function of the rank "
           f"({rk_src[:60]})[{iv},{jv}] (row-wise rank of the distances) "
           "and of instance-wide constants only: equally distant "
           "neighbours get equal flows" if ok3 and ok_rk else
           f"the stored flow mentions {sorted(names & {iv, jv})} besides "
           f"the rank, or the rank is not rankdata(distances, axis=1, "
           "method='average') - 1", construct="flow depends on rank only")
    # ---- monotonicity
    mult_names = sorted(names - {"RANK$", "max_val", "flow_power", "int",
                                 "round", "float", "horizon"})
    pos = {"flow_power": _power_positive(fi)}
    for mnm in mult_names:
        pos[mnm] = _multiplier_positive(fi, mnm)
    m = _mono(val2, "RANK$", pos)
    ok4 = m in (-1, 0) and all(pos.values())
    ctx.ob("D20.4", fi, s_evt.node, ok4,
           f"`{ast.unparse(s_evt.node.value) if hasattr(s_evt.node, 'value') else '?'}` "
           "is non-increasing in the rank (base max_val - rank + 1 "
           "decreases; positive power, positive multiplier, round and int "
           "preserve the order)" if ok4 else
           (f"`{ast.unparse(val2)[:120]}` increases with the rank: a "
            "farther neighbour gets a larger flow" if m == 1 else
            f"`{ast.unparse(val2)[:120]}`: cannot normalise the flow into "
            "a product of positive factors and a power of a base that "
            f"falls with the rank (direction {m}, positive factors: {pos}): "
            "not recognised"),
           construct="flow antitone")
    # the base of the power is >= 1 (a power with exponent > 0 is only
    # monotone on a non-negative base): rank <= horizon (skip guard), rank
    # <= n - 1 (range of ranks), max_val = min(n - 1, horizon)
    from sa.lin import Lin, entails
    bases = [x.left for x in ast.walk(val2) if isinstance(x, ast.BinOp)
             and isinstance(x.op, ast.Pow)]
    base_ok = len(bases) == 1 and "max_val" in names

    def lin(e: ast.expr) -> Lin | None:
        if isinstance(e, ast.Constant) and isinstance(
                e.value, (int, float)) and float(e.value).is_integer():
            return Lin.const(int(e.value))
        if isinstance(e, ast.Name):
            return Lin.sym(e.id)
        if isinstance(e, ast.BinOp) and isinstance(e.op, (ast.Add, ast.Sub)):
            a, b = lin(e.left), lin(e.right)
            if a is None or b is None:
                return None
            return a + b if isinstance(e.op, ast.Add) else a - b
        return None
    if base_ok:
        b = lin(bases[0])
        base_ok = False
        if b is not None:
            r_, mvs, hz, nn = (Lin.sym("RANK$"), Lin.sym("max_val"),
                               Lin.sym("horizon"), Lin.sym("n"))
            common = [hz - r_, nn - 1 - r_, r_]
            base_ok = all(entails(common + case, b - 1) for case in (
                [mvs - hz, hz - mvs, nn - 1 - hz],       # max_val = horizon
                [mvs - (nn - 1), (nn - 1) - mvs, hz - (nn - 1)]))
    ctx.ob("D20.4", fi, s_evt.node, base_ok,
           "max_val = min(n - 1, horizon); with rank <= horizon (skip "
           "guard) and rank <= n - 1 the base of the power is >= 1 (linear "
           "entailment in both cases of the minimum)" if base_ok else
           ("the base of the power is not provably >= 1 for every stored "
            "rank: a farther neighbour could receive a larger (or a "
            "complex) flow" if len(bases) == 1 and "max_val" in names else
            "the base of the power (max_val - rank + 1 with max_val = "
            "min(n - 1, horizon)) is not recognised"),
           construct="base >= 1")
    ctx.rule("D20.5", "swap distance = n - cycles of the relative "
             "permutation")
    _swap_distance(ctx)
    ctx.rule("D20.6", "zero-distance objects are merged and mapped to "
             "their representative")
    _merging(ctx)
    ctx.rule("D20.7", "the text form of an ordering reports, for every "
             "original object, the position x[representative]")
    _reported_position(ctx)
    ctx.assumptions += [
        "scipy rankdata(..., 'average') - 1 yields ranks in [0, n-1], "
        "equal for equal distances, smaller for nearer neighbours",
    ]


_FOLD: Any = None


def _fold(e: Any) -> Any:
    """Module-level constants written by name are read as their values."""
    return _FOLD(e) if _FOLD is not None and isinstance(e, ast.AST) else e


def _multiplier_positive(fi: FuncInfo, name: str = "multiplier") -> bool:
    ok = True
    n = 0
    for s in ast.walk(fi.node):
        if isinstance(s, (ast.Assign, ast.AnnAssign)) and ast.unparse(
                s.targets[0] if isinstance(s, ast.Assign) else s.target) \
                == name and s.value is not None:
            n += 1
            v = _fold(inline_locals(fi.node, s.value))
            if isinstance(v, ast.Constant) and isinstance(
                    v.value, (int, float)) and v.value > 0:
                continue
            if isinstance(v, ast.BinOp) and isinstance(
                    v.op, ast.Pow) and isinstance(
                    v.left, ast.Constant) and v.left.value > 0:
                continue
            ok = False
    return ok and n >= 1


def _truth(e: ast.expr, var: str, val: float) -> bool | None:
    """Truth of a test over the single (finite) variable `var` = val."""
    return _truth0(_fold(e), var, val)


def _truth0(e: ast.expr, var: str, val: float) -> bool | None:
    def num(x: ast.expr) -> float | None:
        if isinstance(x, ast.Constant) and isinstance(
                x.value, (int, float)) and not isinstance(x.value, bool):
            return float(x.value)
        if isinstance(x, ast.Name) and x.id == var:
            return val
        if isinstance(x, ast.UnaryOp) and isinstance(x.op, ast.USub):
            v = num(x.operand)
            return None if v is None else -v
        return None
    if isinstance(e, ast.UnaryOp) and isinstance(e.op, ast.Not):
        t = _truth0(e.operand, var, val)
        return None if t is None else not t
    if isinstance(e, ast.BoolOp):
        ts = [_truth0(v, var, val) for v in e.values]
        if any(t is None for t in ts):
            return None
        return all(ts) if isinstance(e.op, ast.And) else any(ts)
    if isinstance(e, ast.Call) and isinstance(e.func, ast.Name) and \
            e.func.id == "isfinite" and len(e.args) == 1 and isinstance(
            e.args[0], ast.Name) and e.args[0].id == var:
        return True
    if isinstance(e, ast.Compare):
        vals = [num(e.left)] + [num(c) for c in e.comparators]
        if any(v is None for v in vals):
            return None
        ok = True
        for a, op, b in zip(vals, e.ops, vals[1:]):
            r = {ast.Lt: a < b, ast.LtE: a <= b, ast.Gt: a > b,
                 ast.GtE: a >= b, ast.Eq: a == b,
                 ast.NotEq: a != b}.get(type(op))
            if r is None:
                return None
            ok = ok and r
        return ok
    return None


def _power_positive(fi: FuncInfo) -> bool:
    """Some raising guard of the constructor fires for every non-positive
    flow_power (evaluated at -1, 0 and just below/above: interval logic of
    a single variable against constants is decided by sample points)."""
    tests = [s.test for s in ast.walk(fi.node) if isinstance(s, ast.If)
             and s.body and isinstance(s.body[-1], ast.Raise)
             and any(isinstance(n, ast.Name) and n.id == "flow_power"
                     for n in ast.walk(s.test))]
    for v in (-1e9, -1.0, -1e-9, 0.0):
        if not any(_truth(t, "flow_power", v) is True for t in tests):
            return False
    return True


def _pos_expr(e: ast.expr, pos: dict[str, bool]) -> bool:
    """Is the (rank-independent) expression certainly > 0?"""
    e = _fold(e)
    if isinstance(e, ast.Constant):
        return isinstance(e.value, (int, float)) and not isinstance(
            e.value, bool) and e.value > 0
    if isinstance(e, ast.Name):
        return bool(pos.get(e.id))
    if isinstance(e, ast.IfExp):
        return _pos_expr(e.body, pos) and _pos_expr(e.orelse, pos)
    if isinstance(e, ast.BinOp):
        if isinstance(e.op, ast.Pow):
            # a positive base to any real power is positive
            return _pos_expr(e.left, pos)
        if isinstance(e.op, (ast.Mult, ast.Add, ast.Div)):
            return _pos_expr(e.left, pos) and _pos_expr(e.right, pos)
    if isinstance(e, ast.Call) and isinstance(e.func, ast.Name):
        if e.func.id == "float" and len(e.args) == 1:
            return _pos_expr(e.args[0], pos)
        if e.func.id == "check_int_range" and len(e.args) >= 3:
            lo = _fold(e.args[2])
            return isinstance(lo, ast.Constant) and isinstance(
                lo.value, int) and lo.value >= 1
    return False


def _mono(e: ast.expr, var: str, pos: dict[str, bool]) -> int | None:
    """+1 non-decreasing, -1 non-increasing, 0 constant in `var`."""
    if isinstance(e, ast.Name):
        return 1 if e.id == var else 0
    if isinstance(e, ast.Constant):
        return 0
    if isinstance(e, ast.Call) and isinstance(e.func, ast.Name) and \
            e.func.id in ("int", "round", "float") and len(e.args) == 1:
        return _mono(e.args[0], var, pos)
    if isinstance(e, ast.UnaryOp) and isinstance(e.op, ast.USub):
        m = _mono(e.operand, var, pos)
        return None if m is None else -m
    if isinstance(e, ast.BinOp):
        a, b = _mono(e.left, var, pos), _mono(e.right, var, pos)
        if a is None or b is None:
            return None
        if isinstance(e.op, ast.Add):
            return a if b in (0, a) else (b if a == 0 else None)
        if isinstance(e.op, ast.Sub):
            nb = -b
            return a if nb in (0, a) else (nb if a == 0 else None)
        if isinstance(e.op, ast.Mult):
            # constant positive factor keeps the direction
            if a == 0 and _pos_expr(e.left, pos):
                return b
            if b == 0 and _pos_expr(e.right, pos):
                return a
            if a == 0 and isinstance(e.left, ast.Name) and pos.get(
                    e.left.id):
                return b
            if b == 0 and isinstance(e.right, ast.Name) and pos.get(
                    e.right.id):
                return a
            if a == 0 and isinstance(e.left, ast.Constant) and \
                    e.left.value > 0:
                return b
            return None
        if isinstance(e.op, ast.Pow):
            # x ** p with p > 0 constant in var and x >= 0 keeps direction
            if b == 0 and isinstance(e.right, ast.Name) and pos.get(
                    e.right.id):
                return a
            if b == 0 and isinstance(e.right, ast.Constant) and \
                    e.right.value > 0:
                return a
            # x ** (-p), p > 0: the direction is reversed
            if b == 0 and isinstance(e.right, ast.UnaryOp) and isinstance(
                    e.right.op, ast.USub) and _pos_expr(
                    e.right.operand, pos):
                return -a
            return None
    return None


# ------------------------------------------------------------------ D20.5
def _swap_distance(ctx: Ctx) -> None:
    """swap_distance = n - number of cycles of the relative permutation.

    The function is expanded path by path with its locals inlined, so that
    temporaries (argsort hoisted), `if m[i]: ...` versus `if not m[i]:
    continue`, operand orders and the spelling of names do not matter."""
    from sa.pathinline import Path, paths
    repo = ctx.repo
    fi = repo.func("moptipyapps.order1d.distances", "swap_distance")
    p1, p2 = fi.params
    body = func_body(fi)
    problems: list[str] = []

    def src(e: ast.AST | None) -> str:
        return ast.unparse(e).replace(" ", "") if e is not None else "?"
    tops = [q for q in paths(body) if q.ended == "return"]
    tp = tops[0] if len(tops) == 1 else None
    loop_ev = next((e for e in (tp.events if tp else [])
                    if e.kind == "loop" and isinstance(e.node, ast.For)),
                   None)
    lens = (f"len({p1})", f"len({p2})")
    rel = (f"{p2}[np.argsort({p1})]", f"{p1}[np.argsort({p2})]")
    cname = None
    if tp is None or loop_ev is None:
        problems.append("the scan does not visit every position 0..n-1")
    else:
        loop = loop_ev.node
        env0 = dict(loop_ev.extra)
        if not (isinstance(loop.target, ast.Name) and src(
                loop_ev.value) in tuple(f"range({x})" for x in lens)):
            problems.append("the scan does not visit every position "
                            "0..n-1")
        iv = loop.target.id if isinstance(loop.target, ast.Name) else "?"
        # the marker array: all True, one cell per position
        markers = [k for k, v in tp.objs.items() if isinstance(
            v, ast.Call) and src(v.func) in ("np.ones", "np.full")
            and v.args and src(v.args[0]) in lens and (
                src(v.func) == "np.ones" or (len(v.args) > 1 and repo.const(
                    fi.module, v.args[1]) is True))]
        # objects are kept by name; their creating call is inlined too
        uname = markers[0] if len(markers) == 1 else None
        if uname is None:
            problems.append("no all-True `unvisited` marker array of "
                            "length n")
        qs = paths(loop.body, Path(env=env0, objs=dict(tp.objs)))
        starts = []
        for q in qs:
            changed = {k: v for k, v in q.env.items()
                       if k not in env0 or env0[k] is not v}
            incs = {k: v for k, v in changed.items() if isinstance(
                v, ast.BinOp) and isinstance(v.op, ast.Add) and src(v) in (
                f"{k}+1", f"1+{k}")}
            walks = [e for e in q.events if e.kind == "loop"
                     and isinstance(e.node, ast.While)]
            stores = [e for e in q.events if e.kind == "store"]
            if not incs and not walks and not stores:
                # a skipped position: must be one that is already visited
                if uname and not _has_guard(q.guards, f"{uname}[{iv}]",
                                            False):
                    problems.append("a position is skipped although it may "
                                    "be unvisited")
                continue
            starts.append((q, incs, walks, stores))
        if len(starts) != 1:
            problems.append("a new cycle is not started exactly at the "
                            "positions that are still unvisited")
        else:
            q, incs, walks, stores = starts[0]
            if uname and not _has_guard(q.guards, f"{uname}[{iv}]", True):
                problems.append("a new cycle is not started exactly at the "
                                "positions that are still unvisited")
            if len(incs) != 1:
                problems.append("the cycle counter is not incremented by "
                                "one per new cycle")
            else:
                cname = next(iter(incs))
                init = next((e_.extra.get(cname) for e_ in [loop_ev]), None)
                pre_val = None
                for st in body:
                    if st is loop:
                        break
                    if isinstance(st, (ast.Assign, ast.AnnAssign)) and \
                            st.value is not None and src(
                            st.targets[0] if isinstance(st, ast.Assign)
                            else st.target) == cname:
                        pre_val = repo.const(fi.module, st.value)
                del init
                if pre_val != 0:
                    problems.append("the cycle counter does not start at 0")
            if len(walks) != 1:
                problems.append("the cycle through position i is not "
                                "followed (j = x[i]; while j != i)")
            else:
                w = walks[0]
                t = src(w.value)
                ok_t = any(t in (f"{r}[{iv}]!={iv}", f"{iv}!={r}[{iv}]")
                           for r in rel)
                if not ok_t:
                    problems.append(
                        "the cycle walk does not start at j = x[i] of the "
                        "relative permutation p2[argsort(p1)] and stop "
                        "exactly when it returns to its start")
                    if not any(r in t for r in rel):
                        problems.append("the relative permutation "
                                        "p2[argsort(p1)] is not formed")
                # one round of the walk: mark j, then j = x[j]
                jn = next((n.id for n in ast.walk(w.node.test)
                           if isinstance(n, ast.Name) and n.id != iv), None)
                wenv = {k: v for k, v in w.extra.items()}
                wq = paths(w.node.body, Path(env=wenv, objs=dict(q.objs)))
                if len(wq) != 1 or jn is None:
                    problems.append("the walk does not advance j = x[j] "
                                    "after marking j")
                else:
                    wst = [e for e in wq[0].events if e.kind == "store"]
                    ok_m = len(wst) == 1 and src(wst[0].value) == \
                        f"{uname}[{jn}]" and repo.const(
                            fi.module, wst[0].extra) is False and len(
                            wq[0].events) == 1
                    if not ok_m:
                        problems.append("positions on the cycle are not "
                                        "marked visited")
                    if src(wq[0].env.get(jn)) not in tuple(
                            f"{r}[{jn}]" for r in rel):
                        problems.append("the walk does not advance j = "
                                        "x[j] after marking j")
        ret = next((e for e in tp.events if e.kind == "return"), None)
        rsrc = src(ret.value) if ret is not None else "?"
        if cname is None or rsrc not in tuple(
                f(x) for x in lens for f in (
                    lambda x: f"{x}-{cname}",
                    lambda x: f"int({x}-{cname})")):
            problems.append("the result is not n - (number of cycles)")
    skeleton = [p_ for p_ in problems if p_.startswith((
        "the scan does not visit every position", "no all-True"))]
    if skeleton:
        # another way of writing the computation (e.g. a `visited` array,
        # a counter running down, enumerate): nothing is claimed about it
        problems = ["the cycle-counting scheme (scan over range(n) with an "
                    "all-True marker array) is not recognised: "
                    + "; ".join(skeleton)]
    ctx.ob("D20.5", fi, fi.node, not problems,
           "swap_distance counts the cycles of p2[argsort(p1)] (each "
           "unvisited position starts one cycle, which is walked and marked "
           "until it closes) and returns n - cycles, the minimum number of "
           "transpositions" if not problems else "; ".join(dict.fromkeys(
               problems)), construct="cycle counting")


def _has_guard(guards: tuple, text: str, truth: bool) -> bool:
    """Is `text` (an expression, spaces removed) tested with this outcome?"""
    for tst, tr in guards:
        while isinstance(tst, ast.UnaryOp) and isinstance(tst.op, ast.Not):
            tst, tr = tst.operand, not tr
        t = ast.unparse(tst).replace(" ", "")
        if t in (text, f"{text}==True") and tr == truth:
            return True
        if t == f"{text}==False" and tr != truth:
            return True
    return False


# ------------------------------------------------------------------ D20.6
def _merging(ctx: Ctx) -> None:
    """from_sequence_and_distance merges zero-distance objects.

    Decided on the paths through the two loop bodies with all locals
    inlined (sa.pathinline): per round of the inner loop an invalid
    distance raises, a zero distance purges object j (list entry, matrix
    column, mapping to the representative i, j unchanged), any other
    distance is appended to the row and j advances; per round of the outer
    loop the row (column i of the earlier rows, then 0) is stored, the
    representative is mapped to itself and i advances."""
    from sa.pathinline import Path, paths
    repo = ctx.repo
    fi = repo.func(MOD, "Instance.from_sequence_and_distance")
    body = func_body(fi)
    problems: list[str] = []
    outer = next((s for s in body if isinstance(s, ast.While)), None)
    if outer is None:
        ctx.ob("D20.6", fi, fi.node, False, "no loop over the objects",
               construct="merging protocol")
        return

    def src(n: ast.AST | None) -> str:
        return ast.unparse(n).replace(" ", "") if n is not None else "?"

    def lt_len(t: ast.expr) -> tuple[ast.expr, str] | None:
        """`e < len(D)` in any spelling -> (e, D)."""
        neg = False
        while isinstance(t, ast.UnaryOp) and isinstance(t.op, ast.Not):
            t, neg = t.operand, not neg
        if not (isinstance(t, ast.Compare) and len(t.ops) == 1):
            return None
        l_, r_, op = t.left, t.comparators[0], t.ops[0]

        def is_len(e: ast.expr) -> str | None:
            if isinstance(e, ast.Call) and src(e.func) in (
                    "len", "list.__len__") and len(e.args) == 1:
                return src(e.args[0])
            return None
        if not neg and isinstance(op, ast.Lt) and is_len(r_):
            return l_, is_len(r_)
        if not neg and isinstance(op, ast.Gt) and is_len(l_):
            return r_, is_len(l_)
        if neg and isinstance(op, ast.GtE) and is_len(r_):
            return l_, is_len(r_)
        if neg and isinstance(op, ast.LtE) and is_len(l_):
            return r_, is_len(l_)
        return None
    o_t = lt_len(outer.test)
    if o_t is None or not isinstance(o_t[0], ast.Name):
        ctx.ob("D20.6", fi, outer, False,
               "the outer loop is not `while i < len(objects)`",
               construct="merging protocol")
        return
    iv, data = o_t[0].id, o_t[1]
    k = body.index(outer)
    pre = [q for q in paths(body[:k]) if q.ended is None]
    if not pre:
        ctx.ob("D20.6", fi, outer, False, "no path reaches the loop",
               construct="merging protocol")
        return
    pp = pre[-1]
    if repo.const(fi.module, pp.env.get(iv)) != 0:
        problems.append(f"`{iv}` does not start at 0")
    assigned_o = {n.id for n in ast.walk(outer) if isinstance(n, ast.Name)
                  and isinstance(n.ctx, ast.Store)}
    env_o = {a_: b_ for a_, b_ in pp.env.items() if a_ not in assigned_o}
    oq = paths(outer.body, Path(env=env_o, objs=dict(pp.objs)))
    if len(oq) != 1:
        problems.append("a round of the outer loop is not straight-line "
                        "code around the inner loop")
    else:
        q = oq[0]
        inner_ev = [e for e in q.events if e.kind == "loop"
                    and isinstance(e.node, ast.While)]
        if src(q.env.get(iv)) not in (f"{iv}+1", f"1+{iv}"):
            problems.append(f"`{iv}` does not advance by one per round")
        if len(inner_ev) != 1:
            problems.append("no inner loop over the later objects")
        else:
            ie = inner_ev[0]
            inner = ie.node
            raw_t = lt_len(inner.test)
            inl_t = lt_len(ie.value)
            if raw_t is None or not isinstance(
                    raw_t[0], ast.Name) or raw_t[1] != data:
                problems.append("the inner loop is not `while j < "
                                "len(objects)`")
            else:
                jv = raw_t[0].id
                if inl_t is None or src(inl_t[0]) not in (f"{iv}+1",
                                                          f"1+{iv}"):
                    problems.append(f"`{jv}` does not start at {iv} + 1")
                # the row under construction: the list that is appended to
                # the matrix at the end of the round
                apps = [e for e in q.events if e.kind == "expr"
                        and isinstance(e.value, ast.Call) and isinstance(
                            e.value.func, ast.Attribute)
                        and e.value.func.attr == "append"
                        and len(e.value.args) == 1]
                row_apps = [e for e in apps if isinstance(
                    e.value.args[0], ast.Name)
                    and e.value.args[0].id in q.objs]
                rowv = row_apps[0].value.args[0].id if len(
                    row_apps) == 1 else None
                rows = src(row_apps[0].value.func.value) if rowv else None
                if rowv is None:
                    problems.append("the row of a round is not stored in "
                                    "the matrix")
                else:
                    rdef = q.objs[rowv]
                    zero_app = [e for e in apps if src(e.value) ==
                                f"{rowv}.append(0)"]

                    def col_i(g_elt: ast.expr, gens: list) -> bool:
                        return len(gens) == 1 and not gens[0].ifs and src(
                            gens[0].iter) == rows and src(g_elt) == \
                            f"{src(gens[0].target)}[{iv}]"
                    form1 = isinstance(rdef, ast.ListComp) and col_i(
                        rdef.elt, rdef.generators) and len(zero_app) == 1 \
                        and q.events.index(zero_app[0]) < q.events.index(ie)
                    form2 = isinstance(rdef, ast.List) and len(
                        rdef.elts) == 2 and isinstance(
                        rdef.elts[0], ast.Starred) and isinstance(
                        rdef.elts[0].value, (ast.GeneratorExp,
                                             ast.ListComp)) and col_i(
                        rdef.elts[0].value.elt,
                        rdef.elts[0].value.generators) and repo.const(
                        fi.module, rdef.elts[1]) == 0 and not zero_app
                    # [d[i] for d in rows] + [0]
                    form3 = isinstance(rdef, ast.BinOp) and isinstance(
                        rdef.op, ast.Add) and isinstance(
                        rdef.left, ast.ListComp) and col_i(
                        rdef.left.elt, rdef.left.generators) and isinstance(
                        rdef.right, ast.List) and len(
                        rdef.right.elts) == 1 and repo.const(
                        fi.module, rdef.right.elts[0]) == 0 and not zero_app
                    if not (form1 or form2 or form3):
                        problems.append("a new row does not start with "
                                        "column i of the earlier rows "
                                        "followed by the diagonal entry 0")
                    # the representative is recorded with its own index
                    self_maps = [e for e in apps if e not in row_apps
                                 and e not in zero_app]
                    maps = None
                    if len(self_maps) == 1 and src(
                            self_maps[0].value.args[0]) == \
                            f"({data}[{iv}],{iv})":
                        maps = src(self_maps[0].value.func.value)
                    else:
                        problems.append("a round does not record the "
                                        "representative itself")
                    extra = [e for e in q.events if e not in apps
                             and e is not ie]
                    if extra:
                        problems.append("a round of the outer loop does "
                                        "more than build and store one row")
                    _inner_rounds(repo, fi, ie, q, data, iv, jv, rowv,
                                  rows or "?", maps, problems, src)
                    # the result
                    rets = [r for r in ast.walk(fi.node)
                            if isinstance(r, ast.Return)]
                    okr = False
                    if len(rets) == 1 and isinstance(
                            rets[0].value, ast.Call) and src(
                            rets[0].value.func) == "Instance":
                        from sa.srcmodel import bound_args
                        ipar = list(repo.func(
                            MOD, "Instance.__init__").params[1:])
                        ba = bound_args(rets[0].value, ipar)
                        a = [inline_locals(fi.node, ba[p_])
                             for p_ in ipar if p_ in ba]
                        if [p_ for p_ in ipar if p_ in ba] != ipar[:len(a)]:
                            a = []      # a gap in the bound parameters
                        if a and isinstance(a[0], ast.Name):
                            # a matrix local that is only built and handed
                            # on (never changed in place afterwards)
                            from sa.srcmodel import mutated_names
                            dfs = [s_ for s_ in ast.walk(fi.node)
                                   if isinstance(s_, (ast.Assign,
                                                      ast.AnnAssign))
                                   and getattr(s_, "value", None) is not None
                                   and src(s_.targets[0] if isinstance(
                                       s_, ast.Assign) else s_.target)
                                   == a[0].id]
                            if len(dfs) == 1 and a[0].id not in \
                                    mutated_names(fi.node):
                                a[0] = dfs[0].value
                        m_ok, m_why = _matrix_arg(a[0], rows or "?", src) \
                            if a else (False, "")
                        tag_src = src(a[4]) if len(a) >= 5 else ""
                        if len(a) >= 5 and isinstance(
                                a[4], ast.Call) and isinstance(
                                a[4].func, ast.Name):
                            # a local generator function over the map
                            for fd in ast.walk(fi.node):
                                if isinstance(fd, ast.FunctionDef) and \
                                        fd.name == a[4].func.id and \
                                        fd is not fi.node:
                                    tag_src += src(fd)
                        okr = len(a) >= 5 and m_ok and maps is not None \
                            and maps in tag_src
                        if a and not m_ok and m_why:
                            problems.append(m_why)
                            okr = True      # reported with its own reason
                    if not okr:
                        problems.append("the instance is not built from "
                                        "the reduced distance matrix and "
                                        "the object -> representative map")
                    else:
                        ctor = repo.func(MOD, "Instance.__init__").params[1:]
                        for k_ in (1, 2, 3):
                            if k_ < len(a) and src(a[k_]) != ctor[k_]:
                                problems.append(
                                    f"constructor parameter `{ctor[k_]}` "
                                    f"receives `{src(a[k_])}`")
    ctx.ob("D20.6", fi, outer, not problems,
           "objects at distance 0 from an earlier representative are "
           "removed (list entry and matrix column), recorded with the "
           "representative's index and the position is examined again; "
           "kept objects contribute one symmetric distance; every "
           "representative is recorded with its own index" if not problems
           else "; ".join(dict.fromkeys(problems)),
           construct="merging protocol")


_INT_TYPES = {"DEFAULT_INT", "DEFAULT_UNSIGNED_INT", "int", "np.int64",
              "np.int32", "np.uint64", "np.int_", "np.intp", "'int'",
              "'int64'", "np.uint32", "np.int16", "np.int8"}
_FLOAT_TYPES = {"float", "np.float64", "DEFAULT_FLOAT", "'float'",
                "'float64'", "np.double", "np.float_"}


def _matrix_arg(e: ast.expr, rows: str, src: Any) -> tuple[bool, str]:
    """Is `e` the list of distance rows turned into a matrix without
    changing the distances?  (ok, reason when definitely not)"""
    if src(e) == rows:
        return True, ""
    if isinstance(e, ast.Call) and src(e.func) in (
            "np.array", "np.asarray", "numpy.array", "numpy.asarray") and \
            e.args and src(e.args[0]) == rows:
        dt = e.args[1] if len(e.args) > 1 else next(
            (k.value for k in e.keywords if k.arg == "dtype"), None)
        if dt is None or src(dt) in _FLOAT_TYPES:
            return True, ""
        if src(dt) in _INT_TYPES:
            return False, (
                f"the distance rows are converted with `{src(e)}`: a "
                "real-valued distance is cut down to its integer part "
                "before the neighbours are ranked, so differently distant "
                "neighbours tie and the horizon cuts at the wrong object")
        return False, ""
    return False, ""


def _inner_rounds(repo: Any, fi: FuncInfo, ie: Any, q: Any, data: str,
                  iv: str, jv: str, rowv: str, rows: str, maps: str | None,
                  problems: list[str], src: Any) -> None:
    """One round of the inner loop of from_sequence_and_distance."""
    from sa.pathinline import Path, paths
    inner = ie.node
    wq = paths(inner.body, Path(env=dict(ie.extra), objs=dict(q.objs)))
    gd = fi.params[1]
    dcall_srcs = {f"{gd}({data}[{iv}],{data}[{jv}])",
                  f"{gd}({data}[{jv}],{data}[{iv}])"}

    def dist_of(tst: ast.AST) -> str | None:
        for n in ast.walk(tst):
            if isinstance(n, ast.Call) and src(n) in dcall_srcs:
                return src(n)
        return None
    raise_tests: list[tuple[ast.AST, bool]] = []
    kinds = {"purge": 0, "keep": 0}
    for w in wq:
        if w.ended == "raise":
            raise_tests += [g for g in w.guards]
            continue
        evs = [e for e in w.events]
        jnew = src(w.env.get(jv)) if jv in w.env else jv
        dels = [e for e in evs if e.kind == "other" and isinstance(
            e.node, ast.Delete)]
        apps = [e for e in evs if e.kind == "expr" and isinstance(
            e.value, ast.Call) and isinstance(
            e.value.func, ast.Attribute) and e.value.func.attr == "append"]
        loops = [e for e in evs if e.kind == "loop"]
        if dels or loops:
            kinds["purge"] += 1
            # guard: the distance is zero (<= 0 after validation)
            zero = any(dist_of(t) and _zero_test(t, dist_of(t), tr, src)
                       for t, tr in w.guards)
            if not zero:
                problems.append("objects at distance 0 are not singled "
                                "out (`if dist <= 0`)")
            if not any(src(e.node) == f"del{data}[{jv}]" for e in dels):
                problems.append("a merged object is not removed from the "
                                "object list")
            okc = len(loops) == 1 and isinstance(
                loops[0].node, ast.For) and src(loops[0].node.iter) == rows \
                and len(loops[0].node.body) == 1 and src(
                loops[0].node.body[0]) in (
                f"del{src(loops[0].node.target)}[{jv}]",
                f"{src(loops[0].node.target)}.pop({jv})")
            if not okc:
                problems.append("the column of a merged object is not "
                                "removed from the earlier rows")
            okm = maps is not None and any(
                src(e.value) == f"{maps}.append(({data}[{jv}],{iv}))"
                for e in apps)
            if not okm:
                problems.append("a merged object is not recorded with the "
                                "index of its representative")
            # the object must be read before it is deleted
            if jnew != jv or w.ended not in (None, "continue"):
                problems.append("after a merge the same position must be "
                                "examined again (continue, j unchanged)")
            if len(apps) != 1 or len(evs) != len(dels) + len(loops) + 1:
                problems.append("a merge does more than record, delete the "
                                "object and delete its column")
        else:
            kinds["keep"] += 1
            okk = len(apps) == 1 and len(evs) == 1 and src(
                apps[0].value.func.value) == rowv and src(
                apps[0].value.args[0]) in dcall_srcs and jnew in (
                f"{jv}+1", f"1+{jv}") and w.ended in (None, "continue")
            if not okk:
                problems.append("a kept object does not contribute exactly "
                                "one distance and one step")
    if kinds["purge"] != 1 or kinds["keep"] != 1:
        problems.append("a round of the inner loop is not: reject / merge "
                        "/ keep")
    # validation: raise iff not (finite and 0 <= d <= 1e100)
    okv = bool(raise_tests)
    dsrc = next((dist_of(t) for t, _ in raise_tests if dist_of(t)), None)
    if dsrc is None:
        okv = False
    else:
        import copy as _copy

        class R(ast.NodeTransformer):
            def visit_Call(self, n: ast.Call) -> ast.AST:
                if src(n) == dsrc:
                    return ast.Name(id="d", ctx=ast.Load())
                return self.generic_visit(n)

        def raised(val: float, finite: bool) -> bool | None:
            """Is some raise path taken for this distance?"""
            res = False
            for w in wq:
                if w.ended != "raise":
                    continue
                allg = True
                for t, tr in w.guards:
                    t2 = R().visit(_copy.deepcopy(t))
                    tv = _truth_f(t2, val, finite)
                    if tv is None:
                        return None
                    if tv != tr:
                        allg = False
                        break
                res = res or allg
            return res
        for v, want in ((-1.0, True), (0.0, False), (1.0, False),
                        (1e100, False), (1e101, True)):
            if raised(v, True) is not want:
                okv = False
        if raised(1.0, False) is not True:
            okv = False
    if not okv:
        problems.append("a distance is not rejected exactly when it is "
                        "not finite or outside [0, 1e100] (before it is "
                        "used)")


def _truth_f(e: ast.AST, val: float, finite: bool) -> bool | None:
    """_truth for the variable `d` with isfinite(d) = finite."""
    e = _fold(e)
    if isinstance(e, ast.UnaryOp) and isinstance(e.op, ast.Not):
        t = _truth_f(e.operand, val, finite)
        return None if t is None else not t
    if isinstance(e, ast.BoolOp):
        ts = [_truth_f(v, val, finite) for v in e.values]
        if any(t is None for t in ts):
            return None
        return all(ts) if isinstance(e.op, ast.And) else any(ts)
    if isinstance(e, ast.Call) and ast.unparse(e.func).split(".")[-1] == \
            "isfinite" and len(e.args) == 1 and isinstance(
            e.args[0], ast.Name) and e.args[0].id == "d":
        return finite
    if isinstance(e, ast.Compare):
        if not finite:
            return False           # comparisons with NaN are False
        return _truth(e, "d", val)
    return None


def _zero_test(t: ast.AST, dsrc: str, truth: bool, src: Any) -> bool:
    """Is (t, truth) the test `dist <= 0` / `dist == 0` (any spelling)?"""
    import copy as _copy

    class R(ast.NodeTransformer):
        def visit_Call(self, n: ast.Call) -> ast.AST:
            if src(n) == dsrc:
                return ast.Name(id="d", ctx=ast.Load())
            return self.generic_visit(n)
    t2 = R().visit(_copy.deepcopy(t))
    # on validated distances (d >= 0): true exactly at d == 0
    return _truth(t2, "d", 0.0) is truth and _truth(
        t2, "d", 1.0) is (not truth) and _truth(t2, "d", 1e-9) is (
        not truth)



# ------------------------------------------------------------------ D20.7
def _reported_position(ctx: Ctx) -> None:
    """`instance.tags` holds (tag, index of the representative) for every
    original object; the position the ordering `x` gives that object is
    `x[index]` - the same cell the objective reads.  In the row loop of
    `OrderingSpace.to_str` every array cell that reaches the row (locals
    inlined) must be that cell."""
    from sa.pathinline import Path, paths
    from sa.srcmodel import inline_locals
    repo = ctx.repo
    fi = repo.func("moptipyapps.order1d.space", "OrderingSpace.to_str")
    xp = fi.params[1]
    loop = None
    for lp in ast.walk(fi.node):
        if isinstance(lp, ast.For) and ast.unparse(inline_locals(
                fi.node, lp.iter)).endswith(".instance.tags"):
            loop = lp
    if loop is None or not (isinstance(loop.target, ast.Tuple) and len(
            loop.target.elts) == 2 and all(isinstance(
                t, ast.Name) for t in loop.target.elts)):
        ctx.ob("D20.7", fi, fi.node, False,
               "the loop over (tag, representative) of instance.tags is "
               "not recognised", construct="reported position")
        return
    tagv, iv = (t.id for t in loop.target.elts)
    # locals defined before the loop that name arrays derived from x
    pre: dict[str, ast.expr] = {}
    for st in ast.walk(fi.node):
        if isinstance(st, (ast.Assign, ast.AnnAssign)) and getattr(
                st, "value", None) is not None and st.lineno < loop.lineno:
            tg = st.targets[0] if isinstance(st, ast.Assign) else st.target
            if isinstance(tg, ast.Name):
                pre[tg.id] = st.value
    cells: list[ast.Subscript] = []
    for q in paths(list(loop.body), Path()):
        # what a round appends: the events, and the list displays that are
        # kept by name until they are joined
        vals = [e.value for e in q.events] + list(q.objs.values())
        for val in vals:
            if not isinstance(val, ast.AST):
                continue
            for sb in ast.walk(val):
                if isinstance(sb, ast.Subscript) and isinstance(
                        sb.ctx, ast.Load) and not (isinstance(
                            sb.value, ast.Name) and sb.value.id == tagv):
                    cells.append(sb)
    want = f"{xp}[{iv}]"

    def same_values(e: ast.expr, depth: int = 4) -> bool | None:
        """Does the expression hold the values of x in the same order?
        (None: not known)"""
        if isinstance(e, ast.Name):
            if e.id == xp:
                return True
            if e.id in pre and depth > 0:
                return same_values(pre[e.id], depth - 1)
            return None
        if isinstance(e, ast.Call):
            fn = ast.unparse(e.func)
            if fn in ("list", "tuple", "np.asarray", "np.array",
                      "np.copy") and len(e.args) == 1:
                return same_values(e.args[0], depth)
            if isinstance(e.func, ast.Attribute) and e.func.attr in (
                    "tolist", "copy") and not e.args:
                return same_values(e.func.value, depth)
            if fn.split(".")[-1] in ("argsort", "sort", "sorted", "flip",
                                     "roll", "cumsum", "argmax", "argmin"):
                return False
        return None
    norm: list[str] = []
    unknown: list[str] = []
    for c in cells:
        if isinstance(c.value, ast.Name) and c.value.id != xp:
            sv = same_values(c.value)
            if sv is True:
                norm.append(f"{xp}[{ast.unparse(c.slice)}]".replace(" ", ""))
                continue
            if sv is None:
                unknown.append(ast.unparse(c))
        norm.append(ast.unparse(c).replace(" ", ""))
    got = sorted(set(norm))
    if unknown and not any(
            g != want and g not in [u.replace(" ", "") for u in unknown]
            for g in got):
        ctx.ob("D20.7", fi, loop, False,
               f"the row of an original object reports `{unknown[0]}`, "
               "whose relation to the ordering is not recognised",
               construct="reported position")
        return
    if not cells:
        ctx.ob("D20.7", fi, loop, False,
               "no array cell reaches the rows of the text form; the "
               "reported position is not recognised",
               construct="reported position")
        return
    bad = [g for g in got if g != want]
    detail = ""
    if bad:
        b0 = bad[0].split("[")[0]
        detail = (f"the row of an original object reports `{bad[0]}`"
                  + (f" with {b0} = `{ast.unparse(pre[b0])}`"
                     if b0 in pre else "")
                  + f", not `{want}`: the position that the ordering "
                  "assigns to the object's representative")
    ctx.ob("D20.7", fi, loop, not bad,
           f"every row reports `{want}` (and `{want} / n`) for the "
           "representative index stored in instance.tags" if not bad
           else detail, construct="reported position")
