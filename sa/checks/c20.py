"""C20 - ordering instances encode neighbour ranks (decided part)."""
from __future__ import annotations

import ast
from typing import Any

from sa.kern import make_evaluator
from sa.report import Ctx
from sa.srcmodel import FuncInfo, func_body
from sa.symterm import Env, Poly, Unsupported, show

MOD = "moptipyapps.order1d.instance"


def run(ctx: Ctx) -> None:
    ctx.explanation = (
        "NARROW. Decided: D20.1 the position-distance matrix starts as "
        "zeros and receives dist[i,j] = dist[j,i] = j - i for all j > i "
        "(hence |i - j|); D20.2 the flow matrix starts as zeros and the "
        "only store is skipped for i == j and for ranks beyond the horizon; "
        "D20.3 the stored flow depends on (i, j) only through the rank "
        "flows[i, j]; D20.4 the stored expression is antitone in the rank "
        "(monotonicity analysis of the expression tree under flow_power > "
        "0, multiplier > 0, base >= 1): a nearer neighbour never gets a "
        "smaller flow, equal ranks get equal flows. NOT decided: merging "
        "of zero-distance objects, representative indices, minimality of "
        "swap_distance (its index safety is C13).")
    for rid, txt in (("D20.1", "dist = |i-j|"),
                     ("D20.2", "flow zero on diagonal / beyond horizon"),
                     ("D20.3", "flow depends on rank only"),
                     ("D20.4", "flow antitone in rank")):
        ctx.rule(rid, txt)
    repo = ctx.repo
    fi = repo.func(MOD, "Instance.__init__")
    body = func_body(fi)
    ev = make_evaluator(repo, fi)
    # ---- locate matrices passed to the base constructor
    sup = None
    for n in ast.walk(fi.node):
        if isinstance(n, ast.Call) and isinstance(
                n.func, ast.Attribute) and n.func.attr == "__init__" and \
                isinstance(n.func.value, ast.Call) and ast.unparse(
                n.func.value.func) == "super":
            sup = n
    ctx.need(sup is not None and len(sup.args) >= 2,
             "order1d Instance: super().__init__(distances, flows)")
    dname, fname = ast.unparse(sup.args[0]), ast.unparse(sup.args[1])

    def zeros_init(nm: str) -> bool:
        return any(isinstance(s, (ast.Assign, ast.AnnAssign)) and isinstance(
            s.value, ast.Call) and ast.unparse(s.value.func) in (
            "np.zeros",) and ast.unparse(
            s.targets[0] if isinstance(s, ast.Assign) else s.target) == nm
            and ast.unparse(s.value.args[0]).replace(" ", "") == "(n,n)"
            for s in body)

    def stores(nm: str) -> list[tuple[ast.Assign, list[ast.AST]]]:
        out = []

        def walk(stmts: list[ast.stmt], ctxs: list[ast.AST]) -> None:
            for s in stmts:
                if isinstance(s, ast.Assign) and any(
                        isinstance(t, ast.Subscript) and ast.unparse(
                            t.value) == nm for t in s.targets):
                    out.append((s, list(ctxs)))
                for fld in ("body", "orelse"):
                    sub = getattr(s, fld, None)
                    if isinstance(sub, list) and sub and isinstance(
                            sub[0], ast.stmt):
                        walk(sub, ctxs + [s])
        walk(body, [])
        return out
    # ---- D20.1
    ds = stores(dname)
    ok1 = zeros_init(dname) and len(ds) == 1
    detail = f"{len(ds)} store(s) into the distance matrix"
    if ok1:
        s, cx = ds[0]
        loops = [c for c in cx if isinstance(c, ast.For)]
        ok1 = len(loops) == 2 and len(cx) == 2
        if ok1:
            iv, jv = loops[0].target.id, loops[1].target.id
            r0 = ast.unparse(loops[0].iter).replace(" ", "")
            r1 = ast.unparse(loops[1].iter).replace(" ", "")
            tg = sorted(ast.unparse(t).replace(" ", "") for t in s.targets)
            env = Env()
            env.vars.update({iv: Poly.var(iv), jv: Poly.var(jv)})
            try:
                val = ev.num(env, s.value)
            except Unsupported:
                val = None
            ok1 = r0 == "range(n)" and r1 == f"range({iv}+1,n)" and tg == \
                sorted([f"{dname}[{iv},{jv}]", f"{dname}[{jv},{iv}]"]) and \
                val == Poly.var(jv) - Poly.var(iv)
            detail = (f"for {iv} in {r0}, {jv} in {r1}: {tg} = "
                      f"{show(val) if val is not None else '?'}")
    ctx.ob("D20.1", fi, ds[0][0] if ds else fi.node, ok1,
           "position distance: zeros, then " + detail + " - i.e. |i - j|"
           if ok1 else "the position-distance matrix is not |i - j|: "
           + detail, construct="distance matrix")
    # ---- D20.2 / D20.3 / D20.4
    fs = stores(fname)
    ok2 = zeros_init(fname) and len(fs) == 1
    if not ok2:
        ctx.ob("D20.2", fi, fi.node, False,
               f"{len(fs)} store(s) into the flow matrix (expected one, "
               "into a zero matrix)", construct="flow store")
        return
    s, cx = fs[0]
    loops = [c for c in cx if isinstance(c, ast.For)]
    ok_l = len(loops) == 2 and len(cx) == 2 and all(
        ast.unparse(lp.iter).replace(" ", "") == "range(n)" for lp in loops)
    iv, jv = (loops[0].target.id, loops[1].target.id) if len(
        loops) == 2 else ("i", "j")
    inner = loops[1].body if len(loops) == 2 else []
    k = inner.index(s) if s in inner else -1
    pre = inner[:k] if k >= 0 else []
    skips = [p for p in pre if isinstance(p, ast.If) and isinstance(
        p.body[-1], ast.Continue) and not p.orelse]
    conds = [ast.unparse(p.test).replace(" ", "") for p in skips]
    fdef = [p for p in pre if isinstance(p, ast.Assign) and isinstance(
        p.targets[0], ast.Name)]
    rank = None
    rank_src = None
    for p in fdef:
        src = ast.unparse(p.value).replace(" ", "")
        if src.endswith(f"[{iv},{jv}]"):
            rank = p.targets[0].id
            rank_src = ast.unparse(p.value.value)
    diag = any(c in (f"{iv}=={jv}", f"{jv}=={iv}") for c in conds)
    hor = rank is not None and any(
        c in (f"{rank}>horizon", f"horizon<{rank}") for c in conds)
    others = [p for p in pre if isinstance(p, (ast.If, ast.For, ast.While))
              and p not in skips]
    tgt_ok = [ast.unparse(t).replace(" ", "") for t in s.targets] == [
        f"{fname}[{iv},{jv}]"]
    ctx.ob("D20.2", fi, s, bool(ok_l and diag and hor and not others
                                and tgt_ok),
           f"flow[{iv},{jv}] is written for all pairs except {conds}: the "
           "diagonal and ranks beyond the horizon stay zero" if ok_l and
           diag and hor and not others and tgt_ok else
           f"flow store skipped under {conds} (needs exactly i == j and "
           f"rank > horizon); loops full: {ok_l}",
           construct="flow skip conditions")
    names = {n.id for n in ast.walk(s.value) if isinstance(n, ast.Name)}
    allowed = {rank, "multiplier", "max_val", "flow_power", "int", "round"}
    ok3 = rank is not None and names <= allowed and rank in names
    # rank comes from the row-wise ranks of the input distances
    rk = [p for p in body if isinstance(p, (ast.Assign, ast.AnnAssign))
          and ast.unparse(p.targets[0] if isinstance(p, ast.Assign)
                          else p.target) == (rank_src or "?")]
    ok_rk = len(rk) == 1 and "rankdata(distances, axis=1" in ast.unparse(
        rk[0].value)
    ctx.ob("D20.3", fi, s, bool(ok3 and ok_rk),
           f"the stored flow is a function of the rank `{rank}` = "
           f"{rank_src}[{iv},{jv}] (row-wise rank of the distances) and of "
           "instance-wide constants only: equally distant neighbours get "
           "equal flows" if ok3 and ok_rk else
           f"the stored flow mentions {sorted(names - allowed)} besides the "
           "rank", construct="flow depends on rank only")
    # ---- monotonicity
    pos = {"multiplier": _multiplier_positive(fi),
           "flow_power": _power_positive(fi)}
    m = _mono(s.value, rank or "f", pos)
    ok4 = m in (-1, 0) and all(pos.values())
    ctx.ob("D20.4", fi, s, ok4,
           f"`{ast.unparse(s.value)}` is non-increasing in the rank "
           "(base max_val - rank + 1 decreases; positive power, positive "
           "multiplier, round and int preserve the order)" if ok4 else
           f"`{ast.unparse(s.value)}` is not provably non-increasing in "
           f"the rank (direction {m}, multiplier>0: {pos['multiplier']}, "
           f"power>0: {pos['flow_power']})", construct="flow antitone")
    mv = [p for p in body if isinstance(p, (ast.Assign, ast.AnnAssign))
          and ast.unparse(p.targets[0] if isinstance(p, ast.Assign)
                          else p.target) == "max_val"]
    ok_mv = len(mv) == 1 and ast.unparse(mv[0].value).replace(
        " ", "") in ("min(n-1,horizon)", "min(horizon,n-1)")
    ctx.ob("D20.4", fi, mv[0] if mv else fi.node, ok_mv,
           "max_val = min(n - 1, horizon): with rank <= horizon and rank "
           "<= n - 1 the base is >= 1", construct="base >= 1",
           nontrivial=False)
    ctx.assumptions += [
        "scipy rankdata(..., 'average') - 1 yields ranks in [0, n-1], "
        "equal for equal distances, smaller for nearer neighbours",
    ]


def _multiplier_positive(fi: FuncInfo) -> bool:
    ok = True
    n = 0
    for s in ast.walk(fi.node):
        if isinstance(s, (ast.Assign, ast.AnnAssign)) and ast.unparse(
                s.targets[0] if isinstance(s, ast.Assign) else s.target) \
                == "multiplier" and s.value is not None:
            n += 1
            v = s.value
            if isinstance(v, ast.Constant) and isinstance(
                    v.value, (int, float)) and v.value > 0:
                continue
            if isinstance(v, ast.BinOp) and isinstance(
                    v.op, ast.Pow) and isinstance(
                    v.left, ast.Constant) and v.left.value > 0:
                continue
            ok = False
    return ok and n >= 1


def _power_positive(fi: FuncInfo) -> bool:
    for s in ast.walk(fi.node):
        if isinstance(s, ast.If) and s.body and isinstance(
                s.body[-1], ast.Raise):
            src = ast.unparse(s.test).replace(" ", "")
            if "0<flow_power<" in src and src.startswith("not"):
                return True
    return False


def _mono(e: ast.expr, var: str, pos: dict[str, bool]) -> int | None:
    """+1 non-decreasing, -1 non-increasing, 0 constant in `var`."""
    if isinstance(e, ast.Name):
        return 1 if e.id == var else 0
    if isinstance(e, ast.Constant):
        return 0
    if isinstance(e, ast.Call) and isinstance(e.func, ast.Name) and \
            e.func.id in ("int", "round", "float") and len(e.args) == 1:
        return _mono(e.args[0], var, pos)
    if isinstance(e, ast.UnaryOp) and isinstance(e.op, ast.USub):
        m = _mono(e.operand, var, pos)
        return None if m is None else -m
    if isinstance(e, ast.BinOp):
        a, b = _mono(e.left, var, pos), _mono(e.right, var, pos)
        if a is None or b is None:
            return None
        if isinstance(e.op, ast.Add):
            return a if b in (0, a) else (b if a == 0 else None)
        if isinstance(e.op, ast.Sub):
            nb = -b
            return a if nb in (0, a) else (nb if a == 0 else None)
        if isinstance(e.op, ast.Mult):
            # constant positive factor keeps the direction
            if a == 0 and isinstance(e.left, ast.Name) and pos.get(
                    e.left.id):
                return b
            if b == 0 and isinstance(e.right, ast.Name) and pos.get(
                    e.right.id):
                return a
            if a == 0 and isinstance(e.left, ast.Constant) and \
                    e.left.value > 0:
                return b
            return None
        if isinstance(e.op, ast.Pow):
            # x ** p with p > 0 constant in var and x >= 0 keeps direction
            if b == 0 and isinstance(e.right, ast.Name) and pos.get(
                    e.right.id):
                return a
            if b == 0 and isinstance(e.right, ast.Constant) and \
                    e.right.value > 0:
                return a
            return None
    return None
