"""C20 - ordering instances encode neighbour ranks (decided part)."""
from __future__ import annotations

import ast
from typing import Any

from sa.kern import make_evaluator
from sa.report import Ctx
from sa.srcmodel import FuncInfo, func_body
from sa.symterm import Env, Poly, Unsupported, show

MOD = "moptipyapps.order1d.instance"


def run(ctx: Ctx) -> None:
    ctx.explanation = (
        "D20.1 the position-distance matrix starts as zeros and receives "
        "dist[i,j] = dist[j,i] = j - i for all j > i (hence |i - j|); D20.2 "
        "the flow matrix starts as zeros and the only store is skipped for "
        "i == j and for ranks beyond the horizon; D20.3 the stored flow "
        "depends on (i, j) only through the rank flows[i, j] = "
        "rankdata(distances, axis=1, method='average') - 1; D20.4 the stored "
        "expression is antitone in the rank (monotonicity analysis of the "
        "expression tree under flow_power > 0, multiplier > 0) and the base "
        "of the power is >= 1 (linear entailment from rank <= horizon, rank "
        "<= n - 1 and max_val = min(n - 1, horizon)): a nearer neighbour "
        "never gets a smaller flow, equal ranks get equal flows; D20.5 "
        "swap_distance counts the cycles of p2[argsort(p1)] (cycle-walk "
        "protocol: every unvisited position starts one cycle which is "
        "followed and marked until it closes) and returns n - cycles, the "
        "minimum number of transpositions; D20.6 from_sequence_and_distance "
        "validates each distance, removes an object at distance 0 from an "
        "earlier representative (list entry and matrix column), records it "
        "with the representative's index and re-examines the position, "
        "builds symmetric rows with a zero diagonal, records every "
        "representative with its own index, and passes (matrix, flow_power, "
        "horizon, titles, tags) to the constructor in this order. NOT "
        "decided: the multiplier that makes half ranks integral (it does "
        "not affect the clauses above), tag bookkeeping.")
    for rid, txt in (("D20.1", "dist = |i-j|"),
                     ("D20.2", "flow zero on diagonal / beyond horizon"),
                     ("D20.3", "flow depends on rank only"),
                     ("D20.4", "flow antitone in rank")):
        ctx.rule(rid, txt)
    repo = ctx.repo
    fi = repo.func(MOD, "Instance.__init__")
    body = func_body(fi)
    ev = make_evaluator(repo, fi)
    # ---- locate matrices passed to the base constructor
    sup = None
    for n in ast.walk(fi.node):
        if isinstance(n, ast.Call) and isinstance(
                n.func, ast.Attribute) and n.func.attr == "__init__" and \
                isinstance(n.func.value, ast.Call) and ast.unparse(
                n.func.value.func) == "super":
            sup = n
    if sup is None or len(sup.args) < 2:
        ctx.ob("D20.1", fi, fi.node, False,
               "the constructed matrices are never handed to the QAP base "
               "class (super().__init__(distances, flows) not found)",
               construct="matrices passed on")
        return
    dname, fname = ast.unparse(sup.args[0]), ast.unparse(sup.args[1])

    def zeros_init(nm: str) -> bool:
        return any(isinstance(s, (ast.Assign, ast.AnnAssign)) and isinstance(
            s.value, ast.Call) and ast.unparse(s.value.func) in (
            "np.zeros",) and ast.unparse(
            s.targets[0] if isinstance(s, ast.Assign) else s.target) == nm
            and ast.unparse(s.value.args[0]).replace(" ", "") == "(n,n)"
            for s in body)

    def stores(nm: str) -> list[tuple[ast.Assign, list[ast.AST]]]:
        out = []

        def walk(stmts: list[ast.stmt], ctxs: list[ast.AST]) -> None:
            for s in stmts:
                if isinstance(s, ast.Assign) and any(
                        isinstance(t, ast.Subscript) and ast.unparse(
                            t.value) == nm for t in s.targets):
                    out.append((s, list(ctxs)))
                for fld in ("body", "orelse"):
                    sub = getattr(s, fld, None)
                    if isinstance(sub, list) and sub and isinstance(
                            sub[0], ast.stmt):
                        walk(sub, ctxs + [s])
        walk(body, [])
        return out
    # ---- D20.1
    ds = stores(dname)
    ok1 = zeros_init(dname) and len(ds) == 1
    detail = f"{len(ds)} store(s) into the distance matrix"
    if ok1:
        s, cx = ds[0]
        loops = [c for c in cx if isinstance(c, ast.For)]
        ok1 = len(loops) == 2 and len(cx) == 2
        if ok1:
            iv, jv = loops[0].target.id, loops[1].target.id
            r0 = ast.unparse(loops[0].iter).replace(" ", "")
            r1 = ast.unparse(loops[1].iter).replace(" ", "")
            tg = sorted(ast.unparse(t).replace(" ", "") for t in s.targets)
            env = Env()
            env.vars.update({iv: Poly.var(iv), jv: Poly.var(jv)})
            try:
                val = ev.num(env, s.value)
            except Unsupported:
                val = None
            ok1 = r0 == "range(n)" and r1 == f"range({iv}+1,n)" and tg == \
                sorted([f"{dname}[{iv},{jv}]", f"{dname}[{jv},{iv}]"]) and \
                val == Poly.var(jv) - Poly.var(iv)
            detail = (f"for {iv} in {r0}, {jv} in {r1}: {tg} = "
                      f"{show(val) if val is not None else '?'}")
    ctx.ob("D20.1", fi, ds[0][0] if ds else fi.node, ok1,
           "position distance: zeros, then " + detail + " - i.e. |i - j|"
           if ok1 else "the position-distance matrix is not |i - j|: "
           + detail, construct="distance matrix")
    # ---- D20.2 / D20.3 / D20.4
    fs = stores(fname)
    ok2 = zeros_init(fname) and len(fs) == 1
    if not ok2:
        ctx.ob("D20.2", fi, fi.node, False,
               f"{len(fs)} store(s) into the flow matrix (expected one, "
               "into a zero matrix)", construct="flow store")
        return
    s, cx = fs[0]
    loops = [c for c in cx if isinstance(c, ast.For)]
    ok_l = len(loops) == 2 and len(cx) == 2 and all(
        ast.unparse(lp.iter).replace(" ", "") == "range(n)" for lp in loops)
    iv, jv = (loops[0].target.id, loops[1].target.id) if len(
        loops) == 2 else ("i", "j")
    inner = loops[1].body if len(loops) == 2 else []
    k = inner.index(s) if s in inner else -1
    pre = inner[:k] if k >= 0 else []
    skips = [p for p in pre if isinstance(p, ast.If) and isinstance(
        p.body[-1], ast.Continue) and not p.orelse]
    conds = [ast.unparse(p.test).replace(" ", "") for p in skips]
    fdef = [p for p in pre if isinstance(p, ast.Assign) and isinstance(
        p.targets[0], ast.Name)]
    rank = None
    rank_src = None
    for p in fdef:
        src = ast.unparse(p.value).replace(" ", "")
        if src.endswith(f"[{iv},{jv}]"):
            rank = p.targets[0].id
            rank_src = ast.unparse(p.value.value)
    diag = any(c in (f"{iv}=={jv}", f"{jv}=={iv}") for c in conds)
    hor = rank is not None and any(
        c in (f"{rank}>horizon", f"horizon<{rank}") for c in conds)
    others = [p for p in pre if isinstance(p, (ast.If, ast.For, ast.While))
              and p not in skips]
    tgt_ok = [ast.unparse(t).replace(" ", "") for t in s.targets] == [
        f"{fname}[{iv},{jv}]"]
    ctx.ob("D20.2", fi, s, bool(ok_l and diag and hor and not others
                                and tgt_ok),
           f"flow[{iv},{jv}] is written for all pairs except {conds}: the "
           "diagonal and ranks beyond the horizon stay zero" if ok_l and
           diag and hor and not others and tgt_ok else
           f"flow store skipped under {conds} (needs exactly i == j and "
           f"rank > horizon); loops full: {ok_l}",
           construct="flow skip conditions")
    names = {n.id for n in ast.walk(s.value) if isinstance(n, ast.Name)}
    allowed = {rank, "multiplier", "max_val", "flow_power", "int", "round"}
    ok3 = rank is not None and names <= allowed and rank in names
    # rank comes from the row-wise ranks of the input distances
    rk = [p for p in body if isinstance(p, (ast.Assign, ast.AnnAssign))
          and ast.unparse(p.targets[0] if isinstance(p, ast.Assign)
                          else p.target) == (rank_src or "?")]
    ok_rk = False
    if len(rk) == 1:
        v = rk[0].value
        # rankdata(<distances param>, axis=1, method="average") - 1
        if isinstance(v, ast.BinOp) and isinstance(v.op, ast.Sub) and \
                repo.const(fi.module, v.right) == 1 and isinstance(
                v.left, ast.Call) and ast.unparse(
                v.left.func) == "rankdata" and len(
                v.left.args) == 1 and ast.unparse(
                v.left.args[0]) == fi.params[1]:
            kw = {k.arg: repo.const(fi.module, k.value)
                  for k in v.left.keywords}
            ok_rk = kw.get("axis") == 1 and kw.get("method") == "average"
    ctx.ob("D20.3", fi, s, bool(ok3 and ok_rk),
           f"the stored flow is a function of the rank `{rank}` = "
           f"{rank_src}[{iv},{jv}] (row-wise rank of the distances) and of "
           "instance-wide constants only: equally distant neighbours get "
           "equal flows" if ok3 and ok_rk else
           f"the stored flow mentions {sorted(names - allowed)} besides the "
           "rank", construct="flow depends on rank only")
    # ---- monotonicity
    pos = {"multiplier": _multiplier_positive(fi),
           "flow_power": _power_positive(fi)}
    m = _mono(s.value, rank or "f", pos)
    ok4 = m in (-1, 0) and all(pos.values())
    ctx.ob("D20.4", fi, s, ok4,
           f"`{ast.unparse(s.value)}` is non-increasing in the rank "
           "(base max_val - rank + 1 decreases; positive power, positive "
           "multiplier, round and int preserve the order)" if ok4 else
           f"`{ast.unparse(s.value)}` is not provably non-increasing in "
           f"the rank (direction {m}, multiplier>0: {pos['multiplier']}, "
           f"power>0: {pos['flow_power']})", construct="flow antitone")
    mv = [p for p in body if isinstance(p, (ast.Assign, ast.AnnAssign))
          and ast.unparse(p.targets[0] if isinstance(p, ast.Assign)
                          else p.target) == "max_val"]
    ok_mv = len(mv) == 1 and ast.unparse(mv[0].value).replace(
        " ", "") in ("min(n-1,horizon)", "min(horizon,n-1)")
    # the base of the power is >= 1 (a power with exponent > 0 is only
    # monotone on a non-negative base): rank <= horizon (skip guard), rank
    # <= n - 1 (range of ranks), max_val = min(n - 1, horizon)
    from sa.lin import Lin, entails
    bases = [x.left for x in ast.walk(s.value) if isinstance(x, ast.BinOp)
             and isinstance(x.op, ast.Pow)]
    base_ok = ok_mv and len(bases) == 1

    def lin(e: ast.expr) -> Lin | None:
        if isinstance(e, ast.Constant) and isinstance(
                e.value, (int, float)) and float(e.value).is_integer():
            return Lin.const(int(e.value))
        if isinstance(e, ast.Name):
            return Lin.sym(e.id)
        if isinstance(e, ast.BinOp) and isinstance(e.op, (ast.Add, ast.Sub)):
            a, b = lin(e.left), lin(e.right)
            if a is None or b is None:
                return None
            return a + b if isinstance(e.op, ast.Add) else a - b
        return None
    if base_ok:
        b = lin(bases[0])
        base_ok = False
        if b is not None and rank is not None:
            r_, mvs, hz, nn = (Lin.sym(rank), Lin.sym("max_val"),
                               Lin.sym("horizon"), Lin.sym("n"))
            common = [hz - r_, nn - 1 - r_, r_]
            base_ok = all(entails(common + case, b - 1) for case in (
                [mvs - hz, hz - mvs, nn - 1 - hz],       # max_val = horizon
                [mvs - (nn - 1), (nn - 1) - mvs, hz - (nn - 1)]))
    ctx.ob("D20.4", fi, mv[0] if mv else fi.node, base_ok,
           "max_val = min(n - 1, horizon); with rank <= horizon (skip "
           "guard) and rank <= n - 1 the base of the power is >= 1 (linear "
           "entailment in both cases of the minimum)" if base_ok else
           "the base of the power is not provably >= 1 for every stored "
           "rank: a farther neighbour could receive a larger (or a complex) "
           "flow", construct="base >= 1")
    ctx.rule("D20.5", "swap distance = n - cycles of the relative "
             "permutation")
    _swap_distance(ctx)
    ctx.rule("D20.6", "zero-distance objects are merged and mapped to "
             "their representative")
    _merging(ctx)
    ctx.assumptions += [
        "scipy rankdata(..., 'average') - 1 yields ranks in [0, n-1], "
        "equal for equal distances, smaller for nearer neighbours",
    ]


def _multiplier_positive(fi: FuncInfo) -> bool:
    ok = True
    n = 0
    for s in ast.walk(fi.node):
        if isinstance(s, (ast.Assign, ast.AnnAssign)) and ast.unparse(
                s.targets[0] if isinstance(s, ast.Assign) else s.target) \
                == "multiplier" and s.value is not None:
            n += 1
            v = s.value
            if isinstance(v, ast.Constant) and isinstance(
                    v.value, (int, float)) and v.value > 0:
                continue
            if isinstance(v, ast.BinOp) and isinstance(
                    v.op, ast.Pow) and isinstance(
                    v.left, ast.Constant) and v.left.value > 0:
                continue
            ok = False
    return ok and n >= 1


def _power_positive(fi: FuncInfo) -> bool:
    for s in ast.walk(fi.node):
        if isinstance(s, ast.If) and s.body and isinstance(
                s.body[-1], ast.Raise):
            src = ast.unparse(s.test).replace(" ", "")
            if "0<flow_power<" in src and src.startswith("not"):
                return True
    return False


def _mono(e: ast.expr, var: str, pos: dict[str, bool]) -> int | None:
    """+1 non-decreasing, -1 non-increasing, 0 constant in `var`."""
    if isinstance(e, ast.Name):
        return 1 if e.id == var else 0
    if isinstance(e, ast.Constant):
        return 0
    if isinstance(e, ast.Call) and isinstance(e.func, ast.Name) and \
            e.func.id in ("int", "round", "float") and len(e.args) == 1:
        return _mono(e.args[0], var, pos)
    if isinstance(e, ast.UnaryOp) and isinstance(e.op, ast.USub):
        m = _mono(e.operand, var, pos)
        return None if m is None else -m
    if isinstance(e, ast.BinOp):
        a, b = _mono(e.left, var, pos), _mono(e.right, var, pos)
        if a is None or b is None:
            return None
        if isinstance(e.op, ast.Add):
            return a if b in (0, a) else (b if a == 0 else None)
        if isinstance(e.op, ast.Sub):
            nb = -b
            return a if nb in (0, a) else (nb if a == 0 else None)
        if isinstance(e.op, ast.Mult):
            # constant positive factor keeps the direction
            if a == 0 and isinstance(e.left, ast.Name) and pos.get(
                    e.left.id):
                return b
            if b == 0 and isinstance(e.right, ast.Name) and pos.get(
                    e.right.id):
                return a
            if a == 0 and isinstance(e.left, ast.Constant) and \
                    e.left.value > 0:
                return b
            return None
        if isinstance(e.op, ast.Pow):
            # x ** p with p > 0 constant in var and x >= 0 keeps direction
            if b == 0 and isinstance(e.right, ast.Name) and pos.get(
                    e.right.id):
                return a
            if b == 0 and isinstance(e.right, ast.Constant) and \
                    e.right.value > 0:
                return a
            return None
    return None


# ------------------------------------------------------------------ D20.5
def _swap_distance(ctx: Ctx) -> None:
    """swap_distance = n - number of cycles of the relative permutation."""
    repo = ctx.repo
    fi = repo.func("moptipyapps.order1d.distances", "swap_distance")
    p1, p2 = fi.params
    body = func_body(fi)
    problems: list[str] = []

    def tname(s: ast.stmt) -> str | None:
        if isinstance(s, ast.Assign) and isinstance(s.targets[0], ast.Name):
            return s.targets[0].id
        if isinstance(s, ast.AnnAssign) and isinstance(
                s.target, ast.Name) and s.value is not None:
            return s.target.id
        return None
    defs = {tname(s): s.value for s in body if tname(s) is not None}
    nname = next((k for k, v in defs.items() if ast.unparse(v).replace(
        " ", "") in (f"len({p1})", f"len({p2})")), None)
    xname = next((k for k, v in defs.items() if ast.unparse(v).replace(
        " ", "") in (f"{p2}[np.argsort({p1})]", f"{p1}[np.argsort({p2})]")),
        None)
    if nname is None:
        problems.append("the length n is not taken from the permutations")
    if xname is None:
        problems.append("the relative permutation p2[argsort(p1)] is not "
                        "formed")
    uname = None
    for k, v in defs.items():
        if isinstance(v, ast.Call) and ast.unparse(v.func) in (
                "np.ones", "np.full") and v.args and ast.unparse(
                v.args[0]) == nname:
            okv = ast.unparse(v.func) == "np.ones" or (
                len(v.args) > 1 and repo.const(fi.module, v.args[1]) is True)
            if okv:
                uname = k
    if uname is None:
        problems.append("no all-True `unvisited` marker array of length n")
    loop = next((s for s in body if isinstance(s, ast.For)), None)
    rets = [r for r in ast.walk(fi.node) if isinstance(r, ast.Return)]
    cname = None
    if loop is None or not isinstance(loop.target, ast.Name) or ast.unparse(
            loop.iter).replace(" ", "") != f"range({nname})":
        problems.append("the scan does not visit every position 0..n-1")
    elif not problems:
        iv = loop.target.id
        tests = [s for s in loop.body if isinstance(s, ast.If)]
        if len(tests) != 1 or len(loop.body) != 1 or tests[0].orelse or \
                ast.unparse(tests[0].test).replace(" ", "") not in (
                f"{uname}[{iv}]", f"{uname}[{iv}]==True"):
            problems.append("a new cycle is not started exactly at the "
                            "positions that are still unvisited")
        else:
            blk = tests[0].body
            incs = [s for s in blk if isinstance(s, ast.AugAssign)
                    and isinstance(s.op, ast.Add) and isinstance(
                        s.target, ast.Name) and repo.const(
                        fi.module, s.value) == 1]
            if len(incs) != 1:
                problems.append("the cycle counter is not incremented by "
                                "one per new cycle")
            else:
                cname = incs[0].target.id
                if repo.const(fi.module, defs.get(cname)) != 0 or any(
                        isinstance(s, (ast.Assign, ast.AugAssign)) and s is
                        not incs[0] and any(
                            isinstance(t, ast.Name) and t.id == cname
                            for t in ast.walk(s) if isinstance(
                                getattr(t, "ctx", None), ast.Store))
                        for s in ast.walk(loop)):
                    problems.append("the cycle counter does not start at 0 "
                                    "or is changed elsewhere")
            wl = next((s for s in blk if isinstance(s, ast.While)), None)
            jn = None
            for s in blk:
                if tname(s) is not None and ast.unparse(s.value).replace(
                        " ", "") == f"{xname}[{iv}]":
                    jn = tname(s)
            if wl is None or jn is None:
                problems.append("the cycle through position i is not "
                                "followed (j = x[i]; while j != i)")
            else:
                tsrc = ast.unparse(wl.test).replace(" ", "")
                ok_t = tsrc in (f"{jn}!={iv}", f"{iv}!={jn}")
                marks = [s for s in wl.body if isinstance(s, ast.Assign)
                         and ast.unparse(s.targets[0]).replace(
                             " ", "") == f"{uname}[{jn}]" and repo.const(
                             fi.module, s.value) is False]
                steps = [s for s in wl.body if tname(s) == jn and
                         ast.unparse(s.value).replace(
                             " ", "") == f"{xname}[{jn}]"]
                if not ok_t:
                    problems.append("the cycle walk does not stop exactly "
                                    "when it returns to its start")
                if len(marks) != 1:
                    problems.append("positions on the cycle are not marked "
                                    "visited")
                if len(steps) != 1 or (marks and steps and wl.body.index(
                        marks[0]) > wl.body.index(steps[0])):
                    problems.append("the walk does not advance j = x[j] "
                                    "after marking j")
    if len(rets) != 1 or cname is None or ast.unparse(
            rets[0].value).replace(" ", "") not in (
            f"{nname}-{cname}", f"int({nname}-{cname})"):
        problems.append("the result is not n - (number of cycles)")
    ctx.ob("D20.5", fi, fi.node, not problems,
           "swap_distance counts the cycles of p2[argsort(p1)] (each "
           "unvisited position starts one cycle, which is walked and marked "
           "until it closes) and returns n - cycles, the minimum number of "
           "transpositions" if not problems else "; ".join(problems),
           construct="cycle counting")


# ------------------------------------------------------------------ D20.6
def _merging(ctx: Ctx) -> None:
    """from_sequence_and_distance merges zero-distance objects."""
    repo = ctx.repo
    fi = repo.func(MOD, "Instance.from_sequence_and_distance")
    body = func_body(fi)
    problems: list[str] = []
    outer = next((s for s in body if isinstance(s, ast.While)), None)
    if outer is None:
        ctx.ob("D20.6", fi, fi.node, False, "no loop over the objects",
               construct="merging protocol")
        return

    def src(n: ast.AST) -> str:
        return ast.unparse(n).replace(" ", "")

    def names_assigned(stmts: list[ast.stmt], nm: str) -> list[ast.stmt]:
        return [s for s in stmts if isinstance(
            s, (ast.Assign, ast.AnnAssign, ast.AugAssign)) and isinstance(
            s.targets[0] if isinstance(s, ast.Assign) else s.target,
            ast.Name) and (s.targets[0] if isinstance(s, ast.Assign)
                           else s.target).id == nm]
    t = outer.test
    if not (isinstance(t, ast.Compare) and len(t.ops) == 1 and isinstance(
            t.ops[0], ast.Lt) and isinstance(t.left, ast.Name)
            and isinstance(t.comparators[0], ast.Call)
            and src(t.comparators[0].func) in ("len", "list.__len__")):
        ctx.ob("D20.6", fi, outer, False,
               "the outer loop is not `while i < len(objects)`",
               construct="merging protocol")
        return
    iv = t.left.id
    data = src(t.comparators[0].args[0])
    pre = body[:body.index(outer)]
    i0 = names_assigned(pre, iv)
    if len(i0) != 1 or repo.const(fi.module, i0[-1].value) != 0:
        problems.append(f"`{iv}` does not start at 0")
    inner = next((s for s in outer.body if isinstance(s, ast.While)), None)
    if inner is None:
        problems.append("no inner loop over the later objects")
    else:
        t2 = inner.test
        ok2 = isinstance(t2, ast.Compare) and len(t2.ops) == 1 and \
            isinstance(t2.ops[0], ast.Lt) and isinstance(
            t2.left, ast.Name) and src(t2.comparators[0]) in (
            f"len({data})", f"list.__len__({data})")
        if not ok2:
            problems.append("the inner loop is not `while j < len(objects)`")
        else:
            jv = t2.left.id
            before = outer.body[:outer.body.index(inner)]
            after = outer.body[outer.body.index(inner) + 1:]
            j0 = names_assigned(before, jv)
            if len(j0) != 1 or src(j0[0].value) not in (f"{iv}+1",
                                                         f"1+{iv}"):
                problems.append(f"`{jv}` does not start at {iv} + 1")
            # objects of this round
            o1 = next((s for s in before if isinstance(
                s, (ast.Assign, ast.AnnAssign)) and s.value is not None
                and src(s.value) == f"{data}[{iv}]"), None)
            o2 = next((s for s in inner.body if isinstance(
                s, (ast.Assign, ast.AnnAssign)) and s.value is not None
                and src(s.value) == f"{data}[{jv}]"), None)
            o1n = (o1.targets[0] if isinstance(o1, ast.Assign)
                   else o1.target).id if o1 is not None else None
            o2n = (o2.targets[0] if isinstance(o2, ast.Assign)
                   else o2.target).id if o2 is not None else None
            if o1n is None or o2n is None:
                problems.append("the two compared objects are not "
                                f"{data}[{iv}] and {data}[{jv}]")
            # the row under construction
            rows = None
            rowv = None
            for s in before:
                if isinstance(s, (ast.Assign, ast.AnnAssign)) and isinstance(
                        s.value, ast.ListComp) and len(
                        s.value.generators) == 1:
                    g = s.value.generators[0]
                    if isinstance(s.value.elt, ast.Subscript) and src(
                            s.value.elt) == f"{src(g.target)}[{iv}]" and \
                            not g.ifs:
                        rows = src(g.iter)
                        rowv = (s.targets[0] if isinstance(s, ast.Assign)
                                else s.target).id
            if rows is None:
                problems.append("a new row does not start with column i of "
                                "the earlier rows (symmetry)")
            else:
                diag = [s for s in before if isinstance(s, ast.Expr)
                        and src(s.value) == f"{rowv}.append(0)"]
                if len(diag) != 1:
                    problems.append("the diagonal entry 0 is not appended")
                # purge / keep branches
                dist_def = next((s for s in inner.body if isinstance(
                    s, (ast.Assign, ast.AnnAssign)) and isinstance(
                    s.value, ast.Call) and src(s.value.func) == fi.params[1]),
                    None)
                dn = (dist_def.targets[0] if isinstance(dist_def, ast.Assign)
                      else dist_def.target).id if dist_def is not None \
                    else None
                if dn is None or sorted(src(a) for a in
                                        dist_def.value.args) != sorted(
                        [o1n or "?", o2n or "?"]):
                    problems.append("the distance is not get_distance of "
                                    "the two objects of this round")
                purge = next((s for s in inner.body if isinstance(s, ast.If)
                              and dn is not None and src(s.test) in (
                                  f"{dn}<=0", f"{dn}==0", f"0>={dn}",
                                  f"{dn}<=0.0", f"{dn}==0.0")), None)
                if purge is None:
                    problems.append("objects at distance 0 are not singled "
                                    "out (`if dist <= 0`)")
                else:
                    pb = [src(s) for s in purge.body]
                    need = [f"mappings.append(({o2n},{iv}))",
                            f"del{data}[{jv}]"]
                    maps = None
                    for s in purge.body:
                        if isinstance(s, ast.Expr) and isinstance(
                                s.value, ast.Call) and src(
                                s.value.func).endswith(".append") and \
                                s.value.args and src(
                                s.value.args[0]) == f"({o2n},{iv})":
                            maps = src(s.value.func)[:-7]
                    if maps is None:
                        problems.append("a merged object is not recorded "
                                        "with the index of its "
                                        "representative")
                    if f"del{data}[{jv}]" not in pb:
                        problems.append("a merged object is not removed "
                                        "from the object list")
                    cols = [s for s in purge.body if isinstance(s, ast.For)
                            and src(s.iter) == rows and len(s.body) == 1
                            and src(s.body[0]) ==
                            f"del{src(s.target)}[{jv}]"]
                    if len(cols) != 1:
                        problems.append("the column of a merged object is "
                                        "not removed from the earlier rows")
                    if not (purge.body and isinstance(
                            purge.body[-1], ast.Continue)) or any(
                            names_assigned([s], jv) for s in purge.body):
                        problems.append("after a merge the same position "
                                        "must be examined again (continue, "
                                        "j unchanged)")
                    rest = inner.body[inner.body.index(purge) + 1:]
                    keep_app = [s for s in rest if isinstance(s, ast.Expr)
                                and src(s.value) == f"{rowv}.append({dn})"]
                    keep_inc = [s for s in rest if isinstance(
                        s, ast.AugAssign) and src(s) == f"{jv}+=1"]
                    if len(keep_app) != 1 or len(keep_inc) != 1 or len(
                            rest) != 2:
                        problems.append("a kept object does not contribute "
                                        "exactly one distance and one step")
                    del need
                    # end of the round
                    a_src = [src(s) for s in after]
                    want = [f"{maps}.append(({o1n},{iv}))" if maps else "?",
                            f"{rows}.append({rowv})", f"{iv}+=1"]
                    if sorted(a_src) != sorted(want):
                        problems.append(
                            "a round does not end with: record the "
                            "representative itself, store the row, advance "
                            f"(found {a_src})")
                    # the result
                    rets = [r for r in ast.walk(fi.node)
                            if isinstance(r, ast.Return)]
                    okr = False
                    if len(rets) == 1 and isinstance(
                            rets[0].value, ast.Call) and src(
                            rets[0].value.func) == "Instance":
                        a = rets[0].value.args
                        okr = len(a) >= 5 and src(a[0]) == \
                            f"np.array({rows})" and maps is not None and \
                            maps in src(a[4])
                    if not okr:
                        problems.append("the instance is not built from "
                                        "the reduced distance matrix and "
                                        "the object -> representative map")
                    else:
                        ctor = repo.func(MOD, "Instance.__init__").params[1:]
                        a = rets[0].value.args
                        for k in (1, 2, 3):
                            if k < len(a) and src(a[k]) != ctor[k]:
                                problems.append(
                                    f"constructor parameter `{ctor[k]}` "
                                    f"receives `{src(a[k])}`")
                    # distances are validated before use: raise iff not
                    # (finite and 0 <= d <= 1e100)
                    val = next((s for s in inner.body if isinstance(
                        s, ast.If) and s.body and isinstance(
                        s.body[-1], ast.Raise)), None)
                    okv = False
                    if val is not None and isinstance(
                            val.test, ast.UnaryOp) and isinstance(
                            val.test.op, ast.Not) and isinstance(
                            val.test.operand, ast.BoolOp) and isinstance(
                            val.test.operand.op, ast.And):
                        parts = val.test.operand.values
                        fin = any(src(p_) in (f"isfinite({dn})",
                                              f"math.isfinite({dn})",
                                              f"np.isfinite({dn})")
                                  for p_ in parts)
                        rng = any(isinstance(p_, ast.Compare) and len(
                            p_.ops) == 2 and all(isinstance(o, ast.LtE)
                                                 for o in p_.ops)
                            and repo.const(fi.module, p_.left) == 0
                            and src(p_.comparators[0]) == dn
                            and repo.const(fi.module, p_.comparators[1])
                            == 1e100 for p_ in parts)
                        okv = fin and rng and inner.body.index(
                            val) < inner.body.index(purge)
                    if not okv:
                        problems.append(
                            "a distance is not rejected exactly when it is "
                            "not finite or outside [0, 1e100] (before it "
                            "is used)")
    ctx.ob("D20.6", fi, outer, not problems,
           "objects at distance 0 from an earlier representative are "
           "removed (list entry and matrix column), recorded with the "
           "representative's index and the position is examined again; "
           "kept objects contribute one symmetric distance; every "
           "representative is recorded with its own index" if not problems
           else "; ".join(problems), construct="merging protocol")
