"""E2 - a statement-level control flow graph with path queries.

Nodes are simple statements and *test* nodes (one per atomic condition:
``a or b`` / ``a and b`` / ``not a`` are split so that short-circuit order is
explicit).  Edges carry a label: None, True or False (outcome of a test),
"iter"/"done" for `for` heads, "exc" for exceptional edges into handlers.
"""
from __future__ import annotations

import ast
from dataclasses import dataclass, field
from typing import Callable, Iterable


@dataclass(eq=False)
class Node:
    idx: int
    kind: str                     # entry exit raise stmt test for
    ast: ast.AST | None = None
    succ: list[tuple["Node", object]] = field(default_factory=list)
    pred: list[tuple["Node", object]] = field(default_factory=list)

    def __repr__(self) -> str:
        src = ""
        if self.ast is not None:
            try:
                src = " ".join(ast.unparse(self.ast).split())[:50]
            except Exception:  # noqa: BLE001
                src = type(self.ast).__name__
        return f"<{self.idx}:{self.kind} {src}>"

    @property
    def lineno(self) -> int:
        return getattr(self.ast, "lineno", 0)


class CFG:
    """Control flow graph of one function."""

    def __init__(self, fn: ast.FunctionDef | list[ast.stmt]) -> None:
        self.nodes: list[Node] = []
        self.entry = self._new("entry")
        self.exit = self._new("exit")        # normal return / fall off end
        self.raise_exit = self._new("raise")  # uncaught raise
        body = fn.body if isinstance(fn, ast.FunctionDef) else fn
        self._loops: list[tuple[Node, Node]] = []   # (continue, break)
        self._handlers: list[list[Node]] = []
        first = self._seq(body, self.exit)
        self._edge(self.entry, first, None)

    # ------------------------------------------------------------ building
    def _new(self, kind: str, node: ast.AST | None = None) -> Node:
        n = Node(len(self.nodes), kind, node)
        self.nodes.append(n)
        return n

    def _edge(self, a: Node, b: Node, label: object) -> None:
        if (b, label) not in a.succ:
            a.succ.append((b, label))
            b.pred.append((a, label))

    def _seq(self, stmts: list[ast.stmt], nxt: Node) -> Node:
        for s in reversed(stmts):
            nxt = self._stmt(s, nxt)
        return nxt

    def _exc_targets(self) -> list[Node]:
        return self._handlers[-1] if self._handlers else []

    def _stmt(self, s: ast.stmt, nxt: Node) -> Node:
        if isinstance(s, ast.If):
            t = self._seq(s.body, nxt)
            f = self._seq(s.orelse, nxt)
            return self._test(s.test, t, f)
        if isinstance(s, ast.While):
            head = self._new("join", s)
            after = self._seq(s.orelse, nxt) if s.orelse else nxt
            self._loops.append((head, nxt))
            body = self._seq(s.body, head)
            self._loops.pop()
            test = self._test(s.test, body, after)
            self._edge(head, test, None)
            return head
        if isinstance(s, (ast.For, ast.AsyncFor)):
            head = self._new("for", s)
            after = self._seq(s.orelse, nxt) if s.orelse else nxt
            self._loops.append((head, nxt))
            body = self._seq(s.body, head)
            self._loops.pop()
            self._edge(head, body, "iter")
            self._edge(head, after, "done")
            return head
        if isinstance(s, ast.Break):
            n = self._new("stmt", s)
            self._edge(n, self._loops[-1][1], None)
            return n
        if isinstance(s, ast.Continue):
            n = self._new("stmt", s)
            self._edge(n, self._loops[-1][0], None)
            return n
        if isinstance(s, ast.Return):
            n = self._new("stmt", s)
            self._edge(n, self.exit, None)
            return n
        if isinstance(s, ast.Raise):
            n = self._new("stmt", s)
            tg = self._exc_targets()
            if tg:
                for h in tg:
                    self._edge(n, h, "exc")
            else:
                self._edge(n, self.raise_exit, None)
            return n
        if isinstance(s, (ast.With, ast.AsyncWith)):
            n = self._new("stmt", s)     # the with-header (context exprs)
            body = self._seq(s.body, nxt)
            self._edge(n, body, None)
            return n
        if isinstance(s, ast.Try):
            final_entry = self._seq(s.finalbody, nxt) if s.finalbody \
                else nxt
            handlers = [self._seq(h.body, final_entry) for h in s.handlers]
            hnodes = []
            for h, hb in zip(s.handlers, handlers):
                hn = self._new("handler", h)
                self._edge(hn, hb, None)
                hnodes.append(hn)
            orelse = self._seq(s.orelse, final_entry) if s.orelse \
                else final_entry
            self._handlers.append(hnodes)
            start_count = len(self.nodes)
            body = self._seq(s.body, orelse)
            self._handlers.pop()
            # any statement in the try body may raise into the handlers
            for n in self.nodes[start_count:]:
                if n.kind in ("stmt", "test", "for"):
                    for hn in hnodes:
                        self._edge(n, hn, "exc")
            return body
        if isinstance(s, (ast.FunctionDef, ast.ClassDef,
                          ast.AsyncFunctionDef)):
            n = self._new("stmt", s)
            self._edge(n, nxt, None)
            return n
        n = self._new("stmt", s)
        self._edge(n, nxt, None)
        return n

    def _test(self, e: ast.expr, t: Node, f: Node) -> Node:
        if isinstance(e, ast.BoolOp):
            vals = list(e.values)
            if isinstance(e.op, ast.Or):
                nxt = f
                for v in reversed(vals):
                    nxt = self._test(v, t, nxt)
                return nxt
            nxt = t
            for v in reversed(vals):
                nxt = self._test(v, nxt, f)
            return nxt
        if isinstance(e, ast.UnaryOp) and isinstance(e.op, ast.Not):
            return self._test(e.operand, f, t)
        n = self._new("test", e)
        self._edge(n, t, True)
        self._edge(n, f, False)
        return n

    # ------------------------------------------------------------- queries
    def find(self, pred: Callable[[Node], bool]) -> list[Node]:
        return [n for n in self.nodes if pred(n)]

    def reachable(self, src: Node | Iterable[Node],
                  avoid: Callable[[Node], bool] | None = None,
                  edge_ok: Callable[[Node, Node, object], bool] | None = None
                  ) -> set[Node]:
        """Nodes reachable from `src` (exclusive of src unless on a cycle)
        along paths whose *intermediate and final* nodes do not satisfy
        `avoid`."""
        start = [src] if isinstance(src, Node) else list(src)
        seen: set[Node] = set()
        stack = list(start)
        while stack:
            n = stack.pop()
            for m, lab in n.succ:
                if edge_ok is not None and not edge_ok(n, m, lab):
                    continue
                if m in seen:
                    continue
                if avoid is not None and avoid(m):
                    continue
                seen.add(m)
                stack.append(m)
        return seen

    def can_reach_avoiding(self, src: Node, dst: Node,
                           avoid: Callable[[Node], bool],
                           edge_ok: Callable[[Node, Node, object], bool]
                           | None = None) -> bool:
        """Is there a path src -> dst with no intermediate `avoid` node?"""
        if src is dst:
            return True
        return dst in self.reachable(
            src, lambda n: n is not dst and avoid(n), edge_ok)

    def dominated_by(self, target: Node, pred: Callable[[Node], bool],
                     edge_ok: Callable[[Node, Node, object], bool]
                     | None = None) -> bool:
        """Does every path entry -> target pass a node satisfying `pred`?"""
        if pred(target):
            return True
        return not self.can_reach_avoiding(self.entry, target, pred, edge_ok)

    def postdominated_by(self, src: Node, pred: Callable[[Node], bool],
                         ends: Iterable[Node] | None = None) -> bool:
        """Does every path src -> normal exit pass a `pred` node?"""
        ends = list(ends) if ends is not None else [self.exit]
        for e in ends:
            if self.can_reach_avoiding(src, e, pred):
                return False
        return True


def calls_in(node: ast.AST | None) -> list[ast.Call]:
    """All calls inside one CFG node (not descending into nested defs)."""
    if node is None:
        return []
    out: list[ast.Call] = []
    stack: list[ast.AST] = [node]
    while stack:
        n = stack.pop()
        if isinstance(n, ast.Call):
            out.append(n)
        if isinstance(n, (ast.For, ast.AsyncFor)):
            # a for-head node owns only its iterator expression
            stack.append(n.iter)
            continue
        if isinstance(n, (ast.With, ast.AsyncWith)):
            for it in n.items:
                stack.append(it.context_expr)
            continue
        if isinstance(n, (ast.While, ast.If, ast.Try)):
            continue
        if isinstance(n, (ast.FunctionDef, ast.Lambda, ast.ClassDef)) and \
                n is not node:
            continue
        stack.extend(ast.iter_child_nodes(n))
    return out


def node_exprs(n: Node) -> list[ast.AST]:
    """The AST fragments that are evaluated *at* this node."""
    a = n.ast
    if a is None:
        return []
    if n.kind == "for":
        return [a.iter]  # type: ignore[attr-defined]
    if n.kind == "join":
        return []
    if isinstance(a, (ast.With, ast.AsyncWith)):
        return [it.context_expr for it in a.items]
    if n.kind == "handler":
        return []
    return [a]
