"""Case splitting of conditional terms (ite trees) over linear conditions.

Two values computed by the term normaliser (`sa.symterm`) are compared *per
outcome of the comparisons they contain*: the conditions of all `ite` atoms
(and of boolean-valued results) are atomic comparisons between polynomials;
`cases()` expands a tuple of values into the finitely many consistent
combinations of outcomes (a decision tree, pruned with the exact
Fourier-Motzkin prover of `sa.lin` - a combination that is linearly
infeasible over the integers is dropped) and yields, for each, the facts and
the values with every `ite` resolved.  Non-linear monomials and opaque atoms
(array cells, floordiv applications) are treated as uninterpreted integer
symbols, which is sound for equivalence: two terms that agree for every
value of those symbols agree in particular for the real ones.

This is the "finite set of orderings" argument of DESIGN E5 in a form that
scales to many independent comparisons (weak orderings of all compared terms
would enumerate their product).
"""
from __future__ import annotations

from fractions import Fraction
from typing import Any, Iterator

from sa.lin import Lin, consistent, entails
from sa.symterm import Poly, Unsupported, show, show_cond

COND_HEADS = ("true", "false", "lt", "le", "eq", "not", "and", "or")


def is_cond(v: Any) -> bool:
    return isinstance(v, tuple) and bool(v) and isinstance(v[0], str) \
        and v[0] in COND_HEADS


class Splitter:
    """See module docstring."""

    def __init__(self, integer: bool = True, max_cases: int = 20000) -> None:
        self.integer = integer
        self.max_cases = max_cases
        self._sym: dict[Any, str] = {}
        self.n_cases = 0
        self._known: list[tuple[tuple, bool]] = []

    # ------------------------------------------------------------ poly -> lin
    def _name(self, mono: Any) -> str:
        k = repr(mono)
        if k not in self._sym:
            self._sym[k] = f"m{len(self._sym)}"
        return self._sym[k]

    def lin(self, p: Poly) -> Lin:
        r = Lin.const(Fraction(0))
        for mono, c in p.terms.items():
            if mono == ():
                r = r + Lin.const(c)
            else:
                r = r + Lin.sym(self._name(mono)).scale(c)
        return r

    @staticmethod
    def _integral(d: Lin) -> Lin:
        """Scale to integer coefficients (so that `> 0` means `>= 1`)."""
        from math import lcm
        m = 1
        for v in list(d.co.values()) + [d.c]:
            m = lcm(m, Fraction(v).denominator)
        return d.scale(m) if m != 1 else d

    def facts_of(self, c: tuple, truth: bool) -> list[list[Lin]]:
        """Atomic condition -> disjunction (list) of conjunctions of facts."""
        one = 1 if self.integer else 0
        k = c[0]
        if k in ("lt", "le", "eq"):
            d = self._integral(self.lin(c[2] - c[1]))
        if k == "lt":
            return [[d - one]] if truth else [[-d]]
        if k == "le":
            return [[d]] if truth else [[-d - one]]
        if k == "eq":
            if truth:
                return [[d, -d]]
            return [[d - one], [-d - one]]
        raise Unsupported(f"not an atomic comparison: {show_cond(c)}")

    def _has_ite(self, p: Any) -> bool:
        k = id(p)
        memo = self.__dict__.setdefault("_ite_memo", {})
        if k in memo and memo[k][0] is p:
            return memo[k][1]
        from sa.symterm import all_atoms
        r = any(isinstance(a, tuple) and a and a[0] == "ite"
                for a in all_atoms(p))
        memo[k] = (p, r)
        return r

    # --------------------------------------------------------------- deciding
    def decide_atomic(self, c: tuple, facts: list[Lin]) -> bool | None:
        if c[0] == "true":
            return True
        if c[0] == "false":
            return False
        a, b = c[1], c[2]
        if not (isinstance(a, Poly) and isinstance(b, Poly)):
            raise Unsupported(f"non-numeric comparison {c!r}")
        if self._has_ite(a) or self._has_ite(b):
            try:
                a, b = self.resolve(a, facts), self.resolve(b, facts)
            except Unsupported:
                return None
            c = (c[0], a, b)
        d = b - a
        cv = d.const_value()
        if cv is not None:
            return {"lt": cv > 0, "le": cv >= 0, "eq": cv == 0}[c[0]]
        for c0, t0 in self._known:       # decided on this branch already
            if c0 == c:
                return t0
        pos = self.facts_of(c, True)
        neg = self.facts_of(c, False)
        # true iff every negative alternative is inconsistent
        if all(not consistent(facts + alt) for alt in neg):
            return True
        if all(not consistent(facts + alt) for alt in pos):
            return False
        return None

    def decide(self, c: tuple, facts: list[Lin]) -> bool | None:
        k = c[0]
        if k == "not":
            v = self.decide(c[1], facts)
            return None if v is None else not v
        if k in ("and", "or"):
            vs = [self.decide(x, facts) for x in c[1:]]
            if k == "and":
                if any(v is False for v in vs):
                    return False
                return True if all(v is True for v in vs) else None
            if any(v is True for v in vs):
                return True
            return False if all(v is False for v in vs) else None
        return self.decide_atomic(c, facts)

    # ------------------------------------------------------------- resolution
    def _undecided_in_cond(self, c: tuple, facts: list[Lin]) -> tuple | None:
        k = c[0]
        if k in ("true", "false"):
            return None
        if k == "not":
            return self._undecided_in_cond(c[1], facts)
        if k in ("and", "or"):
            for x in c[1:]:
                if self.decide(x, facts) is None:
                    u = self._undecided_in_cond(x, facts)
                    if u is not None:
                        return u
            return None
        for side in (c[1], c[2]):
            u = self._undecided(side, facts)
            if u is not None:
                return u
        if self._has_ite(c[1]) or self._has_ite(c[2]):
            c = (c[0], self.resolve(c[1], facts), self.resolve(c[2], facts))
        return c if self.decide_atomic(c, facts) is None else None

    def _undecided(self, v: Any, facts: list[Lin]) -> tuple | None:
        """First atomic comparison whose outcome `facts` do not determine."""
        if is_cond(v):
            if self.decide(v, facts) is not None:
                return None
            return self._undecided_in_cond(v, facts)
        if isinstance(v, Poly):
            for a in sorted(v.atoms(), key=repr):
                u = self._undecided_atom(a, facts)
                if u is not None:
                    return u
            return None
        if isinstance(v, tuple):
            for x in v:
                u = self._undecided(x, facts)
                if u is not None:
                    return u
        return None

    def _undecided_atom(self, a: Any, facts: list[Lin]) -> tuple | None:
        if not isinstance(a, tuple) or not a:
            return None
        if a[0] == "ite":
            d = self.decide(a[1], facts)
            if d is None:
                return self._undecided_in_cond(a[1], facts)
            return self._undecided(a[2] if d else a[3], facts)
        for x in a[1:]:
            if isinstance(x, (Poly, tuple)):
                u = self._undecided(x, facts) if not (
                    isinstance(x, tuple) and x and isinstance(x[0], str)
                    and x[0] not in COND_HEADS) else self._undecided_atom(
                    x, facts)
                if u is not None:
                    return u
        return None

    def resolve(self, v: Any, facts: list[Lin]) -> Any:
        """`v` with every decided ite / condition replaced by its outcome."""
        if is_cond(v):
            d = self.decide(v, facts)
            if d is None:
                raise Unsupported(f"undecided condition {show_cond(v)}")
            return ("true",) if d else ("false",)
        if isinstance(v, Poly):
            sub = {}
            for a in v.atoms():
                r = self._resolve_atom(a, facts)
                if not (isinstance(r, Poly) and r.as_atom() == a):
                    sub[a] = r
            return v.subst(sub) if sub else v
        if isinstance(v, tuple):
            return tuple(self.resolve(x, facts) for x in v)
        return v

    def _resolve_atom(self, a: Any, facts: list[Lin]) -> Poly:
        if a[0] == "ite":
            d = self.decide(a[1], facts)
            if d is None:
                raise Unsupported(f"undecided ite {show_cond(a[1])}")
            return self.resolve(a[2] if d else a[3], facts)
        new = []
        changed = False
        for x in a:
            if isinstance(x, Poly):
                y = self.resolve(x, facts)
                changed |= y is not x and y != x
                new.append(y)
            elif isinstance(x, tuple) and not is_cond(x) and not (
                    x and isinstance(x[0], str)):
                y = tuple(self.resolve(z, facts) if isinstance(z, Poly)
                          else z for z in x)
                changed |= y != x
                new.append(y)
            else:
                new.append(x)
        return Poly.atom(tuple(new)) if changed else Poly.atom(a)

    # ------------------------------------------------------------------ cases
    def cases(self, values: tuple, facts: list[Lin] | None = None,
              trail: tuple = ()) -> Iterator[tuple[list[Lin], tuple, tuple]]:
        """Yield (facts, resolved values, decisions) per consistent case."""
        facts = list(facts or [])
        u = self._undecided(values, facts)
        if u is None:
            self.n_cases += 1
            if self.n_cases > self.max_cases:
                raise Unsupported("too many cases")
            yield facts, self.resolve(values, facts), trail
            return
        for truth in (True, False):
            for alt in self.facts_of(u, truth):
                nf = facts + alt
                if consistent(nf):
                    self._known.append((u, truth))
                    try:
                        yield from self.cases(values, nf,
                                              trail + ((u, truth),))
                    finally:
                        self._known.pop()

    def equal(self, a: Any, b: Any, facts: list[Lin]) -> bool:
        if is_cond(a) or is_cond(b):
            return a == b
        if isinstance(a, Poly) and isinstance(b, Poly):
            if a == b:
                return True
            d = self.lin(a - b)
            if entails(facts, d) and entails(facts, -d):
                return True
            # symbols that the facts force to be equal are identified
            # (products like x*t and y*t are distinct symbols otherwise)
            diff = a - b
            base = sorted({at for at in _atoms_deep(diff)}, key=repr)
            sub = {}
            for i_, x in enumerate(base):
                if x in sub:
                    continue
                for y in base[i_ + 1:]:
                    if y in sub:
                        continue
                    d2 = self.lin(Poly.atom(x) - Poly.atom(y))
                    if entails(facts, d2) and entails(facts, -d2):
                        sub[y] = Poly.atom(x)
            if sub and diff.subst(sub) == Poly():
                return True
            # floordiv(A, B) is the constant k when k*B <= A <= k*B + B - 1
            for at in sorted(diff.atoms(), key=repr):
                if at[0] == "app" and at[1] == "floordiv" and len(
                        at[2]) == 2:
                    A, B = at[2]
                    for k in (0, 1, -1):
                        kb = B.scale(k)
                        if entails(facts, self.lin(A - kb)) and entails(
                                facts, self.lin(kb + B - Poly.const(1) - A)):
                            sub = {at: Poly.const(k)}
                            return self.equal(a.subst(sub), b.subst(sub),
                                              facts)
            return False
        return a == b


def equivalent(a: Any, b: Any, facts: list[Lin] | None = None,
               integer: bool = True, max_cases: int = 5000) \
        -> tuple[bool, str]:
    """Are two (conditional) values equal on every consistent outcome of
    the comparisons they contain?  Returns (verdict, first difference)."""
    sp = Splitter(integer=integer, max_cases=max_cases)
    try:
        for fs, (x, y), trail in sp.cases((a, b), list(facts or [])):
            if is_cond(x) != is_cond(y):
                return False, f"[{describe(trail)}] {x!r} vs {y!r}"
            if not sp.equal(x, y, fs):
                return False, (f"[{describe(trail)[:200]}] "
                               f"{_show(x)} vs {_show(y)}")
    except Unsupported as u:
        return False, f"case analysis failed: {u}"
    return True, ""


def _show(v: Any) -> str:
    if is_cond(v):
        return show_cond(v)
    if isinstance(v, Poly):
        return show(v)
    return repr(v)


def minmax_to_ite(p: Any) -> Any:
    """max(a, b) / min(a, b) applications rewritten as conditional terms
    (also inside the branches and tests of conditional terms), so that the
    case analysis can resolve them."""
    from sa.symterm import ite
    if is_cond(p):
        return (p[0],) + tuple(minmax_to_ite(x) for x in p[1:])
    if not isinstance(p, Poly):
        return p
    sub = {}
    for a in p.atoms():
        if a[0] == "app" and a[1] in ("max", "min") and len(a[2]) >= 2:
            args = [minmax_to_ite(x) for x in a[2]]
            cur = args[0]
            for nx in args[1:]:
                cur = ite(("lt", cur, nx), nx, cur) if a[1] == "max" \
                    else ite(("lt", nx, cur), nx, cur)
            sub[a] = cur
        elif a[0] == "ite":
            new = ite(minmax_to_ite(a[1]), minmax_to_ite(a[2]),
                      minmax_to_ite(a[3]))
            if not (isinstance(new, Poly) and new.as_atom() == a):
                sub[a] = new
    return p.subst(sub) if sub else p


def _atoms_deep(p: Poly) -> set:
    """The atoms occurring as factors of the monomials of `p`."""
    out = set()
    for mono in p.terms:
        for at, _e in mono:
            out.add(at)
    return out


def describe(trail: tuple) -> str:
    return " and ".join(("" if t else "not ") + "(" + show_cond(c) + ")"
                        for c, t in trail) or "always"


__all__ = ["Splitter", "describe", "equivalent", "is_cond",
           "minmax_to_ite", "show"]
